#!/usr/bin/env python3
"""Developer helper: verifies every function under contract once (16 processes) and prints anything not discharged."""
import sys, os
HERE = os.path.dirname(os.path.abspath(__file__))
sys.path.insert(0, HERE)
from pyvc import runner
from concurrent.futures import ProcessPoolExecutor
db = runner.load_db()
keys = sorted(db.contracts)
bad = 0
nobl = 0
with ProcessPoolExecutor(16) as ex:
    for out in ex.map(runner._worker, [(k, os.environ.get('VERIF_REPO', '/repo'), 10000, int(os.environ.get('DOM', '0')), True) for k in keys]):
        probs = [x for x in out['results'] if x['status'] not in ('discharged',) and not (x['kind'] == 'cover' and x['status'] == 'discharged')]
        nobl += sum(1 for x in out['results'] if x['kind'] != 'cover')
        if out['error'] or probs:
            bad += 1
            print(out['key'], out['error'])
            for x in probs:
                print('   ', x['name'], x['status'], x['detail'][:160])
print(f'{len(keys)} functions, {nobl} obligations, {bad} with problems')
