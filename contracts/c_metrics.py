"""Sidecar contracts for C17: metric classification and evaluation."""

GP = 'adsg_core/optimization/graph_processor.py:'
DV = 'adsg_core/optimization/dv_output_defs.py:'
EV = 'adsg_core/optimization/evaluator.py:'

ENUMS = {
    'MetricType': {'NONE': 0, 'OBJECTIVE': 1, 'CONSTRAINT': 2, 'OBJ_OR_CON': 3, '__bits__': 2},
    'Direction': {'MIN': -1, 'MAX': 1, 'LTE': -1, 'GTE': 1},
}

CLASSES = {
    'MetricNode': {'name': 'Str', 'idx': 'Optional[Int]', 'dir': 'Optional[Int]', 'ref': 'Optional[Real]',
                   'type': 'Optional[Enum[MetricType]]'},
    'Objective': {'_name': 'Str', '_dir': 'Enum[Direction]', '_node': 'Optional[Ref[MetricNode]]',
                  'node': ('expr', 'self._node'), 'dir': ('expr', 'self._dir'), 'name': ('expr', 'self._name')},
    'Constraint': {'_name': 'Str', '_ref': 'Real', '_dir': 'Enum[Direction]', '_node': 'Optional[Ref[MetricNode]]',
                   'node': ('expr', 'self._node'), 'dir': ('expr', 'self._dir'), 'ref': ('expr', 'self._ref'),
                   'name': ('expr', 'self._name')},
    'GraphProcessor': {
        'permanent_nodes': 'Set[Ref]',                       # cached property (= _get_permanent_nodes(), see C02 contracts)
        'metric_nodes': 'List[Ref[MetricNode]]',             # cached property: metric nodes sorted by name
        '_metrics': 'List[Tuple[Ref[MetricNode],Enum[MetricType]]]',   # cached property = _get_metrics()
        'objectives': 'List[Ref[Objective]]',
        'constraints': 'List[Ref[Constraint]]',
    },
    'DSGEvaluator': {'__bases__': ('GraphProcessor',)},
    'DSG': {'metric_nodes': 'List[Ref[MetricNode]]', '_metric_values': 'Dict[Ref,Real]'},
}

CAN_OBJ = 'n.dir is not None and n in perm'
CAN_CON = 'n.dir is not None and n.ref is not None'
# metric type assigned to node n (statement of C17 as a function of the node's declared data)
MT = ('ite(n.type is not None and n.type == MetricType.NONE, MetricType.NONE, '
      'ite(canobj(n, perm) and cancon(n), ite(n.type is not None, n.type, MetricType.OBJ_OR_CON), '
      'ite(canobj(n, perm), MetricType.OBJECTIVE, ite(cancon(n), MetricType.CONSTRAINT, MetricType.NONE))))')

IS_OBJ = '(t == MetricType.OBJECTIVE or t == MetricType.OBJ_OR_CON)'
IS_CON = '(t == MetricType.CONSTRAINT or t == MetricType.OBJ_OR_CON)'

CONTRACTS = {
    GP + 'GraphProcessor._can_be_objective': dict(
        properties=['C17'],
        types={'metric_node': 'Ref[MetricNode]', 'permanent_nodes': 'Set[Ref]'},
        returns='Bool',
        ensures={'obj-only-if': ('property', 'result == (metric_node.dir is not None and metric_node in permanent_nodes)')},
        modifies=[],
    ),
    GP + 'GraphProcessor._can_be_constraint': dict(
        properties=['C17'],
        types={'metric_node': 'Ref[MetricNode]'},
        returns='Bool',
        ensures={'con-only-if': ('property', 'result == (metric_node.dir is not None and metric_node.ref is not None)')},
        modifies=[],
    ),
    GP + 'GraphProcessor._get_metrics': dict(
        properties=['C17'],
        types={'self': 'Ref[GraphProcessor]'},
        returns='List[Tuple[Ref[MetricNode],Enum[MetricType]]]',
        locals={'metrics': 'List[Tuple[Ref[MetricNode],Enum[MetricType]]]'},
        defs={'canobj': (('n', 'perm'), CAN_OBJ), 'cancon': (('n',), CAN_CON), 'mt': (('n', 'perm'), MT)},
        calls={'self._can_be_objective': GP + 'GraphProcessor._can_be_objective',
               'self._can_be_constraint': GP + 'GraphProcessor._can_be_constraint'},
        loops={'for metric_node in self.metric_nodes': dict(index='k', invariant={
            'len': 'len(metrics) == k',
            'done': 'forall(j, 0, k, metrics[j][0] == self.metric_nodes[j] and metrics[j][1] == mt(self.metric_nodes[j], self.permanent_nodes))',
        })},
        ensures={
            'one-per-metric-in-order': ('property', 'len(result) == len(self.metric_nodes) and forall(j, 0, len(result), result[j][0] == self.metric_nodes[j])'),
            'type-by-contract': ('property', 'forall(j, 0, len(result), result[j][1] == mt(self.metric_nodes[j], self.permanent_nodes))'),
            'obj-only-if-dir-and-permanent': ('property', 'forall(j, 0, len(result), implies(result[j][1] == MetricType.OBJECTIVE or result[j][1] == MetricType.OBJ_OR_CON, self.metric_nodes[j].dir is not None and self.metric_nodes[j] in self.permanent_nodes))'),
            'con-only-if-dir-and-ref': ('property', 'forall(j, 0, len(result), implies(result[j][1] == MetricType.CONSTRAINT or result[j][1] == MetricType.OBJ_OR_CON, self.metric_nodes[j].dir is not None and self.metric_nodes[j].ref is not None))'),
            'none-unused': ('property', 'forall(j, 0, len(result), implies(self.metric_nodes[j].type is not None and self.metric_nodes[j].type == MetricType.NONE, result[j][1] == MetricType.NONE))'),
            'declared-decides': ('property', 'forall(j, 0, len(result), implies(canobj(self.metric_nodes[j], self.permanent_nodes) and cancon(self.metric_nodes[j]) and self.metric_nodes[j].type is not None, result[j][1] == self.metric_nodes[j].type))'),
            'ambiguous-stays-both': ('property', 'forall(j, 0, len(result), implies(canobj(self.metric_nodes[j], self.permanent_nodes) and cancon(self.metric_nodes[j]) and self.metric_nodes[j].type is None, result[j][1] == MetricType.OBJ_OR_CON))'),
        },
        modifies=[],
    ),
}


def _rng():
    import os
    import random
    return random.Random(3000 + int(os.environ.get('VERIF_SEED', '0') or 0))


def _mk_nodes(rng, n):
    from adsg_core.graph.adsg_nodes import MetricNode, MetricType
    out = []
    for i in range(n):
        out.append(MetricNode(f'm{i}', direction=rng.choice([None, -1, 1]), ref=rng.choice([None, 0.0, 2.5]),
                              type_=rng.choice([None, None, MetricType.NONE, MetricType.OBJECTIVE,
                                                MetricType.CONSTRAINT, MetricType.OBJ_OR_CON])))
    return out


class _GP:
    """Minimal receiver carrying exactly the attributes the functions under contract read (the real methods are
    called unbound on it)."""


def _exec_env():
    from adsg_core.graph.adsg_nodes import MetricType
    from adsg_core.optimization.dv_output_defs import Direction
    return {'MetricType': MetricType, 'Direction': Direction}


def _domain_get_metrics(n):
    from adsg_core.optimization.graph_processor import GraphProcessor
    rng = _rng()
    for _ in range(n):
        nodes = _mk_nodes(rng, rng.randint(0, 4))
        perm = set(x for x in nodes if rng.random() < 0.6)
        gp = _GP()
        gp.permanent_nodes = perm
        gp.metric_nodes = nodes
        gp._can_be_objective = GraphProcessor._can_be_objective
        gp._can_be_constraint = GraphProcessor._can_be_constraint
        env = dict(_exec_env(), self=gp)
        yield (env, (lambda gp=gp: GraphProcessor._get_metrics(gp)), {},
               '_get_metrics over ' + str([(m.dir, m.ref, str(m.type), m in perm) for m in nodes]))


DOMAIN = {GP + 'GraphProcessor._get_metrics': _domain_get_metrics}

CONTRACTS.update({
    DV + 'Objective.__init__': dict(
        properties=['C17'],
        types={'self': 'Ref[Objective]', 'name': 'Str', 'direction': 'Enum[Direction]', 'node': 'Optional[Ref[MetricNode]]'},
        ensures={'stores': ('carrier', 'self._name == name and self._dir == direction and self._node == node')},
        modifies=['self._name', 'self._dir', 'self._node'],
    ),
    DV + 'Constraint.__init__': dict(
        properties=['C17'],
        types={'self': 'Ref[Constraint]', 'name': 'Str', 'ref': 'Real', 'direction': 'Enum[Direction]',
               'node': 'Optional[Ref[MetricNode]]'},
        ensures={'stores': ('carrier', 'self._name == name and self._ref == ref and self._dir == direction and self._node == node')},
        modifies=['self._name', 'self._ref', 'self._dir', 'self._node'],
    ),
    DV + 'Objective.from_metric_node': dict(
        properties=['C17'],
        types={'cls': 'Ref', 'metric_node': 'Ref[MetricNode]'},
        returns='Ref[Objective]',
        calls={'cls': dict(ctor=DV + 'Objective.__init__', cls='Objective')},
        raises={'no-dir': ('ValueError', 'metric_node.dir is None')},
        ensures={
            'node': ('property', 'result.node == metric_node'),
            'dir-map': ('property', 'result.dir == ite(metric_node.dir <= 0, Direction.MIN, Direction.MAX)'),
            'new-object': ('carrier', 'fresh_object(result)'),
        },
        allocates=True,
        modifies=['result._name', 'result._dir', 'result._node'],
    ),
    DV + 'Constraint.from_metric_node': dict(
        properties=['C17'],
        types={'cls': 'Ref', 'metric_node': 'Ref[MetricNode]'},
        returns='Ref[Constraint]',
        calls={'cls': dict(ctor=DV + 'Constraint.__init__', cls='Constraint')},
        raises={'no-dir': ('ValueError', 'metric_node.dir is None'),
                'no-ref': ('ValueError', 'metric_node.dir is not None and metric_node.ref is None')},
        ensures={
            'node': ('property', 'result.node == metric_node'),
            'ref-copied': ('property', 'result.ref == metric_node.ref'),
            'dir-map': ('property', 'result.dir == ite(metric_node.dir <= 0, Direction.LTE, Direction.GTE)'),
            'new-object': ('carrier', 'fresh_object(result)'),
        },
        allocates=True,
        modifies=['result._name', 'result._ref', 'result._dir', 'result._node'],
    ),
})

WELL_TYPED = ('forall(i, 0, len(self._metrics), 0 <= self._metrics[i][1].value and self._metrics[i][1].value <= 3 '
              'and implies(self._metrics[i][1] == MetricType.OBJECTIVE or self._metrics[i][1] == MetricType.OBJ_OR_CON, self._metrics[i][0].dir is not None) '
              'and implies(self._metrics[i][1] == MetricType.CONSTRAINT or self._metrics[i][1] == MetricType.OBJ_OR_CON, self._metrics[i][0].dir is not None and self._metrics[i][0].ref is not None))')

CONTRACTS.update({
    GP + 'GraphProcessor._choose_metric_type': dict(
        properties=['C17'],
        types={'self': 'Ref[GraphProcessor]', 'objective': 'Ref[Objective]', 'constraint': 'Ref[Constraint]'},
        returns='Ref',
        raises={'always': ('RuntimeError', 'True')},
        ensures={},
        modifies=[],
    ),
    EV + 'DSGEvaluator._choose_metric_type': dict(
        properties=['C17'],
        types={'self': 'Ref[DSGEvaluator]', 'objective': 'Ref[Objective]', 'constraint': 'Ref[Constraint]'},
        returns='Ref',
        raises={'always': ('RuntimeError', 'True')},
        ensures={},
        modifies=[],
    ),
    GP + 'GraphProcessor._categorize_metrics': dict(
        properties=['C17'],
        types={'self': 'Ref[GraphProcessor]'},
        returns='Tuple[List[Ref[Objective]],List[Ref[Constraint]]]',
        locals={'objectives': 'List[Ref[Objective]]', 'constraints': 'List[Ref[Constraint]]'},
        # the list produced by _get_metrics (its postconditions obj-only-if / con-only-if / type-by-contract)
        requires={'metrics-from-get-metrics': WELL_TYPED},
        calls={'Objective.from_metric_node': DV + 'Objective.from_metric_node',
               'Constraint.from_metric_node': DV + 'Constraint.from_metric_node',
               'self._choose_metric_type': GP + 'GraphProcessor._choose_metric_type'},
        raises={'ambiguous-rejected': ('RuntimeError', 'exists(i, 0, len(self._metrics), self._metrics[i][1] == MetricType.OBJ_OR_CON)')},
        loops={'for metric_node, metric_type in self._metrics': dict(index='k', invariant={
            'no-ambiguous-so-far': 'forall(i, 0, k, self._metrics[i][1] != MetricType.OBJ_OR_CON)',
            'alloc-o': 'forall(a, 0, len(objectives), allocated(objectives[a]))',
            'alloc-c': 'forall(a, 0, len(constraints), allocated(constraints[a]))',
            'obj-sound': 'forall(a, 0, len(objectives), exists(i, 0, k, self._metrics[i][1] == MetricType.OBJECTIVE and objectives[a].node == self._metrics[i][0]))',
            'con-sound': 'forall(a, 0, len(constraints), exists(i, 0, k, self._metrics[i][1] == MetricType.CONSTRAINT and constraints[a].node == self._metrics[i][0] and constraints[a].ref == self._metrics[i][0].ref))',
            'obj-complete': 'forall(i, 0, k, implies(self._metrics[i][1] == MetricType.OBJECTIVE, exists(a, 0, len(objectives), objectives[a].node == self._metrics[i][0])))',
            'con-complete': 'forall(i, 0, k, implies(self._metrics[i][1] == MetricType.CONSTRAINT, exists(a, 0, len(constraints), constraints[a].node == self._metrics[i][0])))',
        })},
        ensures={
            'objectives-only-typed-objective': ('property', 'forall(a, 0, len(result[0]), exists(i, 0, len(self._metrics), self._metrics[i][1] == MetricType.OBJECTIVE and result[0][a].node == self._metrics[i][0]))'),
            'constraints-only-typed-constraint': ('property', 'forall(a, 0, len(result[1]), exists(i, 0, len(self._metrics), self._metrics[i][1] == MetricType.CONSTRAINT and result[1][a].node == self._metrics[i][0] and result[1][a].ref == self._metrics[i][0].ref))'),
            'every-objective-listed': ('property', 'forall(i, 0, len(self._metrics), implies(self._metrics[i][1] == MetricType.OBJECTIVE, exists(a, 0, len(result[0]), result[0][a].node == self._metrics[i][0])))'),
            'every-constraint-listed': ('property', 'forall(i, 0, len(self._metrics), implies(self._metrics[i][1] == MetricType.CONSTRAINT, exists(a, 0, len(result[1]), result[1][a].node == self._metrics[i][0])))'),
        },
        modifies=['Objective._name', 'Objective._dir', 'Objective._node', 'Constraint._name', 'Constraint._ref',
                  'Constraint._dir', 'Constraint._node'],
    ),
})

CONTRACTS.update({
    EV + 'DSGEvaluator.evaluate': dict(
        properties=['C17'],
        types={'self': 'Ref[DSGEvaluator]', 'dsg': 'Ref[DSG]'},
        returns='Tuple[List[Real],List[Real]]',
        post_locals=['value_map', 'metric_nodes'],
        # objectives/constraints come from _categorize_metrics: each wraps a metric node (post[node] of from_metric_node)
        requires={'objectives-wrap-nodes': 'forall(k, 0, len(self.objectives), self.objectives[k].node is not None)',
                  'constraints-wrap-nodes': 'forall(k, 0, len(self.constraints), self.constraints[k].node is not None)'},
        calls={
            # the user-supplied evaluation: an arbitrary function (result unconstrained, may raise anything)
            'self._evaluate': dict(params=['dsg', 'metric_nodes'], types={}, returns='Dict[Ref,Real]', modifies=[],
                                   assumed=False),
            'dsg.set_metric_value': 'adsg_core/graph/adsg.py:DSG.set_metric_value',
        },
        loops={'for metric_node in metric_nodes': dict(index='k', invariant={
            'stored-so-far': 'forall(j, 0, k, metric_nodes[j] in dsg._metric_values and dsg._metric_values[metric_nodes[j]] == ite(metric_nodes[j] in value_map, value_map[metric_nodes[j]], math.nan))',
        })},
        ensures={
            'one-per-objective': ('property', 'len(result[0]) == len(self.objectives)'),
            'one-per-constraint': ('property', 'len(result[1]) == len(self.constraints)'),
            'objective-value-or-nan': ('property', 'forall(k, 0, len(self.objectives), result[0][k] == ite(self.objectives[k].node in final_value_map, final_value_map[self.objectives[k].node], math.nan))'),
            'constraint-present-value-or-nan': ('property', 'forall(k, 0, len(self.constraints), implies(self.constraints[k].node in final_metric_nodes, result[1][k] == ite(self.constraints[k].node in final_value_map, final_value_map[self.constraints[k].node], math.nan)))'),
            'constraint-absent-exactly-ref': ('property', 'forall(k, 0, len(self.constraints), implies(not (self.constraints[k].node in final_metric_nodes), result[1][k] == self.constraints[k].ref))'),
            'metric-values-stored': ('property', 'forall(j, 0, len(final_metric_nodes), final_metric_nodes[j] in dsg._metric_values and dsg._metric_values[final_metric_nodes[j]] == ite(final_metric_nodes[j] in final_value_map, final_value_map[final_metric_nodes[j]], math.nan))'),
            'evaluated-nodes-are-the-instance-metrics': ('property', 'final_metric_nodes == dsg.metric_nodes'),
        },
        modifies=['dsg._metric_values'],
    ),
})
