"""Sidecar contracts: adsg_core/graph/adsg_basic.py (C02: removal of nodes not derivable from the start nodes)."""
from .c_traversal import EDGE

B = 'adsg_core/graph/adsg_basic.py:'

ENUMS = {'EdgeType': {'DERIVES': 1, 'CONNECTS': 2, 'EXCLUDES': 3, 'INCOMPATIBILITY': 4}}
CLASSES = {
    'NxGraph': {'edge_set': f'Set[{EDGE}]', 'nodes': 'Set[Ref]'},
    'BasicDSG': {'graph': ('expr', 'self._graph'), '_graph': 'Ref[NxGraph]', '_start_nodes': 'Optional[Set[Ref]]'},
}

CONTRACTS = {
    B + 'BasicDSG.set_start_nodes': dict(
        properties=['C02'],
        types={'self': 'Ref[BasicDSG]', 'start_nodes': 'Optional[Set[Ref]]', 'initialize_choices': 'Bool'},
        returns='Ref',
        locals={'removed_edges': f'Set[{EDGE}]', 'removed_nodes': 'Set[Ref]', 'missing_start_nodes': 'Set[Ref]',
                'start_nodes': 'Set[Ref]'},
        # isfloat(x): x is a root of the graph, no derivation / connection edge enters it (what _get_floating_nodes, which
        # is under its own contract, returns)
        defs={'isfloat': (('x',), f"x in self._graph.nodes and not exists('e:{EDGE}', e in self._graph.edge_set and e[1] == x and (e[3] == EdgeType.DERIVES or e[3] == EdgeType.CONNECTS))")},
        calls={
            'self._get_alternative_start_nodes': dict(params=[], types={}, returns='Set[Ref]', modifies=[], receiver='self', assumed=True,
                                                      ensures=["forall('x:Ref', (x in result) == isfloat(x))"]),
            'self._get_floating_nodes': B + 'BasicDSG._get_floating_nodes',
            # the walk from a floating root is told which nodes and edges are already known to go -- otherwise a subtree
            # that two floating roots share is kept alive by the other root (statement of C02: nothing unreachable remains)
            'get_derived_edges_for_node': dict(
                params=['graph', 'node', 'start_nodes', 'removed_edges', 'removed_nodes'], types={}, modifies=[], assumed=True,
                defaults={'removed_edges': None, 'removed_nodes': None},
                returns=f'Tuple[Set[{EDGE}],Set[Ref]]',
                requires={'told-what-already-goes': 'removed_edges is not None and removed_nodes is not None and node in removed_nodes',
                          'same-start-nodes': "forall('x:Ref', (x in start_nodes) == (x in self._start_nodes))"},
                ensures=[]),
            'dsg.get_for_adjusted': dict(
                params=['removed_edges', 'removed_nodes'], types={}, returns='Ref', modifies=[], receiver='dsg', assumed=True, allocates=True,
                requires={'every-floating-root-that-is-no-start-node-goes':
                          "forall('x:Ref', implies(isfloat(x) and not (x in self._start_nodes), x in removed_nodes))",
                          'no-start-node-goes-as-a-root': "forall('x:Ref', implies(isfloat(x) and x in self._start_nodes, True))"},
                ensures=[]),
            'dsg.initialize_choices': dict(params=[], types={}, returns='Ref', modifies=[], receiver='dsg', assumed=True, ensures=[]),
        },
        loops={'for floating_node in self._get_floating_nodes()': dict(processed='P', invariant={
            'processed-roots-go': "forall('x:Ref', implies(x in P and not (x in start_nodes), x in removed_nodes))",
            'start-kept': "self._start_nodes is not None and forall('x:Ref', (x in start_nodes) == (x in self._start_nodes))",
        })},
        raises={'no-start-node': ('ValueError', 'ite(start_nodes is None, not exists("x:Ref", isfloat(x)), not exists("x:Ref", x in start_nodes)) or '
                                                'exists("x:Ref", ite(start_nodes is None, isfloat(x), x in start_nodes) and not (x in self.graph.nodes))')},
        ensures={
            'start-nodes-recorded': ('property', "self._start_nodes is not None and forall('x:Ref', (x in self._start_nodes) == ite(old(start_nodes) is None, isfloat(x), x in old(start_nodes)))"),
        },
        modifies=['self._start_nodes'],
        unchanged_on_raise=False,
    ),
}

ITER_IN_B = dict(params=['graph', 'node'], types={}, returns=f'Set[{EDGE}]', modifies=[], assumed=True,
                 ensures=[f"forall('e:{EDGE}', (e in result) == (e in graph.edge_set and e[1] == node))"])
CONTRACTS[B + 'BasicDSG._get_floating_nodes'] = dict(
    properties=['C02'],
    types={'self': 'Ref[BasicDSG]'},
    returns='Set[Ref]',
    locals={'floating_nodes': 'Set[Ref]'},
    defs={'derived': (('x',), f"exists('e:{EDGE}', e in self._graph.edge_set and e[1] == x and (e[3] == EdgeType.DERIVES or e[3] == EdgeType.CONNECTS))")},
    calls={'iter_in_edges': ITER_IN_B, 'get_edge_type': dict(params=['edge'], types={}, returns='Enum[EdgeType]', modifies=[], pure_expr='edge[3]')},
    loops={
        'for node in self._graph.nodes': dict(processed='PN', invariant={
            'floating-so-far': "forall('x:Ref', (x in floating_nodes) == (x in PN and not derived(x)))"}),
        'for edge in iter_in_edges(self._graph, node)': dict(processed='PE', invariant={
            'none-derives-so-far': f"forall('e:{EDGE}', implies(e in PE, not (e[3] == EdgeType.DERIVES or e[3] == EdgeType.CONNECTS)))",
            'floating-so-far': "forall('x:Ref', (x in floating_nodes) == (x in PN and not derived(x)))"}),
    },
    ensures={
        # the roots of the graph: nodes that no derivation or connection edge enters
        'exactly-the-nodes-without-deriving-in-edge': ('property', "forall('x:Ref', (x in result) == (x in self._graph.nodes and not derived(x)))"),
    },
    modifies=[],
)

CONTRACTS[B + 'BasicDSG._get_alternative_start_nodes'] = dict(
    properties=['C02'],
    types={'self': 'Ref[BasicDSG]'},
    returns='Set[Ref]',
    defs={'isfloat': (('x',), f"x in self._graph.nodes and not exists('e:{EDGE}', e in self._graph.edge_set and e[1] == x and (e[3] == EdgeType.DERIVES or e[3] == EdgeType.CONNECTS))")},
    calls={'self._get_floating_nodes': B + 'BasicDSG._get_floating_nodes'},
    ensures={'default-start-nodes-are-the-roots': ('property', "forall('x:Ref', (x in result) == isfloat(x))")},
    modifies=[],
)
CONTRACTS[B + 'BasicDSG.set_start_nodes']['calls']['self._get_alternative_start_nodes'] = B + 'BasicDSG._get_alternative_start_nodes'


def _domain_floating(n):
    import random, os
    import networkx as nx
    from adsg_core.graph.adsg_basic import BasicDSG
    from adsg_core.graph.graph_edges import EdgeType, add_edge, HashableDict
    from adsg_core.graph.adsg_nodes import NamedNode
    rng = random.Random(8800 + int(os.environ.get('VERIF_SEED', '0') or 0))
    types = [EdgeType.DERIVES, EdgeType.DERIVES, EdgeType.CONNECTS, EdgeType.INCOMPATIBILITY, EdgeType.EXCLUDES]
    for _ in range(n):
        nn = rng.randint(1, 7)
        nodes = [NamedNode(f'n{i}') for i in range(nn)]
        dsg = BasicDSG()
        g = dsg.graph
        g.add_nodes_from(nodes)
        es = set()
        for _ in range(rng.randint(0, 9)):
            u, v = rng.choice(nodes), rng.choice(nodes)
            t = rng.choice(types)
            key = g.new_edge_key(u, v)
            add_edge(g, u, v, key=key, edge_type=t)
            es.add((u, v, key, t))
        g.edge_set = es
        yield ({'self': dsg, 'EdgeType': EdgeType}, (lambda dsg=dsg: dsg._get_floating_nodes()), {'Ref': nodes, EDGE: list(es)},
               f'BasicDSG(edges={[(str(u), str(v), k, t.name) for u, v, k, t in es]})._get_floating_nodes()')


DOMAIN = {B + 'BasicDSG._get_floating_nodes': _domain_floating}
