"""Sidecar contracts: adsg_core/graph/adsg_nodes.py (C16, C11)."""

CLASSES = {
    'DesignVariableNode': {
        'bounds': 'Optional[Tuple[Real,Real]]',
        'options': 'Optional[List[Ref]]',
        'is_discrete': ('expr', 'self.options is not None'),
    },
}

F = 'adsg_core/graph/adsg_nodes.py:'

CONTRACTS = {
    F + 'DesignVariableNode.correct_value': dict(
        property='C16',
        types={'self': 'Ref[DesignVariableNode]', 'value': 'Real'},
        returns='Tuple[Real,Real]',
        # representation invariant established by DesignVariableNode.__init__
        requires={
            'bounds-ordered': 'implies(self.bounds is not None, self.bounds[0] < self.bounds[1])',
            'options-nonempty': 'implies(self.options is not None, len(self.options) >= 1)',
            'not-both': 'self.bounds is None or self.options is None',
        },
        raises={'unset': ('ValueError', 'self.bounds is None and self.options is None')},
        ensures={
            'discrete-range': ('property', 'implies(self.options is not None, 0 <= result[0] and result[0] <= len(self.options) - 1)'),
            'discrete-integral': ('property', 'implies(self.options is not None, is_int(result[0]))'),
            'discrete-clamp': ('property', 'implies(self.options is not None and is_int(value) and 0 <= value and value <= len(self.options) - 1, result[0] == value)'),
            'discrete-clamp-low': ('property', 'implies(self.options is not None and value < 0, result[0] == 0)'),
            'discrete-clamp-high': ('property', 'implies(self.options is not None and value > len(self.options) - 1, result[0] == len(self.options) - 1)'),
            'cont-range': ('property', 'implies(self.options is None, self.bounds[0] <= result[0] and result[0] <= self.bounds[1])'),
            'cont-clamp': ('property', 'implies(self.options is None and self.bounds[0] <= value and value <= self.bounds[1], result[0] == value)'),
            'cont-clamp-low': ('property', 'implies(self.options is None and value < self.bounds[0], result[0] == self.bounds[0])'),
            'cont-clamp-high': ('property', 'implies(self.options is None and value > self.bounds[1], result[0] == self.bounds[1])'),
            'frac': ('carrier', 'implies(self.options is None, result[1] == (result[0] - self.bounds[0]) / (self.bounds[1] - self.bounds[0]))'),
            'frac-range': ('carrier', 'implies(self.options is None, 0 <= result[1] and result[1] <= 1)'),
        },
        modifies=[],
    ),
}


def _replay_correct_value(inputs, label=None):
    from adsg_core.graph.adsg_nodes import DesignVariableNode
    f = inputs['__refs__'][inputs['self']]['fields']
    opts = f['options']
    bounds = f['bounds']
    node = DesignVariableNode('x', bounds=tuple(bounds) if bounds is not None else None,
                              options=[f'opt{i}' for i in range(len(opts))] if opts is not None else None)
    value = inputs['value']
    yield ({'self': node, 'value': value}, (lambda: node.correct_value(value)), {},
           f'DesignVariableNode("x", bounds={node.bounds}, options={node.options}).correct_value({value!r})')


REPLAY = {F + 'DesignVariableNode.correct_value': _replay_correct_value}
