"""Sidecar contracts: adsg_core/graph/adsg.py (C16, C13, C08)."""

A = 'adsg_core/graph/adsg.py:'
N = 'adsg_core/graph/adsg_nodes.py:'

ENUMS = {'ChoiceConstraintType': {'LINKED': 1, 'PERMUTATION': 2, 'UNORDERED': 3, 'UNORDERED_NOREPL': 4}}

CLASSES = {
    'ChoiceConstraint': {'type': 'Enum[ChoiceConstraintType]', 'nodes': 'List[Ref[DesignVariableNode]]'},
    'DSG': {'_des_var_values': 'Dict[Ref,Real]', '_choice_constraints': 'List[Ref[ChoiceConstraint]]',
            '_metric_values': 'Dict[Ref,Real]'},
}

METHODS = {
    ('DesignVariableNode', 'correct_value'): N + 'DesignVariableNode.correct_value',
    ('DSG', 'is_constrained_choice'): A + 'DSG.is_constrained_choice',
}

# representation invariant of a design-variable node (DesignVariableNode.__init__)
DV_OK = ('(n.bounds is None or n.options is None) and implies(n.bounds is not None, n.bounds[0] < n.bounds[1]) and '
         'implies(n.options is not None, len(n.options) >= 1) and (n.bounds is not None or n.options is not None)')
CLAMP_IDX = 'ite(v < 0, 0, ite(v >= cnt, cnt - 1, v))'
IN_DOMAIN = ('ite(n.options is not None, is_int(v) and 0 <= v and v <= len(n.options) - 1, '
             'n.bounds[0] <= v and v <= n.bounds[1])')

CONTRACTS = {
    A + 'DSG.is_constrained_choice': dict(
        properties=['C13', 'C16'],
        types={'self': 'Ref[DSG]', 'choice_node': 'Ref[DesignVariableNode]'},
        returns='Optional[Ref[ChoiceConstraint]]',
        loops={'for choice_con in self._choice_constraints': dict(index='k', invariant={
            'not-in-earlier': 'forall(j, 0, k, not (choice_node in self._choice_constraints[j].nodes))'})},
        ensures={
            'found-constraint-contains-node': ('carrier', 'implies(result is not None, result in self._choice_constraints and choice_node in result.nodes)'),
            'none-iff-unconstrained': ('carrier', 'implies(result is None, forall(j, 0, len(self._choice_constraints), not (choice_node in self._choice_constraints[j].nodes)))'),
        },
        modifies=[],
    ),
    A + 'DSG.set_des_var_value': dict(
        properties=['C16', 'C13'],
        types={'self': 'Ref[DSG]', 'des_var_node': 'Ref[DesignVariableNode]', 'value': 'Real'},
        defs={'dvok': (('n',), DV_OK), 'clampidx': (('v', 'cnt'), CLAMP_IDX), 'indomain': (('n', 'v'), IN_DOMAIN),
              'con': ((), 'is_constrained_choice_spec(self, des_var_node)')},
        funcs={'is_constrained_choice_spec': (['Ref', 'Ref'], 'Optional[Ref]')},
        requires={'node-well-formed': 'dvok(des_var_node)',
                  'linked-nodes-well-formed': 'forall(c, 0, len(self._choice_constraints), forall(j, 0, len(self._choice_constraints[c].nodes), dvok(self._choice_constraints[c].nodes[j])))'},
        loops={'for linked_des_var_node in decision_constraint.nodes': dict(index='k', invariant={
            'own-value-kept': 'des_var_node in self._des_var_values and self._des_var_values[des_var_node] == value',
            'linked-so-far': ('forall(j, 0, k, implies(decision_constraint.nodes[j] != des_var_node, decision_constraint.nodes[j] in self._des_var_values and '
                              'indomain(decision_constraint.nodes[j], self._des_var_values[decision_constraint.nodes[j]]) and '
                              'implies(des_var_node.options is not None and len(decision_constraint.nodes[j].options) == len(des_var_node.options), self._des_var_values[decision_constraint.nodes[j]] == value) and '
                              'implies(des_var_node.options is not None, self._des_var_values[decision_constraint.nodes[j]] == clampidx(value, len(decision_constraint.nodes[j].options)))))'),
            'linked-rel-so-far': ('forall(j, 0, k, implies(decision_constraint.nodes[j] != des_var_node and des_var_node.options is None, '
                                  '(self._des_var_values[decision_constraint.nodes[j]] - decision_constraint.nodes[j].bounds[0]) * (des_var_node.bounds[1] - des_var_node.bounds[0]) == '
                                  '(value - des_var_node.bounds[0]) * (decision_constraint.nodes[j].bounds[1] - decision_constraint.nodes[j].bounds[0])))'),
            'same-kind-so-far': 'forall(j, 0, k, implies(decision_constraint.nodes[j] != des_var_node, (decision_constraint.nodes[j].options is not None) == (des_var_node.options is not None)))',
        })},
        may_raise=['RuntimeError', 'ValueError'],
        post_locals=['value', 'decision_constraint'],
        locals={'decision_constraint': 'Optional[Ref[ChoiceConstraint]]', 'value': 'Real'},
        ensures={
            'stored-value-in-declared-domain': ('property', 'des_var_node in self._des_var_values and indomain(des_var_node, self._des_var_values[des_var_node])'),
            'stored-index-clamped-low': ('property', 'implies(des_var_node.options is not None and value < 0, self._des_var_values[des_var_node] == 0)'),
            'stored-index-clamped-high': ('property', 'implies(des_var_node.options is not None and value > len(des_var_node.options) - 1, self._des_var_values[des_var_node] == len(des_var_node.options) - 1)'),
            'stored-index-kept-in-range': ('property', 'implies(des_var_node.options is not None and is_int(value) and 0 <= value and value <= len(des_var_node.options) - 1, self._des_var_values[des_var_node] == value)'),
            'stored-value-is-the-clamped-input': ('property', 'implies(des_var_node.options is None, self._des_var_values[des_var_node] == ite(value < des_var_node.bounds[0], des_var_node.bounds[0], ite(value > des_var_node.bounds[1], des_var_node.bounds[1], value)))'),
            'linked-nodes-in-own-domain': ('property', 'implies(final_decision_constraint is not None, forall(j, 0, len(final_decision_constraint.nodes), implies(final_decision_constraint.nodes[j] != des_var_node, '
                                                       'final_decision_constraint.nodes[j] in self._des_var_values and indomain(final_decision_constraint.nodes[j], self._des_var_values[final_decision_constraint.nodes[j]]))))'),
            'linked-discrete-same-index': ('property', 'implies(final_decision_constraint is not None and des_var_node.options is not None, forall(j, 0, len(final_decision_constraint.nodes), implies(final_decision_constraint.nodes[j] != des_var_node and len(final_decision_constraint.nodes[j].options) == len(des_var_node.options), '
                                                       'self._des_var_values[final_decision_constraint.nodes[j]] == self._des_var_values[des_var_node])))'),
            # statement of C16 / C13: every linked discrete node carries the same option index, clamped to its own range
            'linked-discrete-index-clamped-to-own-range': ('property', 'implies(final_decision_constraint is not None and des_var_node.options is not None, forall(j, 0, len(final_decision_constraint.nodes), implies(final_decision_constraint.nodes[j] != des_var_node, '
                                                       'self._des_var_values[final_decision_constraint.nodes[j]] == clampidx(self._des_var_values[des_var_node], len(final_decision_constraint.nodes[j].options)))))'),
            'linked-continuous-same-relative-position': ('property', 'implies(final_decision_constraint is not None and des_var_node.options is None, forall(j, 0, len(final_decision_constraint.nodes), implies(final_decision_constraint.nodes[j] != des_var_node, '
                                                       '(self._des_var_values[final_decision_constraint.nodes[j]] - final_decision_constraint.nodes[j].bounds[0]) * (des_var_node.bounds[1] - des_var_node.bounds[0]) == '
                                                       '(self._des_var_values[des_var_node] - des_var_node.bounds[0]) * (final_decision_constraint.nodes[j].bounds[1] - final_decision_constraint.nodes[j].bounds[0]))))'),
        },
        modifies=['self._des_var_values'],
        unchanged_on_raise=False,
    ),
}


def _domain_set_value(n):
    import random, os
    from adsg_core.graph.adsg_basic import BasicDSG
    from adsg_core.graph.adsg_nodes import NamedNode, DesignVariableNode
    from adsg_core.graph.choice_constraints import ChoiceConstraintType
    rng = random.Random(8600 + int(os.environ.get('VERIF_SEED', '0') or 0))
    for _ in range(n):
        discrete = rng.random() < 0.6
        k = rng.randint(1, 3)
        root = NamedNode('root')
        dvs = []
        for i in range(k):
            if discrete:
                dvs.append(DesignVariableNode(f'd{i}', options=[f'o{j}' for j in range(rng.randint(1, 5))]))
            else:
                lo = rng.choice([-1.0, 0.0, 10.0])
                dvs.append(DesignVariableNode(f'd{i}', bounds=(lo, lo + rng.choice([1.0, 2.5, 20.0]))))
        dsg = BasicDSG()
        dsg.add_edges([(root, d) for d in dvs])
        dsg = dsg.set_start_nodes({root})
        if k >= 2 and rng.random() < 0.85:
            dsg = dsg.constrain_choices(ChoiceConstraintType.LINKED, dvs)
        node = rng.choice(dvs)
        if discrete:
            value = rng.choice([-1, 0, 1, 2, 3, 4, 6, 1.0, 2.0])
        else:
            value = rng.choice([node.bounds[0] - 1, node.bounds[0], (node.bounds[0] + node.bounds[1]) / 2, node.bounds[1], node.bounds[1] + 3])
        env = {'self': dsg, 'des_var_node': node, 'value': value, 'final_decision_constraint': dsg.is_constrained_choice(node)}
        yield (env, (lambda dsg=dsg, node=node, value=value: dsg.set_des_var_value(node, value)), {},
               f'DSG with linked={dsg.is_constrained_choice(node) is not None} nodes {[(d.name, d.options or d.bounds) for d in dvs]}: '
               f'set_des_var_value({node.name}, {value})')


DOMAIN = dict(globals().get('DOMAIN', {}))
DOMAIN[A + 'DSG.set_des_var_value'] = _domain_set_value


# ---------------------------------------------------------------- DSG.des_var_nodes (C16, C13)
# of the design-variable nodes tied together by a choice constraint only the first one (in the graph's node order)
# gets a design variable; every other design-variable node gets its own
CLASSES['DSG']['all_des_var_nodes'] = 'List[Ref[DesignVariableNode]]'     # property: ordered design-variable nodes
ALL = 'self.all_des_var_nodes'
# SET(x): the constraint set a node belongs to (the dict of the function: index of the last constraint listing it)
CONTRACTS[A + 'DSG.des_var_nodes'] = dict(
    properties=['C16', 'C13'],
    types={'self': 'Ref[DSG]'},
    returns='List[Ref[DesignVariableNode]]',
    locals={'seen_constraint_sets': 'Set[Int]', 'mirror_con_dvs': 'Dict[Ref[DesignVariableNode],Int]',
            'des_var_nodes': 'List[Ref[DesignVariableNode]]', 'i_set': 'Optional[Int]'},
    post_locals=['mirror_con_dvs'],
    requires={'nodes-listed-once': f'forall(a, 0, len({ALL}), forall(b, 0, len({ALL}), implies(a != b, {ALL}[a] != {ALL}[b])))'},
    defs={
        'constrained': (('x',), 'exists(c, 0, len(self._choice_constraints), x in self._choice_constraints[c].nodes)'),
        'first_of_its_set': (('k', 'M'), f'forall(j, 0, k, not ({ALL}[j] in M and M[{ALL}[j]] == M[{ALL}[k]]))'),
    },
    loops={'for node in self.all_des_var_nodes': dict(index='k', invariant={
        'dict-is-the-constraint-membership': "forall('x:Ref[DesignVariableNode]', (x in mirror_con_dvs) == constrained(x))",
        'dict-values-are-constraint-indices': "forall('x:Ref[DesignVariableNode]', implies(x in mirror_con_dvs, 0 <= mirror_con_dvs[x] and mirror_con_dvs[x] < len(self._choice_constraints) and x in self._choice_constraints[mirror_con_dvs[x]].nodes))",
        'seen-sets': f"forall('s:Int', (s in seen_constraint_sets) == exists(j, 0, k, {ALL}[j] in mirror_con_dvs and mirror_con_dvs[{ALL}[j]] == s))",
        'every-kept-node-qualifies': f"forall(q, 0, len(des_var_nodes), exists(j, 0, k, {ALL}[j] == des_var_nodes[q] and (not ({ALL}[j] in mirror_con_dvs) or first_of_its_set(j, mirror_con_dvs))))",
        'every-unconstrained-node-kept': f"forall(j, 0, k, implies(not ({ALL}[j] in mirror_con_dvs), {ALL}[j] in des_var_nodes))",
        'every-first-node-of-a-set-kept': f"forall(j, 0, k, implies({ALL}[j] in mirror_con_dvs and first_of_its_set(j, mirror_con_dvs), {ALL}[j] in des_var_nodes))",
    })},
    ensures={
        'unconstrained-nodes-all-kept': ('property', f'forall(j, 0, len({ALL}), implies(not constrained({ALL}[j]), {ALL}[j] in result))'),
        'first-node-of-a-constraint-set-kept-the-others-not': ('property',
            f'forall(j, 0, len({ALL}), implies(constrained({ALL}[j]), ({ALL}[j] in result) == first_of_its_set(j, final_mirror_con_dvs)))'),
        'set-of-a-node-is-a-constraint-listing-it': ('property',
            "forall('x:Ref[DesignVariableNode]', implies(constrained(x), x in final_mirror_con_dvs and x in self._choice_constraints[final_mirror_con_dvs[x]].nodes))"),
        'nothing-else': ('property', f'forall(q, 0, len(result), exists(j, 0, len({ALL}), {ALL}[j] == result[q]))'),
    },
    modifies=[],
)


def _domain_des_var_nodes(n):
    import os
    import random
    from pyvc.replay import segment_callable, SegmentResult
    from adsg_core.graph.adsg_basic import BasicDSG
    from adsg_core.graph.adsg_nodes import NamedNode, DesignVariableNode
    from adsg_core.graph.choice_constraints import ChoiceConstraintType
    key = A + 'DSG.des_var_nodes'
    seg = segment_callable(key, dict(CONTRACTS[key], stop_before='return des_var_nodes'), os.environ.get('VERIF_REPO', '/repo'))
    rng = random.Random(6161 + int(os.environ.get('VERIF_SEED', '0') or 0))
    for _ in range(n):
        root = NamedNode('R')
        k = rng.randint(1, 6)
        names = [f'd{i}' for i in range(k)]
        rng.shuffle(names)
        dvs = [DesignVariableNode(nm, options=['a', 'b', 'c'][:rng.randint(2, 3)]) for nm in names]
        dsg = BasicDSG()
        dsg.add_edges([(root, d) for d in dvs])
        dsg = dsg.set_start_nodes({root})
        free = list(dvs)
        rng.shuffle(free)
        try:
            while len(free) >= 2 and rng.random() < 0.7:
                m = rng.randint(2, min(3, len(free)))
                grp, free = free[:m], free[m:]
                dsg = dsg.constrain_choices(ChoiceConstraintType.LINKED, grp)
        except Exception:  # noqa
            continue
        env = {'self': dsg}

        def call(dsg=dsg):
            r = seg(self=dsg)
            return SegmentResult(list(dsg.des_var_nodes), r.locals, r.stopped)
        yield (env, call, {'Ref[DesignVariableNode]': list(dvs), 'Int': list(range(-1, 4))},
               f'DSG(design-variable nodes {[d.name for d in dsg.all_des_var_nodes]}, linked sets '
               f'{[[x.name for x in c.nodes] for c in dsg._choice_constraints]}).des_var_nodes')


DOMAIN = dict(globals().get('DOMAIN', {}))
DOMAIN[A + 'DSG.des_var_nodes'] = _domain_des_var_nodes


# ---------------------------------------------------------------- value accessors of a graph (C08, C16, C17)
# the stored design-variable / metric values are only reachable through these; the dicts handed out are fresh copies
# (C08: a caller that edits the returned dict never changes what the graph reports); setting a metric value touches
# that one key only.  These replace the formerly *assumed* inline specs of `graph_instance.des_var_value` and
# `dsg.set_metric_value` in the callers' contracts (c_processor, c_metrics).
SAME_DICT = ("forall('x:Ref', (x in {a}) == (x in {b}) and implies(x in {a}, {a}[x] == {b}[x]))")
CONTRACTS[A + 'DSG.des_var_value'] = dict(
    properties=['C16', 'C08'],
    types={'self': 'Ref[DSG]', 'des_var_node': 'Ref'},
    returns='Optional[Real]',
    ensures={
        'stored-value-or-none': ('property', 'result == ite(des_var_node in self._des_var_values, self._des_var_values[des_var_node], None)'),
    },
    modifies=[],
)
CONTRACTS[A + 'DSG.des_var_values'] = dict(
    properties=['C08', 'C16'],
    types={'self': 'Ref[DSG]'},
    returns='Dict[Ref,Real]',
    ensures={
        'same-content': ('property', SAME_DICT.format(a='result', b='self._des_var_values')),
        'independent-object': ('property', 'fresh(result)'),
    },
    modifies=[],
)
CONTRACTS[A + 'DSG.metric_value'] = dict(
    properties=['C17', 'C08'],
    types={'self': 'Ref[DSG]', 'metric_node': 'Ref'},
    returns='Optional[Real]',
    ensures={
        'stored-value-or-none': ('property', 'result == ite(metric_node in self._metric_values, self._metric_values[metric_node], None)'),
    },
    modifies=[],
)
CONTRACTS[A + 'DSG.metric_values'] = dict(
    properties=['C08', 'C17'],
    types={'self': 'Ref[DSG]'},
    returns='Dict[Ref,Real]',
    ensures={
        'same-content': ('property', SAME_DICT.format(a='result', b='self._metric_values')),
        'independent-object': ('property', 'fresh(result)'),
    },
    modifies=[],
)
CONTRACTS[A + 'DSG.set_metric_value'] = dict(
    properties=['C17', 'C08'],
    types={'self': 'Ref[DSG]', 'metric_node': 'Ref', 'value': 'Real'},
    ensures={
        'value-stored': ('property', 'metric_node in self._metric_values and self._metric_values[metric_node] == value'),
        'other-keys-untouched': ('property', "forall('x:Ref', implies(x != metric_node, (x in self._metric_values) == (x in old(self._metric_values)) and implies(x in self._metric_values, self._metric_values[x] == old(self._metric_values)[x])))"),
    },
    modifies=['self._metric_values'],
)


def _domain_value_accessors(which):
    def gen(n):
        import random, os
        from adsg_core.graph.adsg_basic import BasicDSG
        from adsg_core.graph.adsg_nodes import NamedNode, DesignVariableNode, MetricNode
        rng = random.Random(8700 + int(os.environ.get('VERIF_SEED', '0') or 0))
        for _ in range(n):
            root = NamedNode('root')
            dvs = [DesignVariableNode(f'd{i}', bounds=(0., 1. + i)) for i in range(rng.randint(1, 3))]
            mets = [MetricNode(f'm{i}', direction=-1) for i in range(rng.randint(1, 3))]
            dsg = BasicDSG()
            dsg.add_edges([(root, x) for x in dvs + mets])
            dsg = dsg.set_start_nodes({root})
            for d in dvs:
                if rng.random() < 0.6:
                    dsg.set_des_var_value(d, rng.random())
            for m in mets:
                if rng.random() < 0.6:
                    dsg.set_metric_value(m, rng.choice([-1.5, 0., 2., 7.25]))
            uni = {'Ref': dvs + mets + [root]}
            own = (dsg._des_var_values, dsg._metric_values)
            env = {'self': dsg, 'fresh': (lambda r, own=own: all(r is not o for o in own))}
            if which == 'des_var_value':
                node = rng.choice(dvs)
                env['des_var_node'] = node
                yield (env, (lambda dsg=dsg, node=node: dsg.des_var_value(node)), uni, f'des_var_value({node.name}) with {dsg._des_var_values}')
            elif which == 'metric_value':
                node = rng.choice(mets)
                env['metric_node'] = node
                yield (env, (lambda dsg=dsg, node=node: dsg.metric_value(node)), uni, f'metric_value({node.name}) with {dsg._metric_values}')
            elif which == 'des_var_values':
                yield (env, (lambda dsg=dsg: dsg.des_var_values), uni, f'des_var_values with {dsg._des_var_values}')
            elif which == 'metric_values':
                yield (env, (lambda dsg=dsg: dsg.metric_values), uni, f'metric_values with {dsg._metric_values}')
            else:
                node, value = rng.choice(mets), rng.choice([-3., 0., 1.5])
                env.update(metric_node=node, value=value)
                yield (env, (lambda dsg=dsg, node=node, value=value: dsg.set_metric_value(node, value)), uni,
                       f'set_metric_value({node.name}, {value}) with {dsg._metric_values}')
    return gen


for _w in ('des_var_value', 'des_var_values', 'metric_value', 'metric_values', 'set_metric_value'):
    DOMAIN[A + 'DSG.' + _w] = _domain_value_accessors(_w)
