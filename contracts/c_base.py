"""Sidecar contracts: adsg_core/optimization/hierarchy/base.py (C05, C15, C01)."""

F = 'adsg_core/optimization/hierarchy/base.py:'

CLASSES = {
    'HierarchyAnalyzerBase': {'_feasibility_mask': 'Optional[Np1[Bool]]', 'n_combinations': 'Int'},
}
GLOBALS = {'adsg_core/optimization/hierarchy/base.py': {'X_INACTIVE_VALUE': -1}}

CONTRACTS = {
    F + 'HierarchyAnalyzerBase.get_opt_idx': dict(
        properties=['C05', 'C15', 'C01'],
        types={'self': 'Ref[HierarchyAnalyzerBase]', 'opt_idx': 'List[Int]', 'mask': 'Optional[Np1[Bool]]',
               'is_fixed': 'Optional[List[Bool]]', 'exclude': 'Ref'},
        returns='Tuple[List[Int],List[Bool],Int]',
        requires={'masks-have-one-entry-per-combination':
                  'self.n_combinations >= 0 and implies(self._feasibility_mask is not None, len(self._feasibility_mask) == self.n_combinations) '
                  'and implies(mask is not None, len(mask) == self.n_combinations)'},
        calls={
            # assumed callee contract (abstract; implemented by vectorised numpy code in complete.py): read-only, and a
            # returned combination index lies inside the mask it was given
            'self._get_comb_idx': dict(params=['opt_idx', 'include_mask'], types={'include_mask': 'Np1[Bool]'},
                                       returns='Tuple[Optional[Int],Np1[Int]]', modifies=[], assumed=True, receiver='self',
                                       ensures=['implies(result[0] is not None, 0 <= result[0] and result[0] < len(include_mask) and include_mask[result[0]])']),
        },
        raises={},
        may_raise=['RuntimeError'],
        ensures={
            'combination-allowed-by-both-masks': ('property', 'implies(mask is not None, mask[result[2]]) and implies(self._feasibility_mask is not None, self._feasibility_mask[result[2]])'),
            'activeness-iff-not-inactive-marker': ('property', 'len(result[1]) == len(result[0]) and forall(k, 0, len(result[0]), result[1][k] == (result[0][k] != -1))'),
        },
        # frame: decoding without materialising the instance writes nothing -- in particular not the feasibility mask
        modifies=[],
    ),
}

CLASSES['DSGInst'] = {'feasible': 'Bool'}

CONTRACTS[F + 'HierarchyAnalyzerBase.get_graph'] = dict(
    properties=['C05', 'C15', 'C01'],
    types={'self': 'Ref[HierarchyAnalyzerBase]', 'opt_idx': 'List[Int]', 'mask': 'Optional[Np1[Bool]]',
           'is_fixed': 'Optional[List[Bool]]', 'exclude': 'Ref'},
    returns='Tuple[Ref[DSGInst],List[Int],List[Bool],Int]',
    requires={'masks-have-one-entry-per-combination':
              'self.n_combinations >= 0 and implies(self._feasibility_mask is not None, len(self._feasibility_mask) == self.n_combinations) '
              'and implies(mask is not None, len(mask) == self.n_combinations)'},
    locals={'choice_opt_idx': 'Np1[Int]', 'i_comb': 'Optional[Int]', 'graph_instance': 'Ref[DSGInst]', 'include_mask': 'Np1[Bool]'},
    calls={
        'self._get_comb_idx': dict(params=['opt_idx', 'include_mask'], types={'include_mask': 'Np1[Bool]'},
                                   returns='Tuple[Optional[Int],Np1[Int]]', modifies=[], assumed=True, receiver='self',
                                   ensures=['implies(result[0] is not None, 0 <= result[0] and result[0] < len(include_mask) and include_mask[result[0]])']),
        # nested helper building (or fetching from the graph cache) the instance of the chosen combination: it does not
        # touch the masks (the graph cache itself is not modelled here)
        '_get_graph': dict(params=[], types={}, returns='Ref[DSGInst]', modifies=[], assumed=True),
    },
    dead_locals=['sel_choice_nodes', 'i_sel_choice_nodes', 'sel_choice_opt_nodes'],
    loops={'while True': dict(invariant={
        'mask-allocated': 'self._feasibility_mask is not None and len(self._feasibility_mask) == self.n_combinations',
        'only-shrinks': 'forall(i, 0, self.n_combinations, implies(self._feasibility_mask[i], old(self._feasibility_mask) is None or old(self._feasibility_mask)[i]))',
        'cleared-only-inside-callers-mask': 'forall(i, 0, self.n_combinations, implies((old(self._feasibility_mask) is None or old(self._feasibility_mask)[i]) and not self._feasibility_mask[i], mask is None or mask[i]))',
    })},
    may_raise=['RuntimeError'],
    ensures={
        'feasibility-mask-only-shrinks': ('property', 'self._feasibility_mask is not None and forall(i, 0, self.n_combinations, implies(self._feasibility_mask[i], old(self._feasibility_mask) is None or old(self._feasibility_mask)[i]))'),
        # the caller's mask (fixed variables, infeasible existence patterns) is never folded into the feasibility mask:
        # only combinations that the caller allowed and that turned out infeasible may be cleared
        'cleared-only-inside-callers-mask': ('property', 'forall(i, 0, self.n_combinations, implies((old(self._feasibility_mask) is None or old(self._feasibility_mask)[i]) and not self._feasibility_mask[i], mask is None or mask[i]))'),
        'returned-combination-allowed-by-both-masks': ('property', 'implies(mask is not None, mask[result[3]]) and self._feasibility_mask[result[3]]'),
        'returned-instance-feasible': ('property', 'result[0].feasible'),
        'activeness-iff-not-inactive-marker': ('property', 'len(result[2]) == len(result[1]) and forall(k, 0, len(result[1]), result[2][k] == (result[1][k] != -1))'),
    },
    modifies=['self._feasibility_mask'],
    unchanged_on_raise=False,
)


# ---- HierarchyAnalyzerBase.imputation_ratio: declared size / number of valid combinations (C04) -----------------------
CLASSES['HierarchyAnalyzerBase']['n_design_space'] = 'Int'
CONTRACTS[F + 'HierarchyAnalyzerBase.imputation_ratio'] = dict(
    properties=['C04'],
    types={'self': 'Ref[HierarchyAnalyzerBase]'},
    returns='Real',
    ensures={
        'empty-design-space-gives-one': ('property', 'implies(self.n_combinations == 0, result == 1)'),
        'quotient-of-declared-size-and-valid-combinations': ('property', 'implies(self.n_combinations != 0, result == self.n_design_space / self.n_combinations)'),
    },
    modifies=[],
)


def _domain_base_imputation_ratio(n):
    import random, os
    from adsg_core.optimization.hierarchy.base import HierarchyAnalyzerBase
    rng = random.Random(7800 + int(os.environ.get('VERIF_SEED', '0') or 0))
    fn = HierarchyAnalyzerBase.__dict__['imputation_ratio']
    fn = getattr(fn, 'func', None) or getattr(fn, 'fget', None) or fn

    class A:
        pass
    for _ in range(n):
        a = A()
        a.n_combinations = rng.choice([0, 1, 2, 3, 6, 10])
        a.n_design_space = rng.choice([0, 1, 2, 4, 9, 36])
        yield ({'self': a}, (lambda a=a: fn(a)), {}, f'imputation_ratio(n_combinations={a.n_combinations}, n_design_space={a.n_design_space})')


DOMAIN = dict(globals().get('DOMAIN', {}))
DOMAIN[F + 'HierarchyAnalyzerBase.imputation_ratio'] = _domain_base_imputation_ratio
