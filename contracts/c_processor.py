"""Sidecar contracts: adsg_core/optimization/graph_processor.py bookkeeping (C01, C15, C07, C04)."""

GP = 'adsg_core/optimization/graph_processor.py:'

CLASSES = {
    'DesVar': {'_opts': 'Optional[List[Ref]]', '_bounds': 'Optional[Tuple[Real,Real]]', 'conditionally_active': 'Bool',
               'is_discrete': ('expr', 'self._opts is not None'),
               'n_opts': ('expr', 'len(self._opts)'),
               'bounds': ('expr', 'self._bounds'),
               'options': ('expr', 'self._opts')},
    'GraphProcessor': {
        '_fixed_values': 'Dict[Int,Real]',
        'all_des_vars': 'List[Ref[DesVar]]',          # cached property
    },
}
GLOBALS = {'adsg_core/optimization/graph_processor.py': {'X_INACTIVE_IMPUTE': 0}}

CONTRACTS = {
    GP + 'GraphProcessor._get_all_des_var_values': dict(
        properties=['C01', 'C15'],
        types={'self': 'Ref[GraphProcessor]', 'des_var_values': 'List[Real]'},
        returns='List[Real]',
        locals={'values': 'List[Real]'},
        # rank(i) = number of non-fixed variables before position i (ghost function, defined by its recursion)
        funcs={'rank': (['Int'], 'Int')},
        axioms={'rank-0': 'rank(0) == 0',
                'rank-step': 'forall(i, 0, len(self.all_des_vars), rank(i + 1) == rank(i) + ite(i in self._fixed_values, 0, 1))'},
        requires={'one-value-per-free-variable': 'len(des_var_values) == rank(len(self.all_des_vars))'},
        loops={'for i, des_var in enumerate(self.all_des_vars)': dict(index='k', invariant={
            'len': 'len(values) == k',
            'cursor': 'i_value == rank(k)',
            'cursor-bound': 'rank(k) <= rank(len(self.all_des_vars))',
            # instance of the rank recursion / bound at the current position (gives the solver the ground terms)
            'next-rank': 'implies(k < len(self.all_des_vars), rank(k + 1) == rank(k) + ite(k in self._fixed_values, 0, 1) and rank(k + 1) <= rank(len(self.all_des_vars)))',
            'done': 'forall(j, 0, k, values[j] == ite(j in self._fixed_values, self._fixed_values[j], des_var_values[rank(j)]))',
        })},
        lemmas={'rank-nonneg': dict(var='j', lo='0', hi='len(self.all_des_vars)', direction='up', stmt='rank(j) >= 0'),
                'rank-bounded': dict(var='j', lo='0', hi='len(self.all_des_vars)', direction='down',
                                     stmt='rank(j) <= rank(len(self.all_des_vars))')},
        ensures={
            'len': ('property', 'len(result) == len(self.all_des_vars)'),
            'fixed-positions-take-fixed-value': ('property', 'forall(j, 0, len(result), implies(j in self._fixed_values, result[j] == self._fixed_values[j]))'),
            'free-positions-take-vector-in-order': ('property', 'forall(j, 0, len(result), implies(not (j in self._fixed_values), result[j] == des_var_values[rank(j)]))'),
        },
        modifies=[],
    ),
    GP + 'GraphProcessor._get_inactive_value': dict(
        properties=['C07', 'C16'],
        types={'des_var': 'Ref[DesVar]'},
        returns='Real',
        requires={'domain-set': 'des_var._opts is not None or des_var._bounds is not None'},
        ensures={'discrete-zero': ('property', 'implies(des_var.is_discrete, result == 0)'),
                 'continuous-mid-bounds': ('property', 'implies(not des_var.is_discrete, result == (des_var.bounds[0] + des_var.bounds[1]) / 2)')},
        modifies=[],
    ),
}


class _GP:
    pass


def _domain_all_values(n):
    import random, os
    from adsg_core.optimization.graph_processor import GraphProcessor
    rng = random.Random(7000 + int(os.environ.get('VERIF_SEED', '0') or 0))
    for _ in range(n):
        nv = rng.randint(0, 5)
        gp = _GP()
        gp.all_des_vars = [object() for _ in range(nv)]
        gp._fixed_values = {i: float(rng.randint(0, 3)) for i in range(nv) if rng.random() < 0.4}
        nfree = nv - len(gp._fixed_values)
        x = [float(rng.randint(10, 20)) for _ in range(nfree)]

        def rank(i, gp=gp):
            return sum(1 for j in range(i) if j not in gp._fixed_values)
        yield ({'self': gp, 'des_var_values': x, 'rank': rank},
               (lambda gp=gp, x=x: GraphProcessor._get_all_des_var_values(gp, x)), {},
               f'_get_all_des_var_values(fixed={gp._fixed_values}, n={nv}, x={x})')


DOMAIN = {GP + 'GraphProcessor._get_all_des_var_values': _domain_all_values}

CLASSES['GraphProcessor'].update({
    '_conn_choice_data_map': 'Dict[Ref,Tuple[Ref,Ref,Ref,Int,Int,Ref]]',
    '_comb_fixed_mask': 'Ref',
})

IN_RANGE = ('ite(des_var.is_discrete, 0 <= value and value < des_var.n_opts, '
            'des_var.bounds[0] <= value and value <= des_var.bounds[1])')
IS_CONN = ("exists('c:Ref', c in self._conn_choice_data_map and self._conn_choice_data_map[c][3] <= self.all_des_vars.index(des_var) "
           "and self.all_des_vars.index(des_var) < self._conn_choice_data_map[c][4])")

CONTRACTS.update({
    GP + 'GraphProcessor.fix_des_var': dict(
        properties=['C15', 'C05'],      # C05: no fix/free history leaves a stale mask behind (mask-refreshed-...)
        types={'self': 'Ref[GraphProcessor]', 'des_var': 'Ref[DesVar]', 'value': 'Optional[Real]'},
        requires={'is-a-variable-of-this-problem': 'des_var in self.all_des_vars',
                  'domain-set': 'implies(des_var._opts is None, des_var._bounds is not None)',
                  'each-choice-has-at-most-one-variable': 'forall(a, 0, len(self._sel_choice_idx_map), forall(b, 0, len(self._sel_choice_idx_map), implies(a != b, self._sel_choice_idx_map[a] != self._sel_choice_idx_map[b])))'},
        funcs={'MASK': (['Dict[Int,Int]'], 'Ref'), 'MASKOF': (['Dict[Int,Real]', 'List[Int]'], 'Ref')},     # the analyzer's answer (uninterpreted; same symbols as in the callee's contract)
        # the mask refresh is checked against the contract of the real `_update_comb_fixed_mask` (below): its
        # precondition (one variable per selection choice, set up by `_get_des_vars`) is a representation invariant
        calls={'self._update_comb_fixed_mask': 'adsg_core/optimization/graph_processor.py:GraphProcessor._update_comb_fixed_mask',
               'clear_func_cache': dict(params=['obj'], returns=None, modifies=[])},
        loops={'for _, _, _, i_dv_start, i_dv_end, _ in self._conn_choice_data_map.values()': dict(processed='P', invariant={
            'no-connection-range-hit-so-far': 'forall(c, P, not (self._conn_choice_data_map[c][3] <= idx and idx < self._conn_choice_data_map[c][4]))',
        })},
        raises={
            'out-of-range-rejected': ('ValueError', f'value is not None and not ({IN_RANGE})'),
            'connection-variable-rejected': ('RuntimeError', f'value is not None and ({IN_RANGE}) and {IS_CONN}'),
        },
        ensures={
            'fixed-value-recorded': ('property', 'implies(value is not None, self.all_des_vars.index(des_var) in self._fixed_values and self._fixed_values[self.all_des_vars.index(des_var)] == value)'),
            'unfix-removes-entry': ('property', 'implies(value is None, not (self.all_des_vars.index(des_var) in self._fixed_values))'),
            'mask-refreshed-for-the-new-fixed-values': ('property', 'self._comb_fixed_mask == MASKOF(self._fixed_values, self._sel_choice_idx_map)'),
            'other-entries-unchanged': ('property', "forall('j:Int', implies(j != self.all_des_vars.index(des_var), (j in self._fixed_values) == (j in old(self._fixed_values)) and implies(j in self._fixed_values, self._fixed_values[j] == old(self._fixed_values)[j])))"),
        },
        modifies=['self._fixed_values', 'self._comb_fixed_mask'],
        modifies_on_raise=[],     # a rejected fix leaves the processor unchanged
    ),
    GP + 'GraphProcessor.is_fixed': dict(
        properties=['C15'],
        types={'self': 'Ref[GraphProcessor]', 'des_var': 'Ref[DesVar]'},
        returns='Bool',
        requires={'is-a-variable-of-this-problem': 'des_var in self.all_des_vars'},
        ensures={'iff-recorded': ('property', 'result == (self.all_des_vars.index(des_var) in self._fixed_values)')},
        modifies=[],
    ),
    GP + 'GraphProcessor.fixed_value': dict(
        properties=['C15'],
        types={'self': 'Ref[GraphProcessor]', 'des_var': 'Ref[DesVar]'},
        returns='Real',
        requires={'is-a-variable-of-this-problem': 'des_var in self.all_des_vars'},
        raises={'not-fixed': ('RuntimeError', 'not (self.all_des_vars.index(des_var) in self._fixed_values)')},
        ensures={'recorded-value': ('property', 'result == self._fixed_values[self.all_des_vars.index(des_var)]')},
        modifies=[],
    ),
})


def _domain_fix(n):
    import random, os
    from adsg_core.optimization.graph_processor import GraphProcessor
    from adsg_core.optimization.dv_output_defs import DesVar
    rng = random.Random(7100 + int(os.environ.get('VERIF_SEED', '0') or 0))
    for _ in range(n):
        dvs = []
        for i in range(rng.randint(1, 4)):
            if rng.random() < 0.6:
                dvs.append(DesVar(f'd{i}', options=list(range(rng.randint(1, 3)))))
            else:
                dvs.append(DesVar(f'c{i}', bounds=(0.0, float(rng.randint(1, 3)))))
        gp = _GP()
        gp.all_des_vars = dvs
        gp._fixed_values = {i: 0 for i in range(len(dvs)) if rng.random() < 0.3}
        gp._conn_choice_data_map = {}
        if rng.random() < 0.5:
            a = rng.randint(0, len(dvs))
            gp._conn_choice_data_map[object()] = (None, None, None, a, rng.randint(a, len(dvs)), None)
        gp._comb_fixed_mask = ('mask', 'left over from an earlier fix')
        gp._sel_choice_idx_map = list(range(rng.randint(0, len(dvs))))

        class An:
            def get_available_combinations_mask(self, fixed):
                return ('mask', frozenset(fixed.items()))
        gp._hierarchy_analyzer = An()
        gp._update_comb_fixed_mask = (lambda gp=gp: GraphProcessor._update_comb_fixed_mask(gp))
        k = rng.randrange(len(dvs))
        value = rng.choice([None, -1, 0, 1, 2, 3, 0.5, 5.0])
        yield ({'self': gp, 'des_var': dvs[k], 'value': value, 'MASKOF': (lambda fv, m: ('mask', frozenset((m[v], int(x)) for v, x in fv.items() if 0 <= v < len(m))))},
               (lambda gp=gp, dv=dvs[k], value=value: GraphProcessor.fix_des_var(gp, dv, value)), {'Ref': list(gp._conn_choice_data_map), 'Int': list(range(-1, 6))},
               f'fix_des_var(var {k} of {[str(d) for d in dvs]}, {value}) fixed={gp._fixed_values} conn={[(v[3], v[4]) for v in gp._conn_choice_data_map.values()]}')


DOMAIN[GP + 'GraphProcessor.fix_des_var'] = _domain_fix

# freeing = fixing to None (checked against the contract of the real fix_des_var, not against its body)
CONTRACTS[GP + 'GraphProcessor.free_des_var'] = dict(
    properties=['C15', 'C05'],
    types={'self': 'Ref[GraphProcessor]', 'des_var': 'Ref[DesVar]'},
    requires=dict(CONTRACTS[GP + 'GraphProcessor.fix_des_var']['requires']),
    funcs={'MASK': (['Dict[Int,Int]'], 'Ref'), 'MASKOF': (['Dict[Int,Real]', 'List[Int]'], 'Ref')},
    calls={'self.fix_des_var': GP + 'GraphProcessor.fix_des_var'},
    ensures={
        'mask-refreshed-for-the-remaining-fixed-values': ('property', 'self._comb_fixed_mask == MASKOF(self._fixed_values, self._sel_choice_idx_map)'),
        'entry-removed': ('property', 'not (self.all_des_vars.index(des_var) in self._fixed_values)'),
        'other-entries-unchanged': ('property', "forall('j:Int', implies(j != self.all_des_vars.index(des_var), (j in self._fixed_values) == (j in old(self._fixed_values)) and implies(j in self._fixed_values, self._fixed_values[j] == old(self._fixed_values)[j])))"),
        'free-of-a-free-variable-changes-nothing': ('property', "implies(not (self.all_des_vars.index(des_var) in old(self._fixed_values)), forall('j:Int', (j in self._fixed_values) == (j in old(self._fixed_values))))"),
    },
    modifies=['self._fixed_values', 'self._comb_fixed_mask'],
)


def _domain_free(n):
    from adsg_core.optimization.graph_processor import GraphProcessor
    for env, _call, uni, desc in _domain_fix(n):
        gp, dv = env['self'], env['des_var']
        gp.fix_des_var = __import__('functools').partial(GraphProcessor.fix_des_var, gp)     # the real method, any call shape
        yield ({'self': gp, 'des_var': dv, 'MASKOF': env['MASKOF']}, (lambda gp=gp, dv=dv: GraphProcessor.free_des_var(gp, dv)), uni, 'free_des_var: ' + desc)


DOMAIN[GP + 'GraphProcessor.free_des_var'] = _domain_free

CLASSES['GraphProcessor'].update({'_sel_choice_idx_map': 'List[Int]', '_hierarchy_analyzer': 'Ref[HierarchyAnalyzerBase]'})

CONTRACTS[GP + 'GraphProcessor._update_comb_fixed_mask'] = dict(
    properties=['C15', 'C04', 'C05'],
    types={'self': 'Ref[GraphProcessor]'},
    locals={'fixed_choices': 'Dict[Int,Int]'},
    requires={'each-choice-has-at-most-one-variable': 'forall(a, 0, len(self._sel_choice_idx_map), forall(b, 0, len(self._sel_choice_idx_map), implies(a != b, self._sel_choice_idx_map[a] != self._sel_choice_idx_map[b])))'},
    calls={
        # the statement of C15 for this function is the *precondition* under which the analyzer is asked for the mask:
        # the fixed choices are keyed by selection-choice index and carry the fixed option index
        'self._hierarchy_analyzer.get_available_combinations_mask': dict(
            params=['fixed_comb_idx'], types={'fixed_comb_idx': 'Dict[Int,Int]'}, returns='Ref', modifies=[],
            # MASKOF(fixed values, variable->choice map): the analyzer's answer is a function of the *content* of the
            # dict it is given, and the two preconditions below determine that content from the fixed values
            ensures=['result == MASK(fixed_comb_idx)', 'result == MASKOF(self._fixed_values, self._sel_choice_idx_map)'],
            requires={
                'every-fixed-selection-variable-passed-by-choice-index':
                    'forall(v, 0, len(self._sel_choice_idx_map), implies(v in self._fixed_values, self._sel_choice_idx_map[v] in fixed_comb_idx and fixed_comb_idx[self._sel_choice_idx_map[v]] == int(self._fixed_values[v])))',
                'only-fixed-selection-variables-passed':
                    "forall('c:Int', implies(c in fixed_comb_idx, exists(v, 0, len(self._sel_choice_idx_map), self._sel_choice_idx_map[v] == c and v in self._fixed_values)))",
            }),
    },
    loops={'for i_dv, i_dec in enumerate(self._sel_choice_idx_map)': dict(index='k', invariant={
        'passed-so-far': 'forall(v, 0, k, implies(v in self._fixed_values, self._sel_choice_idx_map[v] in fixed_choices and fixed_choices[self._sel_choice_idx_map[v]] == int(self._fixed_values[v])))',
        'only-fixed-so-far': "forall('c:Int', implies(c in fixed_choices, exists(v, 0, k, self._sel_choice_idx_map[v] == c and v in self._fixed_values)))",
    })},
    post_locals=['fixed_choices'],
    # MASK(fixed choices): what the analyzer answers for these fixed choices (uninterpreted)
    funcs={'MASK': (['Dict[Int,Int]'], 'Ref'), 'MASKOF': (['Dict[Int,Real]', 'List[Int]'], 'Ref')},
    ensures={
        # the stored mask is the one for the fixed values of *now* (C15: what fix and free leave behind describes
        # exactly the current restriction, whatever was fixed or freed before)
        'stored-mask-is-the-mask-of-the-current-fixed-values': ('property', 'self._comb_fixed_mask == MASKOF(self._fixed_values, self._sel_choice_idx_map)'),
        # on every path (also when nothing is fixed any more) the stored mask is the analyzer's answer for the current
        # fixed choices: freeing the last fixed variable resets it
        'stored-mask-is-the-answer-for-the-current-fixed-choices': ('property', 'self._comb_fixed_mask == MASK(final_fixed_choices)'),
        'fixed-selection-variables-keyed-by-choice-index': ('property', 'forall(v, 0, len(self._sel_choice_idx_map), implies(v in self._fixed_values, self._sel_choice_idx_map[v] in final_fixed_choices and final_fixed_choices[self._sel_choice_idx_map[v]] == int(self._fixed_values[v])))'),
        'nothing-else-restricted': ('property', "forall('c:Int', implies(c in final_fixed_choices, exists(v, 0, len(self._sel_choice_idx_map), self._sel_choice_idx_map[v] == c and v in self._fixed_values)))"),
    },
    modifies=['self._comb_fixed_mask'],
)


def _domain_update_mask(n):
    import random, os
    from adsg_core.optimization.graph_processor import GraphProcessor
    rng = random.Random(7200 + int(os.environ.get('VERIF_SEED', '0') or 0))
    for _ in range(n):
        n_choices = rng.randint(1, 5)
        # some choices are forced (no variable): the map from variable position to choice index skips them
        idx_map = sorted(rng.sample(range(n_choices), rng.randint(1, n_choices)))
        n_extra = rng.randint(0, 2)
        gp = _GP()
        gp._sel_choice_idx_map = idx_map
        gp._fixed_values = {i: rng.randint(0, 3) for i in range(len(idx_map) + n_extra) if rng.random() < 0.5}
        captured = {}

        class An:
            def get_available_combinations_mask(self, fixed):
                captured.clear()
                captured.update(fixed)
                return ('mask', frozenset(fixed.items()))
        gp._hierarchy_analyzer = An()
        gp._comb_fixed_mask = ('mask', 'left over from an earlier fix')
        # the local `fixed_choices` is what a correct run passes to the analyzer: recomputed here from its definition
        expect = {i_dec: int(gp._fixed_values[i_dv]) for i_dv, i_dec in enumerate(idx_map) if i_dv in gp._fixed_values}
        yield ({'self': gp, 'final_fixed_choices': expect, 'MASK': (lambda d: ('mask', frozenset(d.items()))),
                'MASKOF': (lambda fv, m: ('mask', frozenset((m[v], int(x)) for v, x in fv.items() if 0 <= v < len(m))))},
               (lambda gp=gp: GraphProcessor._update_comb_fixed_mask(gp)), {'Int': list(range(-1, 7))},
               f'_update_comb_fixed_mask(idx_map={idx_map}, fixed={gp._fixed_values})')


DOMAIN[GP + 'GraphProcessor._update_comb_fixed_mask'] = _domain_update_mask

# ---- segment of GraphProcessor.get_graph: used values of the selection-choice variables (C07, C03) -----------------
# Mechanical extraction: statements from `opt_dec_used_values: ... =` up to (not including) `opt_dec_existence_key = ...`;
# everything before is abstracted by the declared live variables (arbitrary values of the stated types).
CONTRACTS[GP + 'GraphProcessor.get_graph@selection-used-values'] = dict(
    properties=['C07', 'C03', 'C01'],
    types={'self': 'Ref[GraphProcessor]', 'des_var_values': 'List[Real]', 'create': 'Bool'},
    start_at='opt_dec_used_values:',
    stop_before='opt_dec_existence_key',
    live={'sel_choice_opt_idx': 'List[Int]', 'sel_choice_is_active': 'List[Bool]'},
    locals={'opt_dec_used_values': 'List[Optional[Int]]'},
    post_locals=['opt_dec_used_values'],
    requires={'map-into-choices': 'forall(v, 0, len(self._sel_choice_idx_map), 0 <= self._sel_choice_idx_map[v] and self._sel_choice_idx_map[v] < len(sel_choice_opt_idx))',
              'one-flag-per-choice': 'len(sel_choice_is_active) == len(sel_choice_opt_idx)'},
    loops={'for i_dv, i_dec in enumerate(self._sel_choice_idx_map)': dict(index='k', invariant={
        'len': 'len(opt_dec_used_values) == len(self._sel_choice_idx_map)',
        'done': 'forall(v, 0, k, opt_dec_used_values[v] == ite(sel_choice_is_active[self._sel_choice_idx_map[v]], sel_choice_opt_idx[self._sel_choice_idx_map[v]], None))',
        'todo': 'forall(v, k, len(self._sel_choice_idx_map), opt_dec_used_values[v] == sel_choice_opt_idx[self._sel_choice_idx_map[v]])',
    })},
    ensures={
        'one-used-value-per-selection-variable': ('property', 'len(final_opt_dec_used_values) == len(self._sel_choice_idx_map)'),
        'inactive-choice-variable-unused': ('property', 'forall(v, 0, len(self._sel_choice_idx_map), implies(not sel_choice_is_active[self._sel_choice_idx_map[v]], final_opt_dec_used_values[v] is None))'),
        'active-choice-variable-reports-taken-option': ('property', 'forall(v, 0, len(self._sel_choice_idx_map), implies(sel_choice_is_active[self._sel_choice_idx_map[v]], final_opt_dec_used_values[v] == sel_choice_opt_idx[self._sel_choice_idx_map[v]]))'),
    },
    modifies=[],
    no_frame=True,
)

# ---- tail of GraphProcessor.get_graph: imputation of unused variables and removal of fixed positions (C07, C16, C01) ----
INACT = 'ite(des_vars[i].is_discrete, 0, (des_vars[i].bounds[0] + des_vars[i].bounds[1]) / 2)'
CONTRACTS[GP + 'GraphProcessor.get_graph@imputation-tail'] = dict(
    properties=['C07', 'C16', 'C01'],
    types={'self': 'Ref[GraphProcessor]', 'des_var_values': 'List[Real]', 'create': 'Bool'},
    start_at='is_active = [used_value is not None for used_value in used_values]',
    live={'used_values': 'List[Optional[Real]]', 'des_vars': 'List[Ref[DesVar]]', 'graph_instance': 'Optional[Ref[DSGInst]]'},
    returns='Tuple[Optional[Ref[DSGInst]],List[Optional[Real]],List[Bool]]',
    locals={'is_active': 'List[Bool]'},
    requires={'one-definition-per-value': 'len(des_vars) == len(used_values)',
              'domains-set': 'forall(i, 0, len(des_vars), des_vars[i]._opts is not None or des_vars[i]._bounds is not None)'},
    defs={'inact': (('i',), INACT)},
    calls={'self._get_inactive_value': GP + 'GraphProcessor._get_inactive_value',
           'graph_instance.copy': dict(params=[], returns='Ref[DSGInst]', modifies=[], assumed=True)},
    loops={'for i, used_value in enumerate(used_values)': dict(index='k', invariant={
        'len': 'len(used_values) == len(old(used_values)) and len(is_active) == len(used_values)',
        'activeness': 'forall(j, 0, len(is_active), is_active[j] == (old(used_values)[j] is not None))',
        'imputed-so-far': 'forall(j, 0, k, used_values[j] is not None and used_values[j] == ite(old(used_values)[j] is None, inact(j), old(used_values)[j]))',
        'rest-untouched': 'forall(j, k, len(used_values), used_values[j] == old(used_values)[j])',
    })},
    ensures={
        'one-activeness-flag-per-reported-value': ('property', 'len(result[1]) == len(result[2])'),
        'every-reported-value-set': ('property', 'forall(p, 0, len(result[1]), result[1][p] is not None)'),
        'inactive-variables-report-canonical-value': ('property',
            'forall(p, 0, len(result[1]), exists(i, 0, len(des_vars), not (i in self._fixed_values) and result[2][p] == (old(used_values)[i] is not None) and '
            'result[1][p] == ite(old(used_values)[i] is None, inact(i), old(used_values)[i])))'),
        'every-free-variable-reported': ('property',
            'forall(i, 0, len(des_vars), implies(not (i in self._fixed_values), exists(p, 0, len(result[1]), result[2][p] == (old(used_values)[i] is not None) and '
            'result[1][p] == ite(old(used_values)[i] is None, inact(i), old(used_values)[i]))))'),
    },
    modifies=[],
    no_frame=True,
)

# ---- segment of GraphProcessor.get_graph: values of the design-variable nodes that exist (C16) ----------------------
CLASSES['GraphProcessor'].update({'design_variable_nodes': 'List[Ref[DesignVariableNode]]'})
CLASSES.setdefault('DSG', {}).update({'des_var_nodes': 'List[Ref[DesignVariableNode]]'})
DVN = 'self.design_variable_nodes'
IDX = 'idx_map[node_map[self.design_variable_nodes[j]][0]]'
DV_OK2 = ('(n.bounds is None or n.options is None) and implies(n.bounds is not None, n.bounds[0] < n.bounds[1]) and '
          'implies(n.options is not None, len(n.options) >= 1) and (n.bounds is not None or n.options is not None)')
IN_DOM = ('ite(n.options is not None, is_int(v) and 0 <= v and v <= len(n.options) - 1, n.bounds[0] <= v and v <= n.bounds[1])')
CONTRACTS[GP + 'GraphProcessor.get_graph@design-variable-values'] = dict(
    properties=['C16', 'C01'],
    types={'self': 'Ref[GraphProcessor]', 'des_var_values': 'List[Real]', 'create': 'Bool'},
    start_at='if np.any(dv_node_existence):',
    stop_before='is_active = [used_value is not None',
    live={'dv_node_existence': 'List[Bool]', 'graph_instance': 'Optional[Ref[DSG]]', 'node_map': 'Dict[Ref,Tuple[Ref[DesVar],Int]]',
          'idx_map': 'Dict[Ref,Int]', 'used_values': 'List[Optional[Real]]'},
    post_locals=['used_values'],
    defs={'dvok': (('n',), DV_OK2), 'indomain': (('n', 'v'), IN_DOM)},
    requires={
        'one-flag-per-node': f'len(dv_node_existence) == len({DVN})',
        'nodes-well-formed': f'forall(j, 0, len({DVN}), dvok({DVN}[j]))',
        'every-node-has-a-variable': f'forall(j, 0, len({DVN}), {DVN}[j] in node_map and node_map[{DVN}[j]][0] in idx_map and 0 <= {IDX} and {IDX} < len(des_var_values) and {IDX} < len(used_values))',
        'variable-kind-matches-node': f'forall(j, 0, len({DVN}), node_map[{DVN}[j]][0].is_discrete == ({DVN}[j].options is not None))',
        'distinct-nodes-distinct-variables': f'forall(a, 0, len({DVN}), forall(b, 0, len({DVN}), implies(a != b, idx_map[node_map[{DVN}[a]][0]] != idx_map[node_map[{DVN}[b]][0]])))',
        'instance-constraints-well-formed': 'implies(graph_instance is not None, forall(c, 0, len(graph_instance._choice_constraints), forall(q, 0, len(graph_instance._choice_constraints[c].nodes), dvok(graph_instance._choice_constraints[c].nodes[q]))))',
    },
    calls={
        'graph_instance.copy': dict(params=[], returns='Ref[DSG]', modifies=[], assumed=True,
                                    ensures=['result._choice_constraints == old(graph_instance)._choice_constraints']),
        'graph_instance.set_des_var_value': 'adsg_core/graph/adsg.py:DSG.set_des_var_value',
        'graph_instance.des_var_value': 'adsg_core/graph/adsg.py:DSG.des_var_value',
    },
    loops={'for i_dv, des_var_node in enumerate(self.design_variable_nodes)': dict(index='k', invariant={
        'len': 'len(used_values) == len(old(used_values))',
        'existing-so-far-have-in-domain-values': f'forall(j, 0, k, implies(dv_node_existence[j], used_values[{IDX}] is not None and indomain({DVN}[j], used_values[{IDX}])))',
        'instance-constraints-still-well-formed': 'implies(graph_instance is not None, forall(c, 0, len(graph_instance._choice_constraints), forall(q, 0, len(graph_instance._choice_constraints[c].nodes), dvok(graph_instance._choice_constraints[c].nodes[q]))))',
    })},
    may_raise=['RuntimeError', 'ValueError'],
    ensures={
        'every-existing-node-reports-an-in-domain-value': ('property',
            f'forall(j, 0, len({DVN}), implies(dv_node_existence[j], final_used_values[{IDX}] is not None and indomain({DVN}[j], final_used_values[{IDX}])))'),
    },
    modifies=[],
    no_frame=True,
)


# ---- _get_des_vars, connection-choice part: design-variable index ranges and the existence-infeasibility mask (C01, C03)
# Variant: existence maps are arrays indexed by the selection-choice combination (the complete encoder, no cut-off);
# the dict-shaped maps of the fast encoder take the other branch of `isinstance(exist_map, dict)` and leave the mask alone.
CLASSES['DesVar']['node'] = 'Ref'
CONTRACTS[GP + 'GraphProcessor._get_des_vars@connection-choices'] = dict(
    properties=['C01', 'C03', 'C04', 'C11'],
    start_at='existence_infeasibility_mask = np.ones((n_combs,), dtype=bool)',
    stop_before='des_vars += [DesVar.from_des_var_node',
    types={'self': 'Ref[GraphProcessor]'},
    live={'des_vars': 'List[Ref[DesVar]]', 'n_combs': 'Int', 'cutoff_mode': 'Bool', 'permanent_nodes': 'Set[Ref]'},
    locals={'conn_choice_data_map': 'Dict[Ref,Tuple[Ref,Ref,Np1[Int],Int,Int,Ref]]', 'existence_infeasibility_mask': 'Np1[Bool]',
            'conn_des_vars': 'List[Ref[DesVar]]', 'exist_map': 'Np1[Int]'},
    requires={'n': 'n_combs >= 0', 'choices-distinct': 'forall(a, 0, len(self.connection_choice_nodes), forall(b, 0, len(self.connection_choice_nodes), implies(a != b, self.connection_choice_nodes[a] != self.connection_choice_nodes[b])))'},
    # EM(choice) / NV(choice): the existence map and the number of design variables _encode_connection_choice yields
    funcs={'EM': (['Ref'], 'Np1[Int]'), 'NV': (['Ref'], 'Int')},
    calls={'self._encode_connection_choice': dict(
        params=['choice_node'], types={}, returns='Tuple[Ref,List[Ref[DesVar]],Ref,Np1[Int],Ref]', modifies=[], assumed=True, receiver='self',
        ensures=['result[3] == EM(choice_node)', 'len(result[1]) == NV(choice_node)', 'NV(choice_node) >= 0',
                 'implies(not cutoff_mode, len(EM(choice_node)) == n_combs)'])},
    defs={'ccn': ((), 'self.connection_choice_nodes')},
    loops={
        'for choice_node in self.connection_choice_nodes': dict(index='k', invariant={
            'mask-len': 'len(existence_infeasibility_mask) == n_combs',
            'mask': 'implies(not cutoff_mode, forall(c, 0, n_combs, existence_infeasibility_mask[c] == forall(j, 0, k, EM(ccn()[j])[c] != -1)))',
            'mask-untouched-in-cutoff-mode': 'implies(cutoff_mode, forall(c, 0, n_combs, existence_infeasibility_mask[c]))',
            'entries': 'forall(j, 0, k, ccn()[j] in conn_choice_data_map)',
            'ranges-consecutive': 'forall(j, 0, k, conn_choice_data_map[ccn()[j]][4] - conn_choice_data_map[ccn()[j]][3] == NV(ccn()[j]) and '
                                  'conn_choice_data_map[ccn()[j]][3] == ite(j == 0, old(len(des_vars)), conn_choice_data_map[ccn()[j - 1]][4]))',
            'length': 'implies(k > 0, len(des_vars) == conn_choice_data_map[ccn()[k - 1]][4]) and implies(k == 0, len(des_vars) == old(len(des_vars)))',
            'maps-kept': 'forall(j, 0, k, conn_choice_data_map[ccn()[j]][2] == EM(ccn()[j]))',
        }),
        'for conn_des_var in conn_des_vars': dict(index='q', invariant={}),
    },
    ensures={
        # statement of C01's mechanism "infeasible existence patterns mapped to -1 and masked out": a combination stays
        # admissible exactly if no connection choice maps it to the "no valid connection set" marker
        'mask-is-conjunction-over-all-connection-choices': ('property',
            'implies(not cutoff_mode, forall(c, 0, n_combs, existence_infeasibility_mask[c] == forall(j, 0, len(ccn()), EM(ccn()[j])[c] != -1)))'),
        'variable-ranges-are-consecutive-and-sized': ('property',
            'forall(j, 0, len(ccn()), conn_choice_data_map[ccn()[j]][4] - conn_choice_data_map[ccn()[j]][3] == NV(ccn()[j]) and '
            'conn_choice_data_map[ccn()[j]][3] == ite(j == 0, old(len(des_vars)), conn_choice_data_map[ccn()[j - 1]][4]))'),
        'all-variables-appended': ('property', 'implies(len(ccn()) > 0, len(des_vars) == conn_choice_data_map[ccn()[len(ccn()) - 1]][4])'),
        'no-connection-choice-no-variable': ('property', 'implies(len(ccn()) == 0, len(des_vars) == old(len(des_vars)))'),
        'existence-map-stored-with-its-choice': ('property', 'forall(j, 0, len(ccn()), conn_choice_data_map[ccn()[j]][2] == EM(ccn()[j]))'),
    },
    no_frame=True,
)
CLASSES['GraphProcessor']['connection_choice_nodes'] = 'List[Ref]'


def _domain_des_vars_connection(n):
    """The segment (cut out of the real source) run by CPython on real processors of small corpus graphs; EM / NV are
    read off a separate call of the real `_encode_connection_choice`."""
    import os, sys, tempfile
    here = os.path.dirname(os.path.dirname(os.path.abspath(__file__)))
    if here not in sys.path:
        sys.path.insert(0, here)
    os.environ.setdefault('XDG_CACHE_HOME', tempfile.mkdtemp(prefix='verif_dom_'))
    from pyvc.replay import segment_callable
    from bounded import gen, corpus
    from adsg_core.optimization.graph_processor import GraphProcessor
    from adsg_core.optimization.hierarchy import SelChoiceEncoderType
    key = GP + 'GraphProcessor._get_des_vars@connection-choices'
    seg = segment_callable(key, CONTRACTS[key], os.environ.get('VERIF_REPO', '/repo'))
    members = [d for d in corpus.corpus(['conn2', 'conn'], 'quick') if d.conn_choices]      # several choices first
    for d in members[:max(4, n // 12)]:
        try:
            b = gen.Built(d)
            gp = GraphProcessor(b.dsg, encoder_type=SelChoiceEncoderType.COMPLETE)
            starts = [v[3] for v in gp._conn_choice_data_map.values()]
            pre = list(gp.all_des_vars[:min(starts)]) if starts else []
        except Exception:   # noqa: processors that cannot be built are the business of C01 / C10
            continue
        memo = {}

        def enc(c, gp=gp, memo=memo):
            if c not in memo:
                memo[c] = gp._encode_connection_choice(c)
            return memo[c]
        ncomb = gp._hierarchy_analyzer.n_combinations
        perm = gp._hierarchy_analyzer.influence_matrix.permanent_nodes_incl_choice_nodes
        env = {'self': gp, 'des_vars': list(pre), 'n_combs': ncomb, 'cutoff_mode': False, 'permanent_nodes': perm,
               'EM': (lambda c, enc=enc: enc(c)[3]), 'NV': (lambda c, enc=enc: len(enc(c)[1]))}
        try:
            if any(isinstance(enc(c)[3], dict) for c in gp.connection_choice_nodes):
                continue    # dict-shaped existence maps: the other variant
        except Exception:   # noqa: members whose encoders cannot be built are the business of C01 / C10
            continue
        yield (env, (lambda gp=gp, env=env, ncomb=ncomb, perm=perm: seg(self=gp, des_vars=env['des_vars'], n_combs=ncomb, cutoff_mode=False,
                                                                        permanent_nodes=perm)), {},
               f'GraphProcessor({d.label})._get_des_vars[connection-choice segment]')


DOMAIN = dict(globals().get('DOMAIN', {}))
DOMAIN[GP + 'GraphProcessor._get_des_vars@connection-choices'] = _domain_des_vars_connection


# ---- GraphProcessor.get_imputation_ratio: "the imputation ratio is their quotient" (C04) -------------------------------
# NV / NDS / CONT: the values of get_n_valid_designs / get_n_design_space / the continuous factor of
# get_additional_dv_stats for the given `with_fixed` (uninterpreted: those functions are bounded-only, C04 driver)
CONTRACTS[GP + 'GraphProcessor.get_imputation_ratio'] = dict(
    properties=['C04'],
    types={'self': 'Ref[GraphProcessor]', 'with_fixed': 'Bool', 'include_cont': 'Bool'},
    returns='Real',
    funcs={'NV': (['Bool'], 'Int'), 'NDS': (['Bool'], 'Int'), 'CONT': (['Bool'], 'Real')},
    calls={
        'self.get_n_valid_designs': dict(params=['with_fixed'], types={}, returns='Int', modifies=[], assumed=True, receiver='self', pure_expr='NV(with_fixed)'),
        'self.get_n_design_space': dict(params=['with_fixed'], types={}, returns='Int', modifies=[], assumed=True, receiver='self', pure_expr='NDS(with_fixed)'),
        'self.get_additional_dv_stats': dict(params=['with_fixed'], types={}, returns='Tuple[Int,Int,Int,Int,Real,Real]', modifies=[], assumed=True, receiver='self',
                                             ensures=['result[5] == CONT(with_fixed)']),
    },
    ensures={
        'no-valid-design-gives-one': ('property', 'implies(NV(with_fixed) == 0, result == 1)'),
        'quotient-of-declared-and-valid-size': ('property', 'implies(NV(with_fixed) != 0 and not include_cont, result == NDS(with_fixed) / NV(with_fixed))'),
        'times-the-continuous-factor-when-asked': ('property', 'implies(NV(with_fixed) != 0 and include_cont, result == NDS(with_fixed) / NV(with_fixed) * CONT(with_fixed))'),
    },
    modifies=[],
)


def _domain_imputation_ratio(n):
    import random, os
    from adsg_core.optimization.graph_processor import GraphProcessor
    rng = random.Random(7700 + int(os.environ.get('VERIF_SEED', '0') or 0))
    for _ in range(n):
        nv = {b: rng.choice([0, 1, 2, 3, 5, 7, 12]) for b in (False, True)}
        nds = {b: rng.choice([1, 2, 4, 9, 10, 36]) for b in (False, True)}
        cont = {b: rng.choice([1.0, 1.5, 2.0]) for b in (False, True)}
        gp = _GP()
        gp.get_n_valid_designs = lambda with_fixed=False, nv=nv: nv[with_fixed]
        gp.get_n_design_space = lambda with_fixed=False, nds=nds: nds[with_fixed]
        gp.get_additional_dv_stats = lambda with_fixed=False, cont=cont: (0, 0, 0, 0, 1.0, cont[with_fixed])
        wf, ic = rng.random() < 0.5, rng.random() < 0.5
        env = {'self': gp, 'with_fixed': wf, 'include_cont': ic, 'NV': (lambda b, nv=nv: nv[b]), 'NDS': (lambda b, nds=nds: nds[b]),
               'CONT': (lambda b, cont=cont: cont[b])}
        yield (env, (lambda gp=gp, wf=wf, ic=ic: GraphProcessor.get_imputation_ratio(gp, with_fixed=wf, include_cont=ic)), {},
               f'get_imputation_ratio(with_fixed={wf}, include_cont={ic}) with n_valid={nv[wf]}, n_design_space={nds[wf]}, cont={cont[wf]}')


DOMAIN[GP + 'GraphProcessor.get_imputation_ratio'] = _domain_imputation_ratio
