"""Sidecar contracts: adsg_core/optimization/assign_enc/encoding.py, assignment_manager.py (C10, C03, C07)."""

F = 'adsg_core/optimization/assign_enc/encoding.py:'
G = 'adsg_core/optimization/assign_enc/assignment_manager.py:'

CLASSES = {
    'DiscreteDV': {'n_opts': 'Int', 'conditionally_active': 'Bool'},
}
GLOBALS = {
    'adsg_core/optimization/assign_enc/encoding.py': {'X_INACTIVE_VALUE': -1},
    'adsg_core/optimization/assign_enc/assignment_manager.py': {'X_INACTIVE_VALUE': -1},
}

CLAMP = 'ite(v < 0, 0, ite(v >= n, n - 1, v))'

CONTRACTS = {
    F + 'EagerEncoder.correct_vector_size': dict(
        properties=['C10', 'C03', 'C01'],
        types={'n_dv': 'Int', 'vector': 'List[Int]'},
        returns='Tuple[List[Int],Int]',
        requires={'n_dv-nonneg': 'n_dv >= 0'},
        ensures={
            'n-extra': ('property', 'result[1] == len(vector) - n_dv'),
            'len': ('property', 'len(result[0]) == ite(len(vector) < n_dv, len(vector), n_dv)'),
            'prefix': ('property', 'forall(i, 0, len(result[0]), result[0][i] == vector[i])'),
        },
        modifies=[],
    ),
    F + 'EagerEncoder.correct_vector_bounds': dict(
        properties=['C10', 'C03', 'C01'],
        types={'vector': 'List[Int]', 'design_vars': 'List[Ref[DiscreteDV]]'},
        returns='Tuple[List[Int],Bool]',
        requires={'long-enough': 'len(vector) >= len(design_vars)',
                  'n-opts-positive': 'forall(i, 0, len(design_vars), design_vars[i].n_opts >= 1)'},
        defs={'clamp': (('v', 'n'), CLAMP)},
        loops={'for i, dv in enumerate(design_vars)': dict(index='k', invariant={
            'len': 'len(correct_vector) == len(vector)',
            'done': 'forall(j, 0, k, correct_vector[j] == clamp(vector[j], design_vars[j].n_opts))',
            'todo': 'forall(j, k, len(vector), correct_vector[j] == vector[j])',
            'flag': 'is_corrected == exists(j, 0, k, vector[j] < 0 or vector[j] >= design_vars[j].n_opts)',
        })},
        ensures={
            'len': ('property', 'len(result[0]) == len(vector)'),
            'clamp': ('property', 'forall(j, 0, len(design_vars), result[0][j] == clamp(vector[j], design_vars[j].n_opts))'),
            'in-range': ('property', 'forall(j, 0, len(design_vars), 0 <= result[0][j] and result[0][j] < design_vars[j].n_opts)'),
            'rest-unchanged': ('property', 'forall(j, len(design_vars), len(vector), result[0][j] == vector[j])'),
            'is-corrected-iff': ('property', 'result[1] == exists(j, 0, len(design_vars), vector[j] < 0 or vector[j] >= design_vars[j].n_opts)'),
            'fresh-result': ('property', 'fresh(result[0])'),
        },
        modifies=[],   # => frame obligation: the caller's vector is not mutated
    ),
    G + 'AssignmentManagerBase._correct_is_active': dict(
        properties=['C03', 'C07', 'C10', 'C01'],
        types={'vector': 'List[Int]'},
        returns='Tuple[Np1[Int],Np1[Bool]]',
        ensures={
            'len': ('property', 'len(result[0]) == len(vector) and len(result[1]) == len(vector)'),
            'active-iff': ('property', 'forall(i, 0, len(vector), result[1][i] == (vector[i] != -1))'),
            'zero-subst': ('property', 'forall(i, 0, len(vector), result[0][i] == ite(vector[i] == -1, 0, vector[i]))'),
        },
        modifies=[],
    ),
}


def _rng():
    import os
    import random
    return random.Random(2000 + int(os.environ.get('VERIF_SEED', '0') or 0))


def _domain_cvs(n):
    from adsg_core.optimization.assign_enc.encoding import EagerEncoder
    rng = _rng()
    for _ in range(n):
        v = [rng.randint(-2, 4) for _ in range(rng.randint(0, 5))]
        nd = rng.randint(0, 5)
        yield ({'n_dv': nd, 'vector': v}, (lambda v=v, nd=nd: EagerEncoder.correct_vector_size(nd, list(v))), {},
               f'EagerEncoder.correct_vector_size({nd}, {v})')


def _domain_cvb(n):
    from adsg_core.optimization.assign_enc.encoding import EagerEncoder, DiscreteDV
    rng = _rng()
    for _ in range(n):
        dvs = [DiscreteDV(n_opts=rng.randint(1, 4), conditionally_active=False) for _ in range(rng.randint(0, 4))]
        v = [rng.randint(-2, 5) for _ in range(len(dvs) + rng.randint(0, 2))]
        yield ({'vector': v, 'design_vars': dvs}, (lambda v=v, dvs=dvs: EagerEncoder.correct_vector_bounds(v, dvs)), {},
               f'EagerEncoder.correct_vector_bounds({v}, n_opts={[d.n_opts for d in dvs]})')


def _domain_cia(n):
    from adsg_core.optimization.assign_enc.assignment_manager import AssignmentManagerBase
    rng = _rng()
    for _ in range(n):
        v = [rng.randint(-1, 3) for _ in range(rng.randint(0, 5))]
        yield ({'vector': v}, (lambda v=v: AssignmentManagerBase._correct_is_active(list(v))), {},
               f'AssignmentManagerBase._correct_is_active({v})')


DOMAIN = {F + 'EagerEncoder.correct_vector_size': _domain_cvs, F + 'EagerEncoder.correct_vector_bounds': _domain_cvb,
          G + 'AssignmentManagerBase._correct_is_active': _domain_cia}


# ---- AssignmentManager.get_matrix / correct_vector: the public decode of a connection problem (C07, C10, C03) ----------
# IMPUTED / MATRIX: what the eager encoder answers for (vector, existence) -- uninterpreted here (the encoders and
# imputers are bounded-only, C10); these two carriers state that on *every* path through the manager the reported vector
# and activeness are exactly the (-1 -> 0, inactive) conversion of that answer, and that `correct_vector` and
# `get_matrix` agree (C07: one activeness contract on every path).
CLASSES = dict(globals().get('CLASSES', {}))
CLASSES['AssignmentManager'] = {'_encoder': 'Ref'}
_ENC_GET = dict(params=['vector', 'existence'], types={}, returns='Tuple[List[Int],Ref]', modifies=[], assumed=True,
                receiver='self._encoder', ensures=['result[0] == IMPUTED(vector, existence)', 'result[1] == MATRIX(vector, existence)'])
_MGR_FUNCS = {'IMPUTED': (['List[Int]', 'Optional[Ref]'], 'List[Int]'), 'MATRIX': (['List[Int]', 'Optional[Ref]'], 'Ref')}
_MGR_POST = {
    'one-entry-per-variable-of-the-encoder-answer': ('property', 'len(result[0]) == len(IMPUTED(vector, existence)) and len(result[1]) == len(IMPUTED(vector, existence))'),
    'inactive-iff-the-encoder-marked-minus-one': ('property', 'forall(i, 0, len(IMPUTED(vector, existence)), result[1][i] == (IMPUTED(vector, existence)[i] != -1))'),
    'inactive-variables-reported-as-zero-others-unchanged': ('property', 'forall(i, 0, len(IMPUTED(vector, existence)), result[0][i] == ite(IMPUTED(vector, existence)[i] == -1, 0, IMPUTED(vector, existence)[i]))'),
}
CONTRACTS[G + 'AssignmentManager.get_matrix'] = dict(
    properties=['C07', 'C10', 'C03'],
    types={'self': 'Ref[AssignmentManager]', 'vector': 'List[Int]', 'existence': 'Optional[Ref]'},
    returns='Tuple[Np1[Int],Np1[Bool],Ref]',
    funcs=_MGR_FUNCS,
    calls={'self._encoder.get_matrix': _ENC_GET, 'self._correct_is_active': G + 'AssignmentManagerBase._correct_is_active'},
    ensures=dict(_MGR_POST, **{'matrix-is-the-encoder-answer': ('property', 'result[2] == MATRIX(vector, existence)')}),
    modifies=[],
)
CONTRACTS[G + 'AssignmentManager.correct_vector'] = dict(
    properties=['C07', 'C10', 'C03'],
    types={'self': 'Ref[AssignmentManager]', 'vector': 'List[Int]', 'existence': 'Optional[Ref]'},
    returns='Tuple[Np1[Int],Np1[Bool]]',
    funcs=_MGR_FUNCS,
    calls={'self._encoder.get_matrix': _ENC_GET, 'self._correct_is_active': G + 'AssignmentManagerBase._correct_is_active'},
    ensures=dict(_MGR_POST),
    modifies=[],
)

CLASSES['LazyAssignmentManager'] = {'_encoder': 'Ref'}
for _cls in ('LazyAssignmentManager',):
    for _m in ('get_matrix', 'correct_vector'):
        CONTRACTS[G + f'{_cls}.{_m}'] = dict(CONTRACTS[G + f'AssignmentManager.{_m}'], types=dict(
            CONTRACTS[G + f'AssignmentManager.{_m}']['types'], self=f'Ref[{_cls}]'))

# get_conn_idx (what GraphProcessor.get_graph calls): same vector / activeness contract; the edge list is None exactly
# when the matrix is the constraint-violation marker, else the generator's / encoder's translation of the matrix
_CONN_POST = dict(_MGR_POST, **{
    'violated-matrix-gives-no-edges': ('property', 'implies(VIOLATED(MATRIX(vector, existence)), result[2] is None)'),
    'edges-are-the-translation-of-the-encoder-matrix': ('property', 'implies(not VIOLATED(MATRIX(vector, existence)), result[2] == EDGES(MATRIX(vector, existence)))'),
})
_CONN_FUNCS = dict(_MGR_FUNCS, VIOLATED=(['Ref'], 'Bool'), EDGES=(['Ref'], 'Optional[Ref]'))
_IS_VIOLATED = dict(params=['matrix'], types={}, returns='Bool', modifies=[], assumed=True, receiver='self', pure_expr='VIOLATED(matrix)')
CLASSES['AssignmentManager']['_matrix_gen'] = 'Ref'
CONTRACTS[G + 'AssignmentManager.get_conn_idx'] = dict(
    properties=['C07', 'C10', 'C03', 'C01'],
    types={'self': 'Ref[AssignmentManager]', 'vector': 'List[Int]', 'existence': 'Optional[Ref]'},
    returns='Tuple[Np1[Int],Np1[Bool],Optional[Ref]]',
    funcs=_CONN_FUNCS,
    calls={'self.get_matrix': G + 'AssignmentManager.get_matrix', 'self._is_violated_matrix': _IS_VIOLATED,
           'self._matrix_gen.get_conn_idx': dict(params=['matrix'], types={}, returns='Optional[Ref]', modifies=[], assumed=True,
                                                 receiver='self._matrix_gen', pure_expr='EDGES(matrix)')},
    ensures=_CONN_POST,
    modifies=[],
)
CONTRACTS[G + 'LazyAssignmentManager.get_conn_idx'] = dict(
    properties=['C07', 'C10', 'C03', 'C01'],
    types={'self': 'Ref[LazyAssignmentManager]', 'vector': 'List[Int]', 'existence': 'Optional[Ref]'},
    returns='Tuple[Np1[Int],Np1[Bool],Optional[Ref]]',
    funcs=_CONN_FUNCS,
    calls={'self._encoder.get_matrix': _ENC_GET, 'self._correct_is_active': G + 'AssignmentManagerBase._correct_is_active',
           'self._is_violated_matrix': _IS_VIOLATED,
           'self._encoder.get_conn_idx': dict(params=['matrix'], types={}, returns='Optional[Ref]', modifies=[], assumed=True,
                                              receiver='self._encoder', pure_expr='EDGES(matrix)')},
    ensures=_CONN_POST,
    modifies=[],
)


def _domain_manager(method, lazy):
    def gen(n):
        import numpy as np
        from adsg_core.optimization.assign_enc.matrix import MatrixGenSettings, Node
        from adsg_core.optimization.assign_enc.assignment_manager import AssignmentManager, LazyAssignmentManager
        from adsg_core.optimization.assign_enc.encoder_registry import EAGER_ENCODERS, EAGER_IMPUTERS, LAZY_ENCODERS, LAZY_IMPUTERS
        rng = _rng()
        made = 0
        while made < n:
            src = [Node([0, 1]) if rng.random() < 0.5 else Node([1]) for _ in range(rng.randint(1, 2))]
            tgt = [Node([0, 1]) if rng.random() < 0.6 else Node(min_conn=0) for _ in range(rng.randint(1, 2))]
            settings = MatrixGenSettings(src=src, tgt=tgt)
            try:
                if lazy:
                    mgr = LazyAssignmentManager(settings, rng.choice(LAZY_ENCODERS)(rng.choice(LAZY_IMPUTERS)()))
                else:
                    mgr = AssignmentManager(settings, rng.choice(EAGER_ENCODERS)(rng.choice(EAGER_IMPUTERS)()), cache=False)
                dvs = mgr.design_vars
            except Exception:  # noqa  (an encoder that rejects these settings: not this contract's subject)
                continue
            for _ in range(4):
                vector = [rng.randint(-1, dv.n_opts + 1) for dv in dvs]      # also inactive markers and out-of-range values
                enc = mgr.encoder

                def IMPUTED(v, ex, enc=enc):
                    return [int(x) for x in enc.get_matrix(list(v), existence=ex)[0]]

                def MATRIX(v, ex, enc=enc):
                    return _Mat(enc.get_matrix(list(v), existence=ex)[1])

                def EDGES(m, mgr=mgr):
                    return _Edges((mgr.matrix_gen if not lazy else mgr.encoder).get_conn_idx(m.a))
                env = {'self': mgr, 'vector': vector, 'existence': None, 'IMPUTED': IMPUTED, 'MATRIX': MATRIX, 'EDGES': EDGES,
                       'VIOLATED': (lambda m, mgr=mgr: bool(mgr._is_violated_matrix(m.a)))}

                def call(mgr=mgr, vector=vector):
                    r = getattr(mgr, method)(list(vector))
                    if method == 'get_matrix':
                        return (r[0], r[1], _Mat(r[2]))
                    if method == 'get_conn_idx':
                        return (r[0], r[1], None if r[2] is None else _Edges(r[2]))
                    return r
                made += 1
                yield (env, call, {}, f'{type(mgr).__name__}({enc!s}).{method}({vector}) for src {src!r} tgt {tgt!r}')
    return gen


class _Mat:
    """A connection matrix compared by content (numpy `==` is element-wise)."""
    def __init__(self, a):
        self.a = a

    def __eq__(self, o):
        import numpy as np
        return isinstance(o, _Mat) and np.array_equal(np.asarray(self.a), np.asarray(o.a))

    def __repr__(self):
        return repr(getattr(self.a, 'tolist', lambda: self.a)())


class _Edges(_Mat):
    def __eq__(self, o):
        return isinstance(o, _Edges) and list(self.a) == list(o.a)


for _cls, _lazy in (('AssignmentManager', False), ('LazyAssignmentManager', True)):
    for _m in ('get_matrix', 'correct_vector', 'get_conn_idx'):
        DOMAIN[G + f'{_cls}.{_m}'] = _domain_manager(_m, _lazy)
