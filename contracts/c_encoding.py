"""Sidecar contracts: adsg_core/optimization/assign_enc/encoding.py, assignment_manager.py (C10, C03, C07)."""

F = 'adsg_core/optimization/assign_enc/encoding.py:'
G = 'adsg_core/optimization/assign_enc/assignment_manager.py:'

CLASSES = {
    'DiscreteDV': {'n_opts': 'Int', 'conditionally_active': 'Bool'},
}
GLOBALS = {
    'adsg_core/optimization/assign_enc/encoding.py': {'X_INACTIVE_VALUE': -1},
    'adsg_core/optimization/assign_enc/assignment_manager.py': {'X_INACTIVE_VALUE': -1},
}

CLAMP = 'ite(v < 0, 0, ite(v >= n, n - 1, v))'

CONTRACTS = {
    F + 'EagerEncoder.correct_vector_size': dict(
        properties=['C10', 'C03', 'C01'],
        types={'n_dv': 'Int', 'vector': 'List[Int]'},
        returns='Tuple[List[Int],Int]',
        requires={'n_dv-nonneg': 'n_dv >= 0'},
        ensures={
            'n-extra': ('property', 'result[1] == len(vector) - n_dv'),
            'len': ('property', 'len(result[0]) == ite(len(vector) < n_dv, len(vector), n_dv)'),
            'prefix': ('property', 'forall(i, 0, len(result[0]), result[0][i] == vector[i])'),
        },
        modifies=[],
    ),
    F + 'EagerEncoder.correct_vector_bounds': dict(
        properties=['C10', 'C03', 'C01'],
        types={'vector': 'List[Int]', 'design_vars': 'List[Ref[DiscreteDV]]'},
        returns='Tuple[List[Int],Bool]',
        requires={'long-enough': 'len(vector) >= len(design_vars)',
                  'n-opts-positive': 'forall(i, 0, len(design_vars), design_vars[i].n_opts >= 1)'},
        defs={'clamp': (('v', 'n'), CLAMP)},
        loops={'for i, dv in enumerate(design_vars)': dict(index='k', invariant={
            'len': 'len(correct_vector) == len(vector)',
            'done': 'forall(j, 0, k, correct_vector[j] == clamp(vector[j], design_vars[j].n_opts))',
            'todo': 'forall(j, k, len(vector), correct_vector[j] == vector[j])',
            'flag': 'is_corrected == exists(j, 0, k, vector[j] < 0 or vector[j] >= design_vars[j].n_opts)',
        })},
        ensures={
            'len': ('property', 'len(result[0]) == len(vector)'),
            'clamp': ('property', 'forall(j, 0, len(design_vars), result[0][j] == clamp(vector[j], design_vars[j].n_opts))'),
            'in-range': ('property', 'forall(j, 0, len(design_vars), 0 <= result[0][j] and result[0][j] < design_vars[j].n_opts)'),
            'rest-unchanged': ('property', 'forall(j, len(design_vars), len(vector), result[0][j] == vector[j])'),
            'is-corrected-iff': ('property', 'result[1] == exists(j, 0, len(design_vars), vector[j] < 0 or vector[j] >= design_vars[j].n_opts)'),
            'fresh-result': ('property', 'fresh(result[0])'),
        },
        modifies=[],   # => frame obligation: the caller's vector is not mutated
    ),
    G + 'AssignmentManagerBase._correct_is_active': dict(
        properties=['C03', 'C07', 'C10', 'C01'],
        types={'vector': 'List[Int]'},
        returns='Tuple[Np1[Int],Np1[Bool]]',
        ensures={
            'len': ('property', 'len(result[0]) == len(vector) and len(result[1]) == len(vector)'),
            'active-iff': ('property', 'forall(i, 0, len(vector), result[1][i] == (vector[i] != -1))'),
            'zero-subst': ('property', 'forall(i, 0, len(vector), result[0][i] == ite(vector[i] == -1, 0, vector[i]))'),
        },
        modifies=[],
    ),
}


def _rng():
    import os
    import random
    return random.Random(2000 + int(os.environ.get('VERIF_SEED', '0') or 0))


def _domain_cvs(n):
    from adsg_core.optimization.assign_enc.encoding import EagerEncoder
    rng = _rng()
    for _ in range(n):
        v = [rng.randint(-2, 4) for _ in range(rng.randint(0, 5))]
        nd = rng.randint(0, 5)
        yield ({'n_dv': nd, 'vector': v}, (lambda v=v, nd=nd: EagerEncoder.correct_vector_size(nd, list(v))), {},
               f'EagerEncoder.correct_vector_size({nd}, {v})')


def _domain_cvb(n):
    from adsg_core.optimization.assign_enc.encoding import EagerEncoder, DiscreteDV
    rng = _rng()
    for _ in range(n):
        dvs = [DiscreteDV(n_opts=rng.randint(1, 4), conditionally_active=False) for _ in range(rng.randint(0, 4))]
        v = [rng.randint(-2, 5) for _ in range(len(dvs) + rng.randint(0, 2))]
        yield ({'vector': v, 'design_vars': dvs}, (lambda v=v, dvs=dvs: EagerEncoder.correct_vector_bounds(v, dvs)), {},
               f'EagerEncoder.correct_vector_bounds({v}, n_opts={[d.n_opts for d in dvs]})')


def _domain_cia(n):
    from adsg_core.optimization.assign_enc.assignment_manager import AssignmentManagerBase
    rng = _rng()
    for _ in range(n):
        v = [rng.randint(-1, 3) for _ in range(rng.randint(0, 5))]
        yield ({'vector': v}, (lambda v=v: AssignmentManagerBase._correct_is_active(list(v))), {},
               f'AssignmentManagerBase._correct_is_active({v})')


DOMAIN = {F + 'EagerEncoder.correct_vector_size': _domain_cvs, F + 'EagerEncoder.correct_vector_bounds': _domain_cvb,
          G + 'AssignmentManagerBase._correct_is_active': _domain_cia}
