"""Sidecar contracts: adsg_core/graph/choice_constraints.py (C13)."""

F = 'adsg_core/graph/choice_constraints.py:'

CLASSES = {
    'ChoiceConstraintX': {'type': 'Enum[ChoiceConstraintType]', 'nodes': 'List[Ref]', 'options': 'Optional[List[List[Ref]]]'},
}

# the documented relation between the taken choice (index it, option index jc) and option kk of sibling choice ip
REL = ('ite(cc.type == ChoiceConstraintType.LINKED, kk == jc, '
       'ite(cc.type == ChoiceConstraintType.PERMUTATION, kk != jc, '
       'ite(cc.type == ChoiceConstraintType.UNORDERED, ite(ip < it, kk <= jc, kk >= jc), '
       'ite(ip < it, kk < jc, kk > jc))))')

WF = {
    'one-option-list-per-choice': 'implies(choice_constraint.options is not None, len(choice_constraint.options) == len(choice_constraint.nodes))',
    'taken-choice-valid': '0 <= i_taken_choice and i_taken_choice < len(choice_constraint.nodes) and 0 <= i_chosen_option',
    'known-type': '1 <= choice_constraint.type.value and choice_constraint.type.value <= 4',
    'options-distinct': 'implies(choice_constraint.options is not None, forall(i, 0, len(choice_constraint.options), forall(a, 0, len(choice_constraint.options[i]), forall(b, 0, len(choice_constraint.options[i]), implies(a != b, choice_constraint.options[i][a] != choice_constraint.options[i][b])))))',
    'nodes-distinct': 'forall(a, 0, len(choice_constraint.nodes), forall(b, 0, len(choice_constraint.nodes), implies(a != b, choice_constraint.nodes[a] != choice_constraint.nodes[b])))',
    # LINKED with unequal option counts keeps the last option of the shorter choice (documented in the code, at odds with
    # "all equal"): that case is excluded here and reported by the bounded layer (known finding C13.linked-with-fewer-options)
    'linked-equal-counts': 'implies(choice_constraint.options is not None and choice_constraint.type == ChoiceConstraintType.LINKED, forall(i, 0, len(choice_constraint.options), len(choice_constraint.options[i]) - 1 >= i_chosen_option))',
}

# an entry (node, removed options) of the result: `node` is a sibling choice (its position is determined because the
# nodes are distinct) and exactly its relation-violating options are removed
ENTRY_OK = ('owner(ent) < kmax and 0 <= owner(ent) and choice_constraint.nodes[owner(ent)] == ent[0] and owner(ent) != i_taken_choice and '
            'forall(kk, 0, len(choice_constraint.options[owner(ent)]), (choice_constraint.options[owner(ent)][kk] in ent[1]) == (not rel(choice_constraint, i_taken_choice, i_chosen_option, owner(ent), kk)))')

DRAFT_CONTRACTS = {   # not registered: inductive step stays `unknown` (quantifier alternation); C13 keeps this function bounded-only
    F + 'get_constraint_removed_options': dict(
        properties=['C13'],
        types={'choice_constraint': 'Ref[ChoiceConstraintX]', 'i_taken_choice': 'Int', 'i_chosen_option': 'Int'},
        returns='List[Tuple[Ref,List[Ref]]]',
        locals={'removed_choice_opts': 'List[Tuple[Ref,List[Ref]]]', 'removed_opts': 'List[Ref]'},
        requires=WF,
        defs={'rel': (('cc', 'it', 'jc', 'ip', 'kk'), REL), 'entry_ok': (('ent', 'kmax'), ENTRY_OK)},
        # owner(entry) = position of the entry's choice node among the constrained choices (ghost; pinned by the axiom)
        funcs={'owner': (['Tuple[Ref,List[Ref]]'], 'Int')},
        axioms={'owner-def': "forall('t:Tuple[Ref,List[Ref]]', forall(q, 0, len(choice_constraint.nodes), implies(choice_constraint.nodes[q] == t[0], owner(t) == q)))"},
        loops={'for i, choice_node in enumerate(choice_constraint.nodes)': dict(index='k', invariant={
            'entries-sound': 'forall(e, 0, len(removed_choice_opts), entry_ok(removed_choice_opts[e], k))',
            'entries-complete': ('forall(ip, 0, k, implies(ip != i_taken_choice and exists(kk, 0, len(choice_constraint.options[ip]), not rel(choice_constraint, i_taken_choice, i_chosen_option, ip, kk)), '
                                 'exists(e, 0, len(removed_choice_opts), removed_choice_opts[e][0] == choice_constraint.nodes[ip])))'),
            'nonempty-only': 'forall(e, 0, len(removed_choice_opts), len(removed_choice_opts[e][1]) > 0)',
        })},
        may_raise=[],
        ensures={
            'none-options-no-removal': ('property', 'implies(choice_constraint.options is None, len(result) == 0)'),
            'removed-iff-relation-violated': ('property', 'implies(choice_constraint.options is not None, forall(e, 0, len(result), entry_ok(result[e], len(choice_constraint.nodes))))'),
            'every-violating-option-removed': ('property', ('implies(choice_constraint.options is not None, forall(ip, 0, len(choice_constraint.nodes), implies(ip != i_taken_choice and exists(kk, 0, len(choice_constraint.options[ip]), not rel(choice_constraint, i_taken_choice, i_chosen_option, ip, kk)), '
                                                            'exists(e, 0, len(result), result[e][0] == choice_constraint.nodes[ip]))))')),
            'only-nonempty-removals-listed': ('property', 'forall(e, 0, len(result), len(result[e][1]) > 0)'),
        },
        modifies=[],
    ),
}


# ----------------------------------------------- row predicates of get_valid_idx_combinations (nested functions)
def _row_contract(strict):
    op = '<' if strict else '<='
    name = '_check_gt' if strict else '_check_gte'
    return dict(
        properties=['C13'],
        types={'row': 'Np1[Int]'},
        returns='Bool',
        loops={'for i_value in range(1, len(row))': dict(index='k', invariant={
            'ordered-so-far': f'forall(a, 1, k + 1, row[a - 1] {op} row[a])'})},
        ensures={
            # statement of C13: unordered = non-decreasing in choice order; non-replacing = strictly increasing
            ('strictly-increasing' if strict else 'non-decreasing') + '-rows-accepted':
                ('property', f'implies(forall(a, 1, len(row), row[a - 1] {op} row[a]), result)'),
            'other-rows-rejected': ('property', f'implies(result, forall(a, 1, len(row), row[a - 1] {op} row[a]))'),
        },
        modifies=[],
    )


CONTRACTS = {
    F + 'get_valid_idx_combinations.<locals>._check_gte': _row_contract(False),
    F + 'get_valid_idx_combinations.<locals>._check_gt': _row_contract(True),
}


def _domain_rows(strict):
    def dom(n):
        import itertools
        import numpy as np
        from adsg_core.graph.choice_constraints import get_valid_idx_combinations, ChoiceConstraintType
        # the nested predicate is observed through the function that owns it: one all-active row, two+ columns
        ctype = ChoiceConstraintType.UNORDERED_NOREPL if strict else ChoiceConstraintType.UNORDERED
        for ln in (2, 3, 4):
            for row in itertools.product(range(3), repeat=ln):
                arr = np.array([list(row)])
                yield ({'row': list(row)}, (lambda arr=arr: len(get_valid_idx_combinations(arr, ctype)) == 1), {},
                       f'get_valid_idx_combinations({arr.tolist()}, {ctype.name})')
    return dom


DOMAIN = {F + 'get_valid_idx_combinations.<locals>._check_gte': _domain_rows(False),
          F + 'get_valid_idx_combinations.<locals>._check_gt': _domain_rows(True)}


# ------------------------------------------------------------------------------ options removed up front (C13)
PRE = F + 'get_constraint_pre_removed_options'
CONTRACTS[PRE] = dict(
    properties=['C13'],
    types={'choice_constraint': 'Ref[ChoiceConstraintX]', 'permanent_nodes': 'Set[Ref]'},
    returns='List[Tuple[Ref,List[Ref]]]',
    locals={'pre_removed_opts': 'List[Tuple[Ref,List[Ref]]]', 'removed_options': 'List[Ref]'},
    requires={'one-option-list-per-choice': 'implies(choice_constraint.options is not None, len(choice_constraint.options) == len(choice_constraint.nodes))',
              'some-choice': 'implies(choice_constraint.options is not None, len(choice_constraint.nodes) >= 1)'},
    defs={'cc': ((), 'choice_constraint'), 'n': ((), 'len(choice_constraint.nodes)'),
          'cnt': (('i',), 'len(choice_constraint.options[i])')},
    loops={'for i_dec, dec_node in enumerate(choice_constraint.nodes)': dict(index='k', invariant={
        'one-entry-per-choice': 'len(pre_removed_opts) == k',
        # only indices outside the window [i, count - choices after) are removed (the converse -- every such index is
        # removed -- needs the result position of a kept source position as a witness and stays with the bounded layer)
        'entries': 'forall(i, 0, k, pre_removed_opts[i][0] == choice_constraint.nodes[i] and '
                   'forall(q, 0, len(pre_removed_opts[i][1]), exists(j, 0, cnt(i), choice_constraint.options[i][j] == pre_removed_opts[i][1][q] and (j < i or j >= cnt(i) - (n() - (i + 1))))))',
    })},
    ensures={
        'no-options-nothing-removed': ('property', 'implies(choice_constraint.options is None, len(result) == 0)'),
        # statement of C13 for PERMUTATION: options are only given up when pairwise different indices are impossible
        # for a reason this function can see -- more choices than the longest option list
        'permutation-only-pruned-when-unsatisfiable': ('property',
            'implies(choice_constraint.options is not None and choice_constraint.type == ChoiceConstraintType.PERMUTATION and len(result) > 0, '
            'forall(i, 0, n(), cnt(i) < n()))'),
        'permutation-unsatisfiable-prunes-everything': ('property',
            'implies(choice_constraint.options is not None and choice_constraint.type == ChoiceConstraintType.PERMUTATION and forall(i, 0, n(), cnt(i) < n()), '
            'len(result) == n() and forall(i, 0, n(), result[i][0] == choice_constraint.nodes[i] and result[i][1] == choice_constraint.options[i]))'),
        # UNORDERED_NOREPL over permanent choices: option j of choice i survives iff a strictly increasing combination
        # can pass through it: i <= j (room for the i choices before) and j < count - (choices after)
        'norepl-removes-only-unreachable-indices': ('property',
            'implies(choice_constraint.options is not None and choice_constraint.type == ChoiceConstraintType.UNORDERED_NOREPL and '
            'forall(i, 0, n(), choice_constraint.nodes[i] in permanent_nodes), '
            'len(result) == n() and forall(i, 0, n(), result[i][0] == choice_constraint.nodes[i] and '
            'forall(q, 0, len(result[i][1]), exists(j, 0, cnt(i), choice_constraint.options[i][j] == result[i][1][q] and (j < i or j >= cnt(i) - (n() - (i + 1)))))))'),
        'other-constraints-untouched': ('property',
            'implies(choice_constraint.options is not None and choice_constraint.type != ChoiceConstraintType.PERMUTATION and '
            'not (choice_constraint.type == ChoiceConstraintType.UNORDERED_NOREPL and forall(i, 0, n(), choice_constraint.nodes[i] in permanent_nodes)), len(result) == 0)'),
    },
    modifies=[],
)


def _domain_pre_removed(n):
    import random, os
    from adsg_core.graph.choice_constraints import ChoiceConstraint, ChoiceConstraintType, get_constraint_pre_removed_options
    from adsg_core.graph.adsg_nodes import NamedNode, SelectionChoiceNode
    rng = random.Random(8700 + int(os.environ.get('VERIF_SEED', '0') or 0))
    for _ in range(n):
        nch = rng.randint(1, 4)
        nodes = [SelectionChoiceNode(f'c{i}') for i in range(nch)]
        ctype = rng.choice(list(ChoiceConstraintType))
        if rng.random() < 0.1:
            options = None
        elif ctype in (ChoiceConstraintType.UNORDERED, ChoiceConstraintType.UNORDERED_NOREPL) or rng.random() < 0.4:
            k = rng.randint(1, 5)
            options = [[NamedNode(f'o{i}_{j}') for j in range(k)] for i in range(nch)]
        else:
            options = [[NamedNode(f'o{i}_{j}') for j in range(rng.randint(1, 5))] for i in range(nch)]
        cc = ChoiceConstraint(ctype, nodes, options)
        perm = set(nodes) if rng.random() < 0.6 else set(rng.sample(nodes, rng.randint(0, nch)))
        yield ({'choice_constraint': cc, 'permanent_nodes': perm, 'ChoiceConstraintType': ChoiceConstraintType},
               (lambda cc=cc, perm=perm: get_constraint_pre_removed_options(cc, set(perm))), {},
               f'get_constraint_pre_removed_options({ctype.name}, option counts {None if options is None else [len(o) for o in options]}, '
               f'permanent {[str(p) for p in perm]})')


DOMAIN[PRE] = _domain_pre_removed
