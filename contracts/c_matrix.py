"""Sidecar contracts: adsg_core/optimization/assign_enc/matrix.py (C09, C03, C11)."""

F = 'adsg_core/optimization/assign_enc/matrix.py:'

# Statement-level validity of a connection count n for a node described by its settings row
# (row[0] = open-ended flag, row[1] = minimum, row[c+2] = 1 iff count c is allowed) and a per-existence maximum.
CHECK = ('n <= mx and ite(row[0] != 0, row[1] <= n, n + 2 < len(row) and row[n + 2] == 1)')

CONTRACTS = {
    F + '_check_conns': dict(
        properties=['C09'],
        types={'n_conns': 'Int', 'node_settings': 'Np1[Int]', 'max_conn': 'Int'},
        returns='Bool',
        requires={'nonneg': 'n_conns >= 0', 'row-header': 'len(node_settings) >= 2'},
        defs={'chk': (('n', 'row', 'mx'), CHECK)},
        ensures={'iff-spec': ('property', 'result == chk(n_conns, node_settings, max_conn)')},
        modifies=[],
    ),
    F + '_validate_matrix': dict(
        properties=['C09'],
        types={'matrix': 'Np2[Int]', 'max_conn_mat': 'Np2[Int]', 'src_node_settings': 'Np2[Int]',
               'tgt_node_settings': 'Np2[Int]', 'src_n_override': 'Np2[Int]', 'tgt_n_override': 'Np2[Int]',
               'max_src': 'Np1[Int]', 'max_tgt': 'Np1[Int]'},
        returns='Bool',
        requires={
            'shape-max': 'max_conn_mat.shape[0] == matrix.shape[0] and max_conn_mat.shape[1] == matrix.shape[1]',
            'shape-nonneg': 'matrix.shape[0] >= 0 and matrix.shape[1] >= 0',
            'shape-src': 'src_node_settings.shape[0] >= matrix.shape[0] and src_node_settings.shape[1] >= 2 and src_n_override.shape[0] >= matrix.shape[0] and len(max_src) >= matrix.shape[0] and src_n_override.shape[1] >= 0',
            # representation of the override tables (AggregateAssignmentMatrixGenerator._get_n_conn_override): a row is
            # either all -1 (node not overridden) or all 0/1 flags
            'override-rows': 'forall(i, 0, matrix.shape[0], forall(c, 0, src_n_override.shape[1], src_n_override[i, c] == -1) or forall(c, 0, src_n_override.shape[1], src_n_override[i, c] == 0 or src_n_override[i, c] == 1)) and '
                             'forall(j, 0, matrix.shape[1], forall(c, 0, tgt_n_override.shape[1], tgt_n_override[j, c] == -1) or forall(c, 0, tgt_n_override.shape[1], tgt_n_override[j, c] == 0 or tgt_n_override[j, c] == 1))',
            'shape-tgt': 'tgt_node_settings.shape[0] >= matrix.shape[1] and tgt_node_settings.shape[1] >= 2 and tgt_n_override.shape[0] >= matrix.shape[1] and len(max_tgt) >= matrix.shape[1] and tgt_n_override.shape[1] >= 0',
        },
        # lemma (sum of non-negative entries is non-negative); entries of a connection matrix are counts
        axioms={
            'L-rowsum-nonneg': 'forall(i, 0, matrix.shape[0], sum(matrix[i, :]) >= 0)',
            'L-colsum-nonneg': 'forall(j, 0, matrix.shape[1], sum(matrix[:, j]) >= 0)',
        },
        defs={
            'chk': (('n', 'row', 'mx'), CHECK),
            # statement level: a node whose admissible connection counts are overridden for this existence pattern
            # (table row of 0/1 flags; rows of -1 = no override) accepts exactly the listed counts -- counts beyond
            # the table are not listed; any other node is judged by its own settings
            'okS': (('i',), 'ite(src_n_override.shape[1] > 0 and src_n_override[i, 0] != -1, '
                            'sum(matrix[i, :]) < src_n_override.shape[1] and src_n_override[i, sum(matrix[i, :])] == 1, '
                            'chk(sum(matrix[i, :]), src_node_settings[i, :], max_src[i]))'),
            'okT': (('j',), 'ite(tgt_n_override.shape[1] > 0 and tgt_n_override[j, 0] != -1, '
                            'sum(matrix[:, j]) < tgt_n_override.shape[1] and tgt_n_override[j, sum(matrix[:, j])] == 1, '
                            'chk(sum(matrix[:, j]), tgt_node_settings[j, :], max_tgt[j]))'),
        },
        calls={'_check_conns': F + '_check_conns'},
        loops={
            'for i in range(matrix.shape[0])': dict(index='k', invariant={'src-ok-so-far': 'forall(a, 0, k, okS(a))'}),
            'for i in range(matrix.shape[1])': dict(index='k', invariant={
                'src-ok': 'forall(a, 0, matrix.shape[0], okS(a))', 'tgt-ok-so-far': 'forall(b, 0, k, okT(b))'}),
        },
        ensures={
            'iff-SPEC': ('property',
                         'result == ((forall(i, 0, matrix.shape[0], forall(j, 0, matrix.shape[1], matrix[i, j] <= max_conn_mat[i, j]))) '
                         'and forall(i, 0, matrix.shape[0], okS(i)) and forall(j, 0, matrix.shape[1], okT(j)))'),
        },
        modifies=[],
    ),
}


# ---------------------------------------------------------------- bounded domains (executable contract on real code)
def _rng():
    import os
    import random
    return random.Random(1000 + int(os.environ.get('VERIF_SEED', '0') or 0))


def _settings_row(rng, width):
    import numpy as np
    row = np.zeros((width,), dtype=np.int64)
    if rng.random() < 0.5:
        row[0] = 1
        row[1] = rng.randint(0, 2)
    else:
        for c in range(width - 2):
            row[c + 2] = rng.randint(0, 1)
    return row


def _domain_check_conns(n):
    import numpy as np
    from adsg_core.optimization.assign_enc.matrix import _check_conns
    rng = _rng()
    for _ in range(n):
        width = rng.randint(2, 6)
        row = _settings_row(rng, width)
        nc = rng.randint(0, 5)
        mx = rng.randint(0, 5)
        yield ({'n_conns': nc, 'node_settings': row, 'max_conn': mx},
               (lambda nc=nc, row=row, mx=mx: bool(_check_conns(nc, row, mx))), {},
               f'_check_conns({nc}, {row.tolist()}, {mx})')


def _domain_validate_matrix(n):
    import numpy as np
    from adsg_core.optimization.assign_enc.matrix import _validate_matrix
    rng = _rng()
    for _ in range(n * 6):      # cheap calls; the interesting region (count beyond a narrow override table) is thin
        n0, n1 = rng.randint(0, 2), rng.randint(0, 2)
        m = np.array([[rng.randint(0, 2) for _ in range(n1)] for _ in range(n0)], dtype=np.int64).reshape(n0, n1)
        mc = np.array([[rng.randint(0, 2) for _ in range(n1)] for _ in range(n0)], dtype=np.int64).reshape(n0, n1)
        w = rng.randint(2, 6)
        ss = np.array([_settings_row(rng, w) for _ in range(n0)], dtype=np.int64).reshape(n0, w)
        ts = np.array([_settings_row(rng, w) for _ in range(n1)], dtype=np.int64).reshape(n1, w)
        wo = rng.choice([0, 1, 1, 2, 2, 3, 4])     # narrow override tables: counts beyond the table are exercised
        def orow():
            return [-1] * wo if rng.random() < 0.35 else [rng.randint(0, 1) for _ in range(wo)]
        so = np.array([orow() for _ in range(n0)], dtype=np.int64).reshape(n0, wo)
        to = np.array([orow() for _ in range(n1)], dtype=np.int64).reshape(n1, wo)
        ms = np.array([rng.choice([0, 2, 3, 4, 4]) for _ in range(n0)], dtype=np.int64)
        mt = np.array([rng.choice([0, 2, 3, 4, 4]) for _ in range(n1)], dtype=np.int64)
        env = dict(matrix=m, max_conn_mat=mc, src_node_settings=ss, tgt_node_settings=ts, src_n_override=so,
                   tgt_n_override=to, max_src=ms, max_tgt=mt)
        yield (env, (lambda e=env: bool(_validate_matrix(e['matrix'], e['max_conn_mat'], e['src_node_settings'],
                                                         e['tgt_node_settings'], e['src_n_override'],
                                                         e['tgt_n_override'], e['max_src'], e['max_tgt']))), {},
               '_validate_matrix(' + ', '.join(f'{k}={v.tolist()}' for k, v in env.items()) + ')')


DOMAIN = {F + '_check_conns': _domain_check_conns, F + '_validate_matrix': _domain_validate_matrix}


# ---- segment of NodeExistence.get_effective_settings: excluded pairs remapped to the nodes that exist (C11, C09) ------
CLASSES = dict(globals().get('CLASSES', {}))
CLASSES['MatrixGenSettingsX'] = {}
PAIR = 'Tuple[Int,Int]'
CONTRACTS[F + 'NodeExistence.get_effective_settings@excluded-remap'] = dict(
    properties=['C11', 'C09', 'C01', 'C04'],
    types={'self': 'Ref', 'settings': 'Ref[MatrixGenSettingsX]'},
    start_at='excluded = []',
    stop_before='effective_settings = MatrixGenSettings(',
    live={'src_idx_map': 'Dict[Int,Int]', 'tgt_idx_map': 'Dict[Int,Int]'},
    ghost={'excl_in': f'List[{PAIR}]'},
    locals={'excluded': f'List[{PAIR}]'},
    post_locals=['excluded'],
    calls={'settings.get_excluded_indices': dict(params=[], returns=f'List[{PAIR}]', modifies=[], ensures=['result == excl_in'])},
    loops={'for i_src, i_tgt in settings.get_excluded_indices()': dict(index='k', invariant={
        'kept-so-far': f"forall('p:{PAIR}', (p in excluded) == exists(e, 0, k, excl_in[e][0] in src_idx_map and excl_in[e][1] in tgt_idx_map and p[0] == src_idx_map[excl_in[e][0]] and p[1] == tgt_idx_map[excl_in[e][1]]))",
    })},
    ensures={
        # every excluded pair whose two nodes exist in this pattern stays excluded (under the effective indices), and
        # nothing else becomes excluded
        'excluded-pairs-of-existing-nodes-kept-exactly': ('property',
            f"forall('p:{PAIR}', (p in final_excluded) == exists(e, 0, len(excl_in), excl_in[e][0] in src_idx_map and excl_in[e][1] in tgt_idx_map and p[0] == src_idx_map[excl_in[e][0]] and p[1] == tgt_idx_map[excl_in[e][1]]))"),
    },
    modifies=[],
    no_frame=True,
)


def _domain_excluded_remap(n):
    """The segment (cut out of the real source) run by CPython on small index maps and exclusion lists."""
    import random, os
    from pyvc.replay import segment_callable
    key = F + 'NodeExistence.get_effective_settings@excluded-remap'
    seg = segment_callable(key, CONTRACTS[key], os.environ.get('VERIF_REPO', '/repo'))
    rng = random.Random(8900 + int(os.environ.get('VERIF_SEED', '0') or 0))
    for _ in range(n):
        ns, nt = rng.randint(1, 4), rng.randint(1, 4)
        src_keep = sorted(rng.sample(range(ns), rng.randint(0, ns)))
        tgt_keep = sorted(rng.sample(range(nt), rng.randint(0, nt)))
        src_idx_map = {i: k for k, i in enumerate(src_keep)}
        tgt_idx_map = {j: k for k, j in enumerate(tgt_keep)}
        excl = [(rng.randrange(ns), rng.randrange(nt)) for _ in range(rng.randint(0, 4))]

        class S:
            def get_excluded_indices(self, excl=excl):
                return list(excl)
        st = S()
        env = {'self': None, 'settings': st, 'src_idx_map': src_idx_map, 'tgt_idx_map': tgt_idx_map, 'excl_in': list(excl)}
        uni = {PAIR: [(a, b) for a in range(-1, 5) for b in range(-1, 5)]}
        yield (env, (lambda st=st, s=src_idx_map, t=tgt_idx_map: seg(self=None, settings=st, src_idx_map=s, tgt_idx_map=t)), uni,
               f'get_effective_settings[excluded-remap segment](src_idx_map={src_idx_map}, tgt_idx_map={tgt_idx_map}, excluded={excl})')


DOMAIN[F + 'NodeExistence.get_effective_settings@excluded-remap'] = _domain_excluded_remap


# ---- MatrixGenSettings.get_max_conn_parallel: the parallel-connection limit that bounds every matrix entry (C09, C11) ---
CLASSES['NodeM'] = {'conns': 'Optional[List[Int]]', 'max_inf': ('expr', 'self.conns is None')}
CLASSES['MatrixGenSettingsP'] = {'src': 'List[Ref[NodeM]]', 'tgt': 'List[Ref[NodeM]]', 'max_conn_parallel': 'Optional[Int]'}
FIN_LE = 'forall(i, 0, len({L}), implies({L}[i].conns is not None, forall(c, 0, len({L}[i].conns), {L}[i].conns[c] <= {R})))'
FIN_HIT = 'exists(i, 0, len({L}), {L}[i].conns is not None and exists(c, 0, len({L}[i].conns), {L}[i].conns[c] == {R}))'
CONTRACTS[F + 'MatrixGenSettings.get_max_conn_parallel'] = dict(
    properties=['C09', 'C11'],
    types={'self': 'Ref[MatrixGenSettingsP]'},
    returns='Int',
    locals={'max_non_inf': 'Int', 'max_conn': 'Int'},
    requires={
        # Node.__init__ stores a sorted list; a node with an explicit empty list admits no degree at all
        'finite-degree-lists-nonempty': 'forall(i, 0, len(self.src), implies(self.src[i].conns is not None, len(self.src[i].conns) >= 1)) and '
                                        'forall(i, 0, len(self.tgt), implies(self.tgt[i].conns is not None, len(self.tgt[i].conns) >= 1))',
    },
    loops={
        'for nodes in [self.src, self.tgt]': dict(index='k', invariant={
            'at-least-two': 'max_non_inf >= 2',
            'src-covered': 'implies(k >= 1, ' + FIN_LE.format(L='self.src', R='max_non_inf') + ')',
            'tgt-covered': 'implies(k >= 2, ' + FIN_LE.format(L='self.tgt', R='max_non_inf') + ')',
            'attained': 'max_non_inf == 2 or (k >= 1 and ' + FIN_HIT.format(L='self.src', R='max_non_inf') + ') or (k >= 2 and ' + FIN_HIT.format(L='self.tgt', R='max_non_inf') + ')',
        }),
        'for node in nodes': dict(index='q', invariant={
            'at-least-two': 'max_non_inf >= 2',
            'src-covered': 'implies(k >= 1, ' + FIN_LE.format(L='self.src', R='max_non_inf') + ')',
            'this-list-covered-so-far': 'forall(i, 0, q, implies(nodes[i].conns is not None, forall(c, 0, len(nodes[i].conns), nodes[i].conns[c] <= max_non_inf)))',
            'attained': 'max_non_inf == 2 or (k >= 1 and ' + FIN_HIT.format(L='self.src', R='max_non_inf') + ') or exists(i, 0, q, nodes[i].conns is not None and exists(c, 0, len(nodes[i].conns), nodes[i].conns[c] == max_non_inf))',
        }),
    },
    ensures={
        'explicit-limit-at-least-one': ('property', 'implies(self.max_conn_parallel is not None, result == ite(self.max_conn_parallel > 1, self.max_conn_parallel, 1))'),
        'default-at-least-two': ('property', 'implies(self.max_conn_parallel is None, result >= 2)'),
        'default-admits-every-finite-source-degree': ('property', 'implies(self.max_conn_parallel is None, ' + FIN_LE.format(L='self.src', R='result') + ')'),
        'default-admits-every-finite-target-degree': ('property', 'implies(self.max_conn_parallel is None, ' + FIN_LE.format(L='self.tgt', R='result') + ')'),
        'default-is-tight': ('property', 'implies(self.max_conn_parallel is None, result == 2 or ' + FIN_HIT.format(L='self.src', R='result') + ' or ' + FIN_HIT.format(L='self.tgt', R='result') + ')'),
    },
    modifies=[],
)


def _domain_max_conn_parallel(n):
    from adsg_core.optimization.assign_enc.matrix import MatrixGenSettings, Node
    rng = _rng()

    def node():
        r = rng.random()
        if r < 0.3:
            return Node(min_conn=rng.randint(0, 3))
        if r < 0.6:
            lo = rng.randint(0, 3)
            return Node(min_conn=lo, max_conn=lo + rng.randint(0, 3))
        return Node(sorted(rng.sample(range(0, 7), rng.randint(1, 3))))
    for _ in range(n):
        s = MatrixGenSettings(src=[node() for _ in range(rng.randint(0, 3))], tgt=[node() for _ in range(rng.randint(0, 3))],
                              max_conn_parallel=rng.choice([None, None, None, -1, 0, 1, 2, 5]))
        yield ({'self': s}, (lambda s=s: s.get_max_conn_parallel()), {},
               f'MatrixGenSettings(src={s.src!r}, tgt={s.tgt!r}, max_conn_parallel={s.max_conn_parallel}).get_max_conn_parallel()')


DOMAIN[F + 'MatrixGenSettings.get_max_conn_parallel'] = _domain_max_conn_parallel
