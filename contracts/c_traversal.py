"""Sidecar contracts: adsg_core/graph/traversal.py, incompatibility.py (C02, C06, C17)."""

F = 'adsg_core/graph/traversal.py:'
I = 'adsg_core/graph/incompatibility.py:'

ENUMS = {'EdgeType': {'DERIVES': 1, 'CONNECTS': 2, 'INCOMPATIBILITY': 3, 'EXCLUDES': 4}}

EDGE = 'Tuple[Ref,Ref,Int,Enum[EdgeType]]'

CLASSES = {
    # T-nx: a MultiDiGraph is its node set and its set of (u, v, key, type) edges (the data dict reduced to its type)
    'NxGraph': {'edge_set': f'Set[{EDGE}]', 'nodes': 'Set[Ref]'},
    'ChoiceNode': {},
}

# E(u, v): a derivation or connection edge from u to v
E = "exists('k:Int', (u, v, k, EdgeType.DERIVES) in graph.edge_set or (u, v, k, EdgeType.CONNECTS) in graph.edge_set)"
CLOSED_S = ("forall('u:Ref', 'v:Ref', implies(u in S and (u in start_nodes or not isinstance(u, ChoiceNode)) and E(u, v) "
            "and not isinstance(v, ChoiceNode), v in S))")

ITER_OUT = dict(params=['graph', 'node'], types={}, returns=f'Set[{EDGE}]', modifies=[],
                # T-nx + graph_edges.iter_out_edges without edge_type filter: exactly the edges leaving `node`
                ensures=[f"forall('e:{EDGE}', (e in result) == (e in graph.edge_set and e[0] == node))"])
GET_TYPE = dict(params=['edge'], types={}, returns='Enum[EdgeType]', modifies=[], pure_expr='edge[3]')

ENSURES = {
    'N-shape': ('carrier', "forall('x:Ref', (x in result[0]) == (x in start_nodes or (x in T1 and not (x in T0) and not isinstance(x, ChoiceNode))))"),
    'C-shape': ('carrier', "forall('x:Ref', (x in result[1]) == (x in T1 and not (x in T0) and isinstance(x, ChoiceNode)))"),
    'frame-T': ('carrier', 'subset(T0, T1)'),
    'closed': ('property', "forall('u:Ref', 'v:Ref', implies(u in result[0] and E(u, v), v in T1))"),
    'least': ('property', f"implies(subset(start_nodes, S) and {CLOSED_S}, subset(result[0], S))"),
    'choice-has-confirmed-predecessor': ('property', "forall('c:Ref', implies(c in result[1], exists('u:Ref', u in result[0] and E(u, c))))"),
}

COMMON = dict(
    properties=['C02', 'C06', 'C17'],
    returns='Tuple[Set[Ref],Set[Ref]]',
    ghost={'S': 'Set[Ref]'},            # the arbitrary closed set (a free constant): N is contained in every such set
    locals={'next_nodes': 'Set[Ref]', 'choice_nodes': 'Set[Ref]', 'non_decision_nodes': 'Set[Ref]', 'traversed': 'Set[Ref]'},
    calls={'iter_out_edges': ITER_OUT, 'get_edge_type': GET_TYPE,
           'traverse_until_choice_nodes': F + 'traverse_until_choice_nodes@set'},
    loops={
        'for node in start_nodes': dict(processed='P', invariant={
            'successors-of-processed': "forall('v:Ref', (v in next_nodes) == exists('u:Ref', u in P and E(u, v)))"}),
        'for node in next_nodes': dict(processed='P', invariant={
            'choice-part': "forall('x:Ref', (x in choice_nodes) == (x in P and isinstance(x, ChoiceNode)))",
            'other-part': "forall('x:Ref', (x in non_decision_nodes) == (x in P and not isinstance(x, ChoiceNode)))"}),
    },
)

CONTRACTS = {
    # called with an explicit `traversed` set (the recursive call; InfluenceMatrix.choice_nodes): mutates it
    F + 'traverse_until_choice_nodes@set': dict(
        COMMON,
        types={'graph': 'Ref[NxGraph]', 'start_nodes': 'Set[Ref]', 'traversed': 'Set[Ref]'},
        defs={'E': (('u', 'v'), E), 'T0': ((), 'old(traversed)'), 'T1': ((), 'traversed')},
        ensures=ENSURES,
        modifies=['traversed'],
    ),
    # called without `traversed`: T0 = start_nodes, nothing of the caller is modified
    F + 'traverse_until_choice_nodes@none': dict(
        COMMON,
        types={'graph': 'Ref[NxGraph]', 'start_nodes': 'Set[Ref]', 'traversed': 'NoneT'},
        post_locals=['traversed'],
        defs={'E': (('u', 'v'), E), 'T0': ((), 'start_nodes'), 'T1': ((), 'final_traversed')},
        ensures=ENSURES,
        modifies=[],
    ),
}

CONTRACTS[F + 'traverse_until_choice_nodes@none']['ensures'] = dict(
    ENSURES,
    **{'closed-under-derivation': ('property', "forall('u:Ref', 'v:Ref', implies(u in result[0] and E(u, v) and not isinstance(v, ChoiceNode), v in result[0]))"),
       'reached-choices-collected': ('property', "forall('u:Ref', 'v:Ref', implies(u in result[0] and E(u, v) and isinstance(v, ChoiceNode), v in result[1] or v in start_nodes))"),
       'start-included': ('property', 'subset(start_nodes, result[0])')})


def _domain_traverse(n):
    import random, os
    import networkx as nx
    from adsg_core.graph.traversal import traverse_until_choice_nodes
    from adsg_core.graph.graph_edges import EdgeType, add_edge, HashableDict
    from adsg_core.graph.adsg_nodes import NamedNode, SelectionChoiceNode, ChoiceNode
    rng = random.Random(8000 + int(os.environ.get('VERIF_SEED', '0') or 0))
    types = [EdgeType.DERIVES, EdgeType.CONNECTS, EdgeType.INCOMPATIBILITY, EdgeType.EXCLUDES]
    for _ in range(n):
        nn = rng.randint(1, 7)
        nodes = [SelectionChoiceNode(f'c{i}') if rng.random() < 0.25 else NamedNode(f'n{i}') for i in range(nn)]
        g = nx.MultiDiGraph()
        g.edge_attr_dict_factory = HashableDict
        g.add_nodes_from(nodes)
        es = set()
        for _ in range(rng.randint(0, 10)):
            u, v = rng.choice(nodes), rng.choice(nodes)
            t = rng.choice(types)
            key = g.new_edge_key(u, v)
            add_edge(g, u, v, key=key, edge_type=t)
            es.add((u, v, key, t))
        g.edge_set = es
        start = set(rng.sample(nodes, rng.randint(1, min(2, nn))))
        # least set closed under derivation/connection edges from (start or non-choice) nodes to non-choice nodes
        S = set(start)
        changed = True
        while changed:
            changed = False
            for (u, v, k, t) in es:
                if t in (EdgeType.DERIVES, EdgeType.CONNECTS) and u in S and (u in start or not isinstance(u, ChoiceNode)) \
                        and not isinstance(v, ChoiceNode) and v not in S:
                    S.add(v)
                    changed = True
        env = {'graph': g, 'start_nodes': set(start), 'traversed': None, 'S': S, 'EdgeType': EdgeType, 'ChoiceNode': ChoiceNode}
        yield (env, (lambda g=g, start=start: traverse_until_choice_nodes(g, set(start))),
               {'Ref': nodes, 'Int': list(range(0, 4))},
               f'traverse_until_choice_nodes(nodes={[str(x) for x in nodes]}, edges={[(str(u), str(v), k, t.name) for u, v, k, t in es]}, start={[str(s) for s in start]})')


DOMAIN = {F + 'traverse_until_choice_nodes@none': _domain_traverse}

TRAV_NONE = F + 'traverse_until_choice_nodes@none'
# closure facts a caller gets from the traversal contract with T0 = start nodes (its N-shape / closed / least clauses)
CONTRACTS.update({
    F + 'get_non_confirmed_nodes': dict(
        properties=['C02', 'C17'],
        types={'graph': 'Ref[NxGraph]', 'start_nodes': 'Set[Ref]'},
        returns='Set[Ref]',
        ghost={'S': 'Set[Ref]'},
        defs={'E': (('u', 'v'), E)},
        calls={'traverse_until_choice_nodes': TRAV_NONE},
        locals={'confirmed_nodes': 'Set[Ref]'},
        post_locals=['confirmed_nodes'],
        ensures={
            'complement-of-confirmed': ('property', f"forall('x:Ref', implies(x in result, x in graph.nodes and not (x in start_nodes)))"),
            # exactly the nodes of the graph that the confirmed-node traversal did not reach: nothing confirmed is
            # reported (DSG.get_confirmed_graph / the permanent nodes of C17 rest on this), nothing unconfirmed is kept
            'exactly-the-unreached-nodes': ('property', "forall('x:Ref', (x in result) == (x in graph.nodes and not (x in final_confirmed_nodes)))"),
            'reached-are-the-closure': ('carrier', f"implies(subset(start_nodes, S) and {CLOSED_S}, subset(final_confirmed_nodes, S))"),
            'confirmed-kept': ('property', f"implies(subset(start_nodes, S) and {CLOSED_S}, forall('x:Ref', implies(x in graph.nodes and not (x in S), x in result)))"),
        },
        modifies=[],
    ),
    I + 'get_confirmed_incompatibility_edges': dict(
        properties=['C06', 'C02'],
        types={'graph': 'Ref[NxGraph]', 'start_nodes': 'Set[Ref]'},
        returns=f'Set[{EDGE}]',
        # shape of the incompatibility edges of a graph built through the API: a constraint is a pair of edges, one in
        # each direction (add_incompatibility_constraint); the marker of a choice left without options leaves a start
        # node. (The markers that an IncompatibilityError leaves behind are single edges between name-sorted end nodes:
        # graphs carrying those are outside this contract; the bounded layer of C06 walks them.) Under this shape it
        # does not matter whether the test looks at the source end only or at both ends; asking for BOTH ends to be
        # confirmed does.
        requires={'incompatibility-edges-are-pairs-or-leave-a-start-node':
                  f"forall('e:{EDGE}', implies(e in graph.edge_set and e[3] == EdgeType.INCOMPATIBILITY, e[0] in start_nodes or "
                  f"exists('f:{EDGE}', f in graph.edge_set and f[3] == EdgeType.INCOMPATIBILITY and f[0] == e[1] and f[1] == e[0])))"},
        ghost={'S': 'Set[Ref]'},
        locals={'edges': f'Set[{EDGE}]'},
        defs={'E': (('u', 'v'), E)},
        calls={'traverse_until_choice_nodes': TRAV_NONE,
               'iter_edges': dict(params=['graph'], types={}, returns=f'Set[{EDGE}]', modifies=[],
                                  ensures=[f"forall('e:{EDGE}', (e in result) == (e in graph.edge_set))"]),
               'get_edge_type': GET_TYPE,
               # _get_canonical_edge orders the two end nodes by name: some edge with the same two end nodes and type
               '_get_canonical_edge': dict(params=['edge'], types={}, returns=EDGE, modifies=[],
                                           ensures=['result[3] == edge[3]', '(result[0] == edge[0] and result[1] == edge[1]) or (result[0] == edge[1] and result[1] == edge[0])'])},
        loops={'for edge in iter_edges(graph)': dict(processed='P', invariant={
            'nonempty-iff-hit': f"(exists('r:{EDGE}', r in edges)) == exists('e:{EDGE}', e in P and e[3] == EdgeType.INCOMPATIBILITY and (e[0] in confirmed_nodes or e[1] in confirmed_nodes))",
        })},
        ensures={
            # statement of C06, not the code's exact test: an empty result means that no incompatibility edge joins
            # two confirmed nodes (confirmed = contained in every closed set S containing the start nodes)
            'empty-means-no-confirmed-pair': ('property',
                f"implies((not exists('r:{EDGE}', r in result)) and subset(start_nodes, S) and {CLOSED_S}, "
                f"forall('e:{EDGE}', implies(e in graph.edge_set and e[3] == EdgeType.INCOMPATIBILITY, not (e[0] in final_confirmed_nodes and e[1] in final_confirmed_nodes))))"),
            'nonempty-needs-a-confirmed-end': ('property',
                f"implies(exists('r:{EDGE}', r in result) and subset(start_nodes, S) and {CLOSED_S}, "
                f"exists('e:{EDGE}', e in graph.edge_set and e[3] == EdgeType.INCOMPATIBILITY and (e[0] in S or e[1] in S)))"),
            'confirmed-are-the-closure': ('carrier', f"implies(subset(start_nodes, S) and {CLOSED_S}, subset(final_confirmed_nodes, S))"),
            # what DSG.feasible relies on: an incompatibility edge is reported as soon as ONE of its ends is confirmed.
            # (the infeasibility marker that applying a choice leaves behind replaces the derivation edge between the
            # two ends, so its far end is not reachable any more: asking for both ends would report such a graph feasible)
            'every-incompatibility-edge-with-a-confirmed-end-is-reported': ('property',
                f"(exists('r:{EDGE}', r in result)) == exists('e:{EDGE}', e in graph.edge_set and e[3] == EdgeType.INCOMPATIBILITY and (e[0] in final_confirmed_nodes or e[1] in final_confirmed_nodes))"),
        },
        post_locals=['confirmed_nodes'],
        modifies=[],
    ),
})


# ----------------------------------------------------------------------------- incompatibility back-propagation (C06)
# DE(d, n): a derivation edge from d to n
DE = "exists('k:Int', (d, n, k, EdgeType.DERIVES) in graph.edge_set)"
CLASSES['SelectionChoiceNode'] = {}
ITER_IN_C = dict(params=['graph', 'node', 'cache'], types={}, returns=f'Set[{EDGE}]', modifies=[], assumed=True,
                 # T-nx + coherent cache: exactly the edges entering `node`
                 ensures=[f"forall('e:{EDGE}', (e in result) == (e in graph.edge_set and e[1] == node))"])
ITER_OUT_C = dict(params=['graph', 'node', 'cache'], types={}, returns=f'Set[{EDGE}]', modifies=[], assumed=True,
                  ensures=[f"forall('e:{EDGE}', (e in result) == (e in graph.edge_set and e[0] == node))"])
# covered(n, R): every node deriving n is in R, or is a selection-choice node (handled by the all-options rule)
COVERED = "forall('d:Ref', implies(DE(d, n), d in R or isinstance(d, SelectionChoiceNode)))"

CONTRACTS[I + 'get_incompatibility_deriving_nodes'] = dict(
    properties=['C06'],
    types={'graph': 'Ref[NxGraph]', 'target_node': 'Ref', 'confirmed_nodes': 'Set[Ref]',
           '_deriving_nodes': 'Optional[Set[Ref]]', 'cache': 'Ref'},
    returns='Set[Ref]',
    locals={'deriving_nodes': 'Set[Ref]', 'option_decision_nodes': 'Set[Ref]', 'option_nodes': 'Set[Ref]'},
    defs={'DE': (('d', 'n'), DE), 'covered': (('n', 'R'), COVERED),
          'inD0': (('x',), '_deriving_nodes is not None and x in _deriving_nodes')},
    calls={'iter_in_edges_cached': ITER_IN_C, 'iter_out_edges_cached': ITER_OUT_C, 'get_edge_type': GET_TYPE,
           'get_incompatibility_deriving_nodes': I + 'get_incompatibility_deriving_nodes'},
    loops={
        'for edge in iter_in_edges_cached(graph, target_node, cache=cache)': dict(processed='P', invariant={
            'grows': "target_node in deriving_nodes and forall('x:Ref', implies(inD0(x), x in deriving_nodes))",
            'processed-in-edges-covered': f"forall('e:{EDGE}', implies(e in P and e[3] == EdgeType.DERIVES, "
                                          "e[0] in deriving_nodes or (isinstance(e[0], SelectionChoiceNode) and e[0] in option_decision_nodes)))",
            'added-nodes-covered': "forall('n:Ref', implies(n in deriving_nodes and not inD0(n) and not (n in confirmed_nodes) "
                                   "and n != target_node, covered(n, deriving_nodes)))",
            'added-nodes-derive-a-collected-node': "forall('n:Ref', implies(n in deriving_nodes and not inD0(n) and n != target_node, "
                                                   "exists('m:Ref', DE(n, m) and m in deriving_nodes)))",
            'added-choices-lost-every-option': "forall('c:Ref', 'm:Ref', implies(c in deriving_nodes and not inD0(c) and c != target_node and "
                                               "not (c in confirmed_nodes) and isinstance(c, SelectionChoiceNode) and DE(c, m), m in deriving_nodes))",
            'choices-are-choices': "forall('c:Ref', implies(c in option_decision_nodes, isinstance(c, SelectionChoiceNode)))",
            'choices-derive-target': "forall('c:Ref', implies(c in option_decision_nodes, exists('k:Int', (c, target_node, k, EdgeType.DERIVES) in graph.edge_set)))",
        }),
        'for option_decision_node in option_decision_nodes': dict(processed='P2', invariant={
            'grows': "target_node in deriving_nodes and forall('x:Ref', implies(inD0(x), x in deriving_nodes))",
            'target-covered': "covered(target_node, deriving_nodes)",
            'added-nodes-covered': "forall('n:Ref', implies(n in deriving_nodes and not inD0(n) and not (n in confirmed_nodes) "
                                   "and n != target_node, covered(n, deriving_nodes)))",
            'added-nodes-derive-a-collected-node': "forall('n:Ref', implies(n in deriving_nodes and not inD0(n) and n != target_node, "
                                                   "exists('m:Ref', DE(n, m) and m in deriving_nodes)))",
            'added-choices-lost-every-option': "forall('c:Ref', 'm:Ref', implies(c in deriving_nodes and not inD0(c) and c != target_node and "
                                               "not (c in confirmed_nodes) and isinstance(c, SelectionChoiceNode) and DE(c, m), m in deriving_nodes))",
        }),
    },
    ensures={
        'target-and-given-nodes-included': ('carrier', "target_node in result and forall('x:Ref', implies(inD0(x), x in result))"),
        # statement of C06 (under-pruning direction): whatever derives the incompatible target -- through any of its
        # in-edges -- is collected, except through a selection choice that keeps another option
        'every-deriving-node-of-the-target-collected': ('property', "covered(target_node, result)"),
        'every-deriving-node-of-collected-nodes-collected': ('property',
            "forall('n:Ref', implies(n in result and not inD0(n) and not (n in confirmed_nodes) and n != target_node, covered(n, result)))"),
        # over-pruning direction: nothing is collected that does not derive a collected node, and a selection choice is
        # collected only when every one of its options is
        'collected-nodes-derive-a-collected-node': ('property',
            "forall('n:Ref', implies(n in result and not inD0(n) and n != target_node, exists('m:Ref', DE(n, m) and m in result)))"),
        'collected-choices-lost-every-option': ('property',
            "forall('c:Ref', 'm:Ref', implies(c in result and not inD0(c) and c != target_node and not (c in confirmed_nodes) "
            "and isinstance(c, SelectionChoiceNode) and DE(c, m), m in result))"),
    },
    modifies=[],
)


def _domain_deriving(n):
    import random, os
    import networkx as nx
    from adsg_core.graph.incompatibility import get_incompatibility_deriving_nodes
    from adsg_core.graph.graph_edges import EdgeType, add_edge, HashableDict
    from adsg_core.graph.adsg_nodes import NamedNode, SelectionChoiceNode
    rng = random.Random(8100 + int(os.environ.get('VERIF_SEED', '0') or 0))
    types = [EdgeType.DERIVES, EdgeType.DERIVES, EdgeType.DERIVES, EdgeType.CONNECTS, EdgeType.INCOMPATIBILITY]
    for _ in range(n):
        nn = rng.randint(2, 8)
        nodes = [SelectionChoiceNode(f'c{i}') if rng.random() < 0.3 else NamedNode(f'n{i}') for i in range(nn)]
        g = nx.MultiDiGraph()
        g.edge_attr_dict_factory = HashableDict
        g.add_nodes_from(nodes)
        es = set()
        for _ in range(rng.randint(1, 12)):
            u, v = rng.choice(nodes), rng.choice(nodes)
            if isinstance(u, SelectionChoiceNode) and isinstance(v, SelectionChoiceNode):
                continue
            t = rng.choice(types)
            key = g.new_edge_key(u, v)
            add_edge(g, u, v, key=key, edge_type=t)
            es.add((u, v, key, t))
        g.edge_set = es
        target = rng.choice(nodes)
        confirmed = set(x for x in nodes if x is not target and rng.random() < 0.2)
        cache = {} if rng.random() < 0.5 else None
        env = {'graph': g, 'target_node': target, 'confirmed_nodes': set(confirmed), '_deriving_nodes': None, 'cache': cache,
               'EdgeType': EdgeType, 'SelectionChoiceNode': SelectionChoiceNode}
        yield (env, (lambda g=g, target=target, confirmed=confirmed, cache=cache:
                     get_incompatibility_deriving_nodes(g, target, set(confirmed), cache=cache)),
               {'Ref': nodes, 'Int': list(range(0, 4))},
               f'get_incompatibility_deriving_nodes(nodes={[str(x) for x in nodes]}, edges={[(str(u), str(v), k, t.name) for u, v, k, t in es]}, '
               f'target={target!s}, confirmed={[str(c) for c in confirmed]})')


DOMAIN[I + 'get_incompatibility_deriving_nodes'] = _domain_deriving


# first half of get_mod_nodes_remove_incompatibilities: which nodes go because they are incompatible with a confirmed
# node, and when the graph is declared infeasible (C06). The second half (derived / deriving nodes of each target) calls
# get_derived_edges_for_edge/_node, which are not under contract, and get_incompatibility_deriving_nodes (above).
CONTRACTS[I + 'get_mod_nodes_remove_incompatibilities@confirmed-pairs'] = dict(
    properties=['C06'],
    stop_before='if removed_edges is None:',
    types={'graph': 'Ref[NxGraph]', 'start_nodes': 'Set[Ref]', 'removed_edges': f'Optional[Set[{EDGE}]]', 'cache': 'Ref'},
    returns='Set[Ref]',
    ghost={'S': 'Set[Ref]'},
    locals={'removed_nodes': 'Set[Ref]', 'confirmed_incompatibility_edges': f'Set[{EDGE}]',
            'infeasible_incompatibility_edges': f'Set[{EDGE}]', 'confirmed_nodes': 'Set[Ref]'},
    defs={'E': (('u', 'v'), E),
          'INC': (('e',), 'e in graph.edge_set and e[3] == EdgeType.INCOMPATIBILITY')},
    calls={'traverse_until_choice_nodes': TRAV_NONE,
           'iter_edges': dict(params=['graph'], types={}, returns=f'Set[{EDGE}]', modifies=[],
                              ensures=[f"forall('e:{EDGE}', (e in result) == (e in graph.edge_set))"]),
           'get_edge_type': GET_TYPE,
           'IncompatibilityError': dict(params=['msg', 'edges', 'removed_nodes'], types={}, returns='Ref', modifies=[], ctor=True, cls='IncompatibilityError')},
    loops={'for edge in iter_edges(graph)': dict(processed='P', invariant={
        'infeasible-are-confirmed-pairs': f"forall('e:{EDGE}', (e in infeasible_incompatibility_edges) == (e in P and e[3] == EdgeType.INCOMPATIBILITY and e[0] in confirmed_nodes and e[1] in confirmed_nodes))",
        'confirmed-source-edges': f"forall('e:{EDGE}', (e in confirmed_incompatibility_edges) == (e in P and e[3] == EdgeType.INCOMPATIBILITY and e[0] in confirmed_nodes and not (e[1] in confirmed_nodes)))",
        'their-targets-go': f"forall('x:Ref', (x in removed_nodes) == exists('e:{EDGE}', e in P and e[3] == EdgeType.INCOMPATIBILITY and e[0] in confirmed_nodes and not (e[1] in confirmed_nodes) and e[1] == x))",
    })},
    # statement of C06: both ends confirmed (= in every closed set containing the start nodes) <=> infeasible
    must_raise={'confirmed-pair': ('IncompatibilityError',
                f"exists('e:{EDGE}', INC(e) and e[0] in start_nodes and e[1] in start_nodes)")},
    may_raise=['IncompatibilityError'],
    ensures={
        'no-confirmed-pair-left': ('property',
            f"implies(subset(start_nodes, S) and {CLOSED_S}, forall('e:{EDGE}', implies(INC(e), not (e[0] in final_confirmed_nodes and e[1] in final_confirmed_nodes))))"),
        'targets-of-confirmed-nodes-removed': ('property',
            f"forall('e:{EDGE}', implies(INC(e) and e[0] in final_confirmed_nodes, e[1] in final_removed_nodes))"),
        'nothing-confirmed-removed': ('property', "forall('x:Ref', implies(x in final_removed_nodes, not (x in final_confirmed_nodes)))"),
        'only-incompatible-nodes-removed': ('property',
            f"forall('x:Ref', implies(x in final_removed_nodes, exists('e:{EDGE}', INC(e) and e[0] in final_confirmed_nodes and e[1] == x)))"),
        'confirmed-are-the-closure': ('carrier', f"implies(subset(start_nodes, S) and {CLOSED_S}, subset(final_confirmed_nodes, S))"),
    },
    post_locals=['confirmed_nodes', 'removed_nodes'],
    modifies=[],
)


def _domain_remove_incompat(n):
    """The segment itself (cut out of the real source up to the stop statement) run by CPython on small real graphs."""
    import random, os
    import networkx as nx
    from pyvc.replay import segment_callable
    from adsg_core.graph.graph_edges import EdgeType, add_edge, HashableDict
    from adsg_core.graph.adsg_nodes import NamedNode, SelectionChoiceNode, ChoiceNode
    key = I + 'get_mod_nodes_remove_incompatibilities@confirmed-pairs'
    seg = segment_callable(key, CONTRACTS[key], os.environ.get('VERIF_REPO', '/repo'))
    rng = random.Random(8500 + int(os.environ.get('VERIF_SEED', '0') or 0))
    types = [EdgeType.DERIVES, EdgeType.DERIVES, EdgeType.INCOMPATIBILITY, EdgeType.INCOMPATIBILITY, EdgeType.CONNECTS]
    for _ in range(n):
        nn = rng.randint(2, 7)
        nodes = [SelectionChoiceNode(f'c{i}') if rng.random() < 0.2 else NamedNode(f'n{i}') for i in range(nn)]
        g = nx.MultiDiGraph()
        g.edge_attr_dict_factory = HashableDict
        g.add_nodes_from(nodes)
        es = set()
        for _ in range(rng.randint(1, 9)):
            u, v = rng.sample(nodes, 2)
            t = rng.choice(types)
            key_ = g.new_edge_key(u, v)
            add_edge(g, u, v, key=key_, edge_type=t)
            es.add((u, v, key_, t))
            if t == EdgeType.INCOMPATIBILITY and rng.random() < 0.8:      # the library adds both directions
                key_ = g.new_edge_key(v, u)
                add_edge(g, v, u, key=key_, edge_type=t)
                es.add((v, u, key_, t))
        g.edge_set = es
        start = set(rng.sample(nodes, rng.randint(1, min(2, nn))))
        S = set(start)
        changed = True
        while changed:
            changed = False
            for (u, v, k, t) in es:
                if t in (EdgeType.DERIVES, EdgeType.CONNECTS) and u in S and (u in start or not isinstance(u, ChoiceNode)) \
                        and not isinstance(v, ChoiceNode) and v not in S:
                    S.add(v)
                    changed = True
        env = {'graph': g, 'start_nodes': set(start), 'removed_edges': None, 'cache': None, 'S': S, 'EdgeType': EdgeType,
               'ChoiceNode': ChoiceNode}
        yield (env, (lambda g=g, start=start: seg(graph=g, start_nodes=set(start), removed_edges=None, cache=None)),
               {'Ref': nodes, 'Int': [0, 1, 2], EDGE: list(es)},
               f'get_mod_nodes_remove_incompatibilities[segment](edges={[(str(u), str(v), k, t.name) for u, v, k, t in es]}, start={[str(x) for x in start]})')


DOMAIN[I + 'get_mod_nodes_remove_incompatibilities@confirmed-pairs'] = _domain_remove_incompat


def _domain_non_confirmed(n):
    from adsg_core.graph.traversal import get_non_confirmed_nodes, traverse_until_choice_nodes
    for env, call, uni, desc in _domain_traverse(n):
        g, start = env['graph'], env['start_nodes']
        env = dict(env)
        # the local `confirmed_nodes` as a separate real call of the callee yields it
        env['final_confirmed_nodes'] = traverse_until_choice_nodes(g, set(start))[0]
        yield (env, (lambda g=g, start=start: get_non_confirmed_nodes(g, set(start))), uni,
               desc.replace('traverse_until_choice_nodes(', 'get_non_confirmed_nodes('))


DOMAIN[F + 'get_non_confirmed_nodes'] = _domain_non_confirmed


def _domain_confirmed_incompat(n):
    import random, os
    import networkx as nx
    from pyvc.replay import segment_callable
    from adsg_core.graph.graph_edges import EdgeType, add_edge, HashableDict, get_edge_type
    from adsg_core.graph.adsg_nodes import NamedNode, SelectionChoiceNode
    key = I + 'get_confirmed_incompatibility_edges'
    seg = segment_callable(key, dict(CONTRACTS[key], stop_before='return edges'), os.environ.get('VERIF_REPO', '/repo'))
    rng = random.Random(8300 + int(os.environ.get('VERIF_SEED', '0') or 0))
    types = [EdgeType.DERIVES, EdgeType.DERIVES, EdgeType.DERIVES, EdgeType.CONNECTS, EdgeType.INCOMPATIBILITY, EdgeType.INCOMPATIBILITY]
    for _ in range(n):
        nn = rng.randint(2, 8)
        nodes = [SelectionChoiceNode(f'c{i}') if rng.random() < 0.25 else NamedNode(f'n{i}') for i in range(nn)]
        g = nx.MultiDiGraph()
        g.edge_attr_dict_factory = HashableDict
        g.add_nodes_from(nodes)
        es = set()
        plain = [x for x in nodes if not isinstance(x, SelectionChoiceNode)]
        if not plain:
            continue
        start = set(rng.sample(plain, rng.randint(1, min(2, len(plain)))))

        def put(u, v, t):
            key_ = g.new_edge_key(u, v)
            add_edge(g, u, v, key=key_, edge_type=t)
            es.add((u, v, key_, t))
        for _ in range(rng.randint(1, 12)):
            u, v = rng.choice(nodes), rng.choice(nodes)
            if u is v or (isinstance(u, SelectionChoiceNode) and isinstance(v, SelectionChoiceNode)):
                continue
            t = rng.choice(types)
            if t == EdgeType.INCOMPATIBILITY:
                if rng.random() < 0.8:
                    put(u, v, t)        # a constraint: one edge in each direction
                    put(v, u, t)
                else:
                    put(rng.choice(sorted(start, key=str)), v, t)     # marker leaving a start node
            else:
                put(u, v, t)
        g.edge_set = es
        env = {'graph': g, 'start_nodes': set(start), 'EdgeType': EdgeType, 'SelectionChoiceNode': SelectionChoiceNode}

        def call(g=g, start=start):
            r = seg(graph=g, start_nodes=set(start))
            # the segment stops at `return edges`; edge data reduced to its type, as the contract's edge tuples
            r.value = {(e[0], e[1], e[2], get_edge_type(e)) for e in r.locals.get('edges')}
            return r
        yield (env, call, {'Ref': nodes, EDGE: list(set(es) | {(a, b, 0, t) for u, v, k, t in es if t == EdgeType.INCOMPATIBILITY for a, b in ((u, v), (v, u))})},
               f'get_confirmed_incompatibility_edges(nodes={[str(x) for x in nodes]}, edges={[(str(u), str(v), k, t.name) for u, v, k, t in es]}, '
               f'start={[str(c) for c in start]})')


DOMAIN[I + 'get_confirmed_incompatibility_edges'] = _domain_confirmed_incompat


# in-edges of a node that still derive it, given what has been removed so far (C02, C06: every derivation walk and
# the upstream search of the incompatibility removal ask this for the SAME node with DIFFERENT removed sets)
CONTRACTS[F + 'get_deriving_in_edges'] = dict(
    properties=['C02', 'C06'],
    types={'graph': 'Ref[NxGraph]', 'node': 'Ref', 'removed_edges': f'Optional[Set[{EDGE}]]', 'removed_nodes': 'Optional[Set[Ref]]',
           'edge_type': 'Optional[Enum[EdgeType]]', 'cache': 'Ref'},
    returns=f'Set[{EDGE}]',
    locals={'in_edges': f'Set[{EDGE}]', 'deriving_edge_types': 'Set[Optional[Enum[EdgeType]]]',
            'removed_edges': f'Optional[Set[{EDGE}]]', 'removed_nodes': 'Optional[Set[Ref]]'},
    calls={'iter_in_edges_cached': ITER_IN_C,
           'get_edge_type': dict(params=['edge', 'default'], types={}, returns='Enum[EdgeType]', modifies=[], pure_expr='edge[3]')},
    loops={'for edge in iter_in_edges_cached(graph, node, cache=cache)': dict(processed='P', invariant={
        'kept-so-far': f"forall('e:{EDGE}', (e in in_edges) == (e in P and not (removed_nodes is not None and e[0] in removed_nodes) and "
                       "not (removed_edges is not None and e in removed_edges) and (e[3] == EdgeType.DERIVES or (edge_type is not None and e[3] == edge_type))))",
    })},
    ensures={
        'exactly-the-in-edges-that-still-derive': ('property',
            f"forall('e:{EDGE}', (e in result) == (e in graph.edge_set and e[1] == node and not (removed_nodes is not None and e[0] in removed_nodes) and "
            "not (removed_edges is not None and e in removed_edges) and (e[3] == EdgeType.DERIVES or (edge_type is not None and e[3] == edge_type))))"),
    },
    modifies=[],
)


def _domain_deriving_in_edges(n):
    """Successive calls for the same graph share one `cache` dict (as the derivation walks do), with different removed
    sets per call."""
    import random, os
    import networkx as nx
    from adsg_core.graph.traversal import get_deriving_in_edges
    from adsg_core.graph.graph_edges import EdgeType, add_edge, HashableDict, get_edge_type
    from adsg_core.graph.adsg_nodes import NamedNode
    rng = random.Random(8400 + int(os.environ.get('VERIF_SEED', '0') or 0))
    types = [EdgeType.DERIVES, EdgeType.DERIVES, EdgeType.DERIVES, EdgeType.CONNECTS, EdgeType.INCOMPATIBILITY, EdgeType.EXCLUDES]
    made = 0
    while made < n:
        nn = rng.randint(2, 6)
        nodes = [NamedNode(f'n{i}') for i in range(nn)]
        g = nx.MultiDiGraph()
        g.edge_attr_dict_factory = HashableDict
        g.add_nodes_from(nodes)
        for _ in range(rng.randint(2, 12)):
            u, v = rng.sample(nodes, 2)
            add_edge(g, u, v, key=g.new_edge_key(u, v), edge_type=rng.choice(types))
        real = list(g.edges(keys=True, data=True))
        red = {e: (e[0], e[1], e[2], get_edge_type(e)) for e in real}
        g.edge_set = set(red.values())
        cache = {}
        for _ in range(4):
            node = rng.choice(nodes)
            rem_e = None if rng.random() < 0.3 else {e for e in real if rng.random() < 0.3}
            rem_n = None if rng.random() < 0.3 else {x for x in nodes if rng.random() < 0.25}
            et = rng.choice([None, None, EdgeType.CONNECTS, EdgeType.EXCLUDES])
            use_cache = cache if rng.random() < 0.8 else None
            env = {'graph': g, 'node': node, 'removed_edges': None if rem_e is None else {red[e] for e in rem_e},
                   'removed_nodes': None if rem_n is None else set(rem_n), 'edge_type': et, 'cache': use_cache, 'EdgeType': EdgeType}

            def call(g=g, node=node, rem_e=rem_e, rem_n=rem_n, et=et, use_cache=use_cache):
                r = get_deriving_in_edges(g, node, removed_edges=None if rem_e is None else set(rem_e),
                                          removed_nodes=None if rem_n is None else set(rem_n), edge_type=et, cache=use_cache)
                return {(e[0], e[1], e[2], get_edge_type(e)) for e in r}
            made += 1
            yield (env, call, {'Ref': nodes, EDGE: list(g.edge_set)},
                   f'get_deriving_in_edges(edges={[(str(a), str(b), k, t.name) for a, b, k, t in g.edge_set]}, node={node}, '
                   f'removed_edges={None if rem_e is None else [(str(e[0]), str(e[1]), e[2]) for e in rem_e]}, '
                   f'removed_nodes={None if rem_n is None else [str(x) for x in rem_n]}, edge_type={et}, '
                   f'cache={"shared with the earlier calls on this graph" if use_cache is not None else None})')


DOMAIN[F + 'get_deriving_in_edges'] = _domain_deriving_in_edges
