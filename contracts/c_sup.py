"""Sidecar contracts: adsg_core/graph/sup/dsg.py (C20)."""

F = 'adsg_core/graph/sup/dsg.py:'

CLASSES = {
    # `_mapping` is an insertion-ordered dict: ODict = the sequence of its (key, value) items, keys pairwise distinct
    'SupExistenceMapping': {'_mapping': 'ODict[Optional[Ref],Ref]'},
    'SrcDSG': {'graph': 'Ref[NxGraph]'},
    'DSGNode': {},
    'SelectionChoiceNode': {},
    'SupDSGX': {},
}

CTX = dict(params=['node'], types={}, returns='Str', modifies=[], pure_expr='ctx(node)')

CONTRACTS = {
    F + 'SupExistenceMapping.resolve': dict(
        properties=['C20'],
        types={'self': 'Ref[SupExistenceMapping]', 'sup_dsg': 'Ref[SupDSGX]', 'sup_choice_node': 'Ref', 'src_dsg': 'Ref[SrcDSG]'},
        returns='Ref',
        funcs={'ctx': (['Ref'], 'Str')},           # node.str_context(): an arbitrary function of the node
        locals={'src_nodes': 'Set[Str]', 'sup_tgt_option_node': 'Optional[Ref]'},
        post_locals=['sup_tgt_option_node'],
        requires={'keys-distinct': 'forall(a, 0, len(self._mapping.items_list), forall(b, 0, len(self._mapping.items_list), implies(a != b, self._mapping.items_list[a][0] != self._mapping.items_list[b][0])))',
                  'none-case-mapped': 'None in self._mapping',
                  'selection-choice': 'isinstance(sup_choice_node, SelectionChoiceNode)'},
        defs={'exists_in_src': (('n',), "exists('m:Ref', m in src_dsg.graph.nodes and isinstance(m, DSGNode) and ctx(m) == ctx(n))")},
        calls={
            'src_node.str_context': dict(params=[], returns='Str', modifies=[], receiver='src_node', pure_expr='ctx(src_node)'),
            'node.str_context': dict(params=[], returns='Str', modifies=[], receiver='node', pure_expr='ctx(node)'),
            # the applied option is passed on unchanged (C02's contract decides what applying does)
            'sup_dsg.get_for_apply_selection_choice': dict(params=['choice', 'option'], returns='Ref', modifies=[], assumed=True),
        },
        loops={'for src_node, sup_option_node in self._mapping.items()': dict(index='k', invariant={
            'none-existing-so-far': 'forall(j, 0, k, self._mapping.items_list[j][0] is None or not exists_in_src(self._mapping.items_list[j][0]))',
            'nothing-chosen-yet': 'sup_tgt_option_node is None',
        })},
        ensures={
            'first-existing-node-decides': ('property',
                'forall(j, 0, len(self._mapping.items_list), implies(self._mapping.items_list[j][0] is not None and exists_in_src(self._mapping.items_list[j][0]) and '
                'forall(i, 0, j, self._mapping.items_list[i][0] is None or not exists_in_src(self._mapping.items_list[i][0])), final_sup_tgt_option_node == self._mapping.items_list[j][1]))'),
            'none-case-when-no-node-exists': ('property',
                'implies(forall(j, 0, len(self._mapping.items_list), self._mapping.items_list[j][0] is None or not (exists_in_src(self._mapping.items_list[j][0]))), final_sup_tgt_option_node == self._mapping[None])'),
        },
        modifies=[],
    ),
}

CLASSES['SupDSGX'] = {'_choice_mappings': 'List[Tuple[Ref,Ref]]', 'choice_nodes': 'List[Ref]'}

DUP = 'exists(a, 0, hi, exists(b, 0, hi, a < b and self._choice_mappings[a][0] == self._choice_mappings[b][0]))'

CONTRACTS[F + 'SupDSG.initialize_choices'] = dict(
    properties=['C20'],
    types={'self': 'Ref[SupDSGX]'},
    returns='Ref',
    locals={'mapped_choice_nodes': 'Set[Ref]', 'dup_mapped': 'List[Ref]', 'unmapped_choice_nodes': 'Set[Ref]'},
    defs={'dup': (('hi',), DUP)},
    set_defs='named',      # sets built by set operators become named constants with a defining axiom (helps `len(set)`)
    calls={'super().initialize_choices': dict(params=[], returns='Ref', modifies=[], assumed=True)},
    loops={'for choice_node, _ in self._choice_mappings': dict(index='k', invariant={
        'mapped-set': "forall('c:Ref', (c in mapped_choice_nodes) == exists(j, 0, k, self._choice_mappings[j][0] == c))",
        'dup-flag': '(len(dup_mapped) > 0) == dup(k)',
    })},
    raises={
        'duplicate-mapping-rejected': ('RuntimeError', 'dup(len(self._choice_mappings))'),
        'unmapped-choice-rejected': ('RuntimeError', 'not dup(len(self._choice_mappings)) and exists(i, 0, len(self.choice_nodes), forall(j, 0, len(self._choice_mappings), self._choice_mappings[j][0] != self.choice_nodes[i]))'),
    },
    ensures={},
    modifies=[],
)

CLASSES['SrcDSG'].update({'final': 'Bool', 'feasible': 'Bool'})
CLASSES['SupDSGX'].update({'choice_mappings': 'List[Tuple[Ref,Ref[SupChoiceMappingX]]]', 'graph': 'Ref[NxGraph]', 'final': 'Bool'})
CLASSES['SupChoiceMappingX'] = {}
METHODS = {
    # abstract mapping: resolves to some supplementary graph or fails (SupResolveError is a RuntimeError)
    ('SupChoiceMappingX', 'resolve'): dict(params=['self', 'sup_dsg', 'sup_choice_node', 'src_dsg'], types={},
                                           returns='Ref[SupDSGX]', modifies=[], raises={'resolve-error': ('RuntimeError', 'nondet()')}),
}

CONTRACTS[F + 'SupDSG.resolve'] = dict(
    properties=['C20'],
    types={'self': 'Ref[SupDSGX]', 'src_dsg': 'Ref[SrcDSG]'},
    returns='Ref[SupDSGX]',
    locals={'sup_dsg': 'Ref[SupDSGX]'},
    loops={'for choice_node, choice_mapping in self.choice_mappings': dict(index='k', invariant={})},
    may_raise=['RuntimeError'],
    must_raise={'non-final-or-infeasible-source-rejected': ('RuntimeError', 'not src_dsg.final or not src_dsg.feasible')},
    ensures={'result-final': ('property', 'result.final')},
    modifies=[],
    unchanged_on_raise=False,
)


# ---------------------------------------------------------------- SupSelChoiceOptionMapping.resolve (C20)
from .c_traversal import EDGE          # noqa: E402
from .c_choices import ITER_OUT_T      # noqa: E402

ENUMS = {'EdgeType': {'DERIVES': 1, 'CONNECTS': 2, 'EXCLUDES': 3, 'INCOMPATIBILITY': 4}}
CLASSES['NxGraph'] = {'edge_set': f'Set[{EDGE}]', 'nodes': 'Set[Ref]'}
CLASSES['SupSelChoiceOptionMapping'] = {'_src_choice_originating_node': 'Optional[Ref]', '_src_choice_node': 'Ref',
                                        '_mapping': 'ODict[Optional[Ref],Ref]'}

ITEMS = 'self._mapping.items_list'
# the option of the source choice that is wired to the originating node (derivation edge) and is a key of the mapping
TAKEN = f"(exists('e:{EDGE}', e in src_dsg.graph.edge_set and e[0] == self._src_choice_originating_node and e[3] == EdgeType.DERIVES and e[1] == {ITEMS}[j][0]))"

CONTRACTS[F + 'SupSelChoiceOptionMapping.resolve'] = dict(
    properties=['C20'],
    types={'self': 'Ref[SupSelChoiceOptionMapping]', 'sup_dsg': 'Ref[SupDSGX]', 'sup_choice_node': 'Ref', 'src_dsg': 'Ref[SrcDSG]'},
    returns='Ref',
    funcs={'ctx': (['Ref'], 'Str')},
    locals={'src_nodes': 'Set[Str]', 'sup_tgt_option_node': 'Ref', 'originating_out_nodes': 'Set[Ref]',
            'src_selected_opt_nodes': 'Set[Ref]', 'mapping_ctx': 'Dict[Str,Ref]'},
    post_locals=['sup_tgt_option_node'],
    requires={
        'initialized': 'self._src_choice_originating_node is not None',
        'selection-choice': 'isinstance(sup_choice_node, SelectionChoiceNode)',
        'keys-distinct': f'forall(a, 0, len({ITEMS}), forall(b, 0, len({ITEMS}), implies(a != b, {ITEMS}[a][0] != {ITEMS}[b][0])))',
        # two mapped options are told apart by their context string (str_context is the node's identity across
        # copies of the source graph)
        'contexts-distinct': f'forall(a, 0, len({ITEMS}), forall(b, 0, len({ITEMS}), implies(a != b and {ITEMS}[a][0] is not None and {ITEMS}[b][0] is not None, ctx({ITEMS}[a][0]) != ctx({ITEMS}[b][0]))))',
        'originating-node-is-a-node': 'isinstance(self._src_choice_originating_node, DSGNode)',
    },
    defs={
        'active': ((), "exists('m:Ref', m in src_dsg.graph.nodes and isinstance(m, DSGNode) and ctx(m) == ctx(self._src_choice_originating_node))"),
        'taken': (('j',), f'{ITEMS}[j][0] is not None and {TAKEN}'),
    },
    calls={
        'node.str_context': dict(params=[], returns='Str', modifies=[], receiver='node', pure_expr='ctx(node)'),
        'src_originating_node.str_context': dict(params=[], returns='Str', modifies=[], receiver='src_originating_node', pure_expr='ctx(src_originating_node)'),
        'list(src_selected_opt_nodes)[0].str_context': dict(params=[], returns='Str', modifies=[], receiver='list(src_selected_opt_nodes)[0]', pure_expr='ctx(list(src_selected_opt_nodes)[0])'),
        'iter_out_edges': ITER_OUT_T,
        'sup_dsg.get_for_apply_selection_choice': dict(params=['choice', 'option'], returns='Ref', modifies=[], assumed=True),
    },
    may_raise=['SupResolveError'],
    must_raise={
        'inactive-without-none-entry': ('SupResolveError', 'not active() and None not in self._mapping'),
        'no-mapped-option-taken': ('SupResolveError', f'active() and forall(j, 0, len({ITEMS}), not taken(j))'),
        'two-mapped-options-taken': ('SupResolveError', f'active() and exists(a, 0, len({ITEMS}), exists(b, 0, len({ITEMS}), a != b and taken(a) and taken(b)))'),
    },
    ensures={
        'inactive-source-choice-takes-the-none-entry': ('property', 'implies(not active(), final_sup_tgt_option_node == self._mapping[None])'),
        'taken-option-decides': ('property', f'implies(active(), forall(j, 0, len({ITEMS}), implies(taken(j), final_sup_tgt_option_node == {ITEMS}[j][1])))'),
        # the mapping serves every later resolution as well (the frame says the same; this clause is the executable form)
        'mapping-left-as-it-was': ('property', f'len({ITEMS}) == len(old({ITEMS})) and forall(j, 0, len({ITEMS}), {ITEMS}[j][0] == old({ITEMS})[j][0] and {ITEMS}[j][1] == old({ITEMS})[j][1])'),
    },
    modifies=[],
    unchanged_on_raise=False,
)


# ---------------------------------------------------------------- bounded domain (executable contract on real code)
class _ItemsDict(dict):
    @property
    def items_list(self):
        return list(self.items())


def _domain_sel_option_mapping(n):
    import os
    import random
    from pyvc.replay import segment_callable
    from adsg_core.graph.adsg_basic import BasicDSG
    from adsg_core.graph.adsg_nodes import NamedNode, DSGNode, SelectionChoiceNode, DesignVariableNode
    from adsg_core.graph.graph_edges import EdgeType, get_edge_type
    from adsg_core.graph.sup.dsg import SupSelChoiceOptionMapping
    key = F + 'SupSelChoiceOptionMapping.resolve'
    seg = segment_callable(key, dict(CONTRACTS[key], stop_before='return sup_dsg.get_for_apply_selection_choice'),
                           os.environ.get('VERIF_REPO', '/repo'))
    rng = random.Random(2020 + int(os.environ.get('VERIF_SEED', '0') or 0))
    for it in range(n):
        # source graph: start S; outer choice C0 at S with options A, B; the mapped choice C1 sits at A (conditional)
        # or at S (permanent); its options O0..Ok-1, possibly with the same name under different parents
        S, A, B = NamedNode('S'), NamedNode('A'), NamedNode('B')
        k = rng.randint(2, 4)
        same_names = rng.random() < 0.3
        # same displayed name, different context string: design-variable nodes named alike with different bounds
        opts = [DesignVariableNode('O', bounds=(0., 1. + i)) for i in range(k)] if same_names else \
            [NamedNode(f'O{i}') for i in range(k)]
        conditional = rng.random() < 0.6
        origin = A if conditional else S
        src = BasicDSG()
        src.add_selection_choice('C0', S, [A, B])
        c1 = src.add_selection_choice('C1', origin, opts)
        extra_direct = rng.random() < 0.15
        if extra_direct:                    # the originating node also derives a mapped option directly
            src.add_edge(origin, opts[-1])
        src = src.set_start_nodes({S})
        sup_opts = [NamedNode(f'T{i}') for i in range(k + 1)]
        mapping = {}
        items = [(o, rng.choice(sup_opts[:k])) for o in opts]
        with_none = rng.random() < 0.75
        if with_none:
            items.insert(rng.randint(0, len(items)), (None, sup_opts[k]))
        if rng.random() < 0.3:
            rng.shuffle(items)
        for a, b in items:
            mapping[a] = b
        real = SupSelChoiceOptionMapping(c1, _ItemsDict(mapping))   # a dict that also shows its item sequence
        real._src_choice_originating_node = origin
        # state of the source graph at resolve time
        mode = rng.choice(['untaken', 'taken', 'taken', 'taken', 'inactive'])
        g = src
        try:
            c0 = [c for c in g.choice_nodes if isinstance(c, SelectionChoiceNode) and c.decision_id == 'C0'][0]
            if mode == 'inactive' and conditional:
                g = g.get_for_apply_selection_choice(c0, B)
            elif mode == 'taken':
                if conditional:
                    g = g.get_for_apply_selection_choice(c0, A)
                c1n = [c for c in g.choice_nodes if isinstance(c, SelectionChoiceNode) and c.decision_id == 'C1']
                if c1n:
                    g = g.get_for_apply_selection_choice(c1n[0], rng.choice(g.get_option_nodes(c1n[0])))
        except Exception:
            continue
        es = {(u, v, kk, get_edge_type((u, v, kk, d))) for u, v, kk, d in g.graph.edges(keys=True, data=True)}
        g.graph.edge_set = es
        sup_choice = SelectionChoiceNode('SC')
        env = {'self': real, 'src_dsg': g, 'sup_dsg': None, 'sup_choice_node': sup_choice, 'EdgeType': EdgeType,
               'DSGNode': DSGNode, 'SelectionChoiceNode': SelectionChoiceNode, 'ctx': (lambda nd: nd.str_context())}
        desc = (f'SupSelChoiceOptionMapping(C1 at {origin}, mapping={[(str(a), str(b)) for a, b in mapping.items()]}).resolve on the source graph '
                f'[{mode}{", conditional" if conditional else ""}{", same option names" if same_names else ""}{", extra direct edge" if extra_direct else ""}] '
                f'nodes={sorted(str(x) for x in g.graph.nodes)}')
        yield (env, (lambda g=g, real=real, sup_choice=sup_choice: seg(self=real, sup_dsg=None, sup_choice_node=sup_choice, src_dsg=g)),
               {'Ref': list(g.graph.nodes) + [x for x in opts if x not in g.graph.nodes], EDGE: list(es)}, desc)


DOMAIN = {F + 'SupSelChoiceOptionMapping.resolve': _domain_sel_option_mapping}


def _domain_existence_mapping(n):
    """Real source graphs (a conditional part below an option), existence mappings over plain, design-variable and
    metric nodes in random priority order, the `None` entry at a random position."""
    import os
    import random
    from pyvc.replay import segment_callable
    from adsg_core.graph.adsg_basic import BasicDSG
    from adsg_core.graph.adsg_nodes import NamedNode, DSGNode, SelectionChoiceNode, DesignVariableNode, MetricNode
    from adsg_core.graph.sup.dsg import SupExistenceMapping
    key = F + 'SupExistenceMapping.resolve'
    seg = segment_callable(key, dict(CONTRACTS[key], stop_before='return sup_dsg.get_for_apply_selection_choice'),
                           os.environ.get('VERIF_REPO', '/repo'))
    rng = random.Random(2121 + int(os.environ.get('VERIF_SEED', '0') or 0))
    for _ in range(n):
        S, A, B, P = NamedNode('S'), NamedNode('A'), NamedNode('B'), NamedNode('P')
        dv = DesignVariableNode('d', bounds=(0., 1.))
        dv2 = DesignVariableNode('d', bounds=(0., 2.))       # same displayed name, another context string
        met = MetricNode('m', direction=-1)
        src = BasicDSG()
        src.add_edges([(S, P), (A, dv), (B, met), (P, dv2)] if rng.random() < 0.5 else [(S, P), (A, dv), (A, met)])
        c0 = src.add_selection_choice('C0', S, [A, B])
        src = src.set_start_nodes({S})
        if rng.random() < 0.8:
            src = src.get_for_apply_selection_choice(c0, rng.choice([A, B]))
        pool = [A, B, P, dv, dv2, met, NamedNode('absent')]
        rng.shuffle(pool)
        keys = pool[:rng.randint(0, 4)]
        items = [(k, NamedNode(f'T{i}')) for i, k in enumerate(keys)]
        items.insert(rng.randint(0, len(items)), (None, NamedNode('Tnone')))
        real = SupExistenceMapping(_ItemsDict(items))
        sup_choice = SelectionChoiceNode('SC')
        env = {'self': real, 'src_dsg': src, 'sup_dsg': None, 'sup_choice_node': sup_choice, 'DSGNode': DSGNode,
               'SelectionChoiceNode': SelectionChoiceNode, 'ctx': (lambda nd: nd.str_context())}
        yield (env, (lambda real=real, src=src, sup_choice=sup_choice: seg(self=real, sup_dsg=None, sup_choice_node=sup_choice, src_dsg=src)),
               {'Ref': list(src.graph.nodes) + [k for k in pool if k not in src.graph.nodes]},
               f'SupExistenceMapping({[(str(a), str(b)) for a, b in items]}).resolve on a source graph with nodes {sorted(str(x) for x in src.graph.nodes)}')


DOMAIN[F + 'SupExistenceMapping.resolve'] = _domain_existence_mapping


# ---------------------------------------------------------------- SupDSG.add_mapping (C20: registration and its check)
CLASSES['SupDSGX']['graph'] = 'Ref[NxGraph]'
CONTRACTS[F + 'SupDSG.add_mapping'] = dict(
    properties=['C20'],
    types={'self': 'Ref[SupDSGX]', 'sup_choice_node': 'Ref', 'src_dsg': 'Ref[SrcDSG]', 'choice_mapping': 'Ref'},
    calls={
        # mapping-specific checks (may reject with any error); it does not touch the list of registered mappings
        'choice_mapping.initialize': dict(params=['sup_dsg', 'node', 'src'], returns=None, modifies=[], assumed=True,
                                          receiver='choice_mapping',
                                          raises={'mapping-specific-check-fails': ('RuntimeError', 'nondet()')}),
    },
    may_raise=['RuntimeError', 'ValueError'],
    must_raise={'choice-not-in-this-graph-rejected': ('RuntimeError', 'not (sup_choice_node in self.graph.nodes)')},
    ensures={
        'registered-last': ('property', 'len(self._choice_mappings) == len(old(self._choice_mappings)) + 1 and '
                                        'self._choice_mappings[len(self._choice_mappings) - 1][0] == sup_choice_node and '
                                        'self._choice_mappings[len(self._choice_mappings) - 1][1] == choice_mapping'),
        'earlier-registrations-kept-in-order': ('property', 'forall(j, 0, len(old(self._choice_mappings)), self._choice_mappings[j] == old(self._choice_mappings)[j])'),
        'only-choices-of-this-graph-registered': ('property', 'sup_choice_node in self.graph.nodes'),
    },
    modifies=['self._choice_mappings'],
    modifies_on_raise=[],        # a rejected registration leaves the list of mappings as it was
)


def _domain_add_mapping(n):
    import random, os
    from adsg_core.graph.sup.dsg import SupDSG, SupSelChoiceOptionMapping
    from adsg_core.graph.adsg_basic import BasicDSG
    from adsg_core.graph.adsg_nodes import NamedNode, SelectionChoiceNode
    rng = random.Random(9500 + int(os.environ.get('VERIF_SEED', '0') or 0))
    for _ in range(n):
        r, o1, o2 = NamedNode('R'), NamedNode('O1'), NamedNode('O2')
        src = BasicDSG()
        src_choice = src.add_selection_choice('C', r, [o1, o2])
        src = src.set_start_nodes({r})
        sup = SupDSG()
        sr, s1, s2 = NamedNode('SR'), NamedNode('S1'), NamedNode('S2')
        sup_choice = sup.add_selection_choice('SC', sr, [s1, s2])
        foreign = SelectionChoiceNode('foreign')
        node = sup_choice if rng.random() < 0.7 else foreign
        complete = rng.random() < 0.7
        mapping = SupSelChoiceOptionMapping(src_choice, {o1: s1, o2: s2} if complete else {o1: s1})
        for _k in range(rng.randint(0, 2)):     # earlier registrations
            sup._choice_mappings.append((sup_choice, SupSelChoiceOptionMapping(src_choice, {o1: s1, o2: s2})))
        env = {'self': sup, 'sup_choice_node': node, 'src_dsg': src, 'choice_mapping': mapping}
        yield (env, (lambda sup=sup, node=node, src=src, mapping=mapping: sup.add_mapping(node, src, mapping)), {},
               f'add_mapping(node {"of this graph" if node is sup_choice else "foreign"}, {"complete" if complete else "incomplete"} mapping), {len(sup._choice_mappings)} registered before')


DOMAIN[F + 'SupDSG.add_mapping'] = _domain_add_mapping
