"""Sidecar contracts: adsg_core/graph/sup/dsg.py (C20)."""

F = 'adsg_core/graph/sup/dsg.py:'

CLASSES = {
    # `_mapping` is an insertion-ordered dict: ODict = the sequence of its (key, value) items, keys pairwise distinct
    'SupExistenceMapping': {'_mapping': 'ODict[Optional[Ref],Ref]'},
    'SrcDSG': {'graph': 'Ref[NxGraph]'},
    'DSGNode': {},
    'SelectionChoiceNode': {},
    'SupDSGX': {},
}

CTX = dict(params=['node'], types={}, returns='Str', modifies=[], pure_expr='ctx(node)')

CONTRACTS = {
    F + 'SupExistenceMapping.resolve': dict(
        properties=['C20'],
        types={'self': 'Ref[SupExistenceMapping]', 'sup_dsg': 'Ref[SupDSGX]', 'sup_choice_node': 'Ref', 'src_dsg': 'Ref[SrcDSG]'},
        returns='Ref',
        funcs={'ctx': (['Ref'], 'Str')},           # node.str_context(): an arbitrary function of the node
        locals={'src_nodes': 'Set[Str]', 'sup_tgt_option_node': 'Optional[Ref]'},
        post_locals=['sup_tgt_option_node'],
        requires={'keys-distinct': 'forall(a, 0, len(self._mapping.items_list), forall(b, 0, len(self._mapping.items_list), implies(a != b, self._mapping.items_list[a][0] != self._mapping.items_list[b][0])))',
                  'none-case-mapped': 'None in self._mapping',
                  'selection-choice': 'isinstance(sup_choice_node, SelectionChoiceNode)'},
        defs={'exists_in_src': (('n',), "exists('m:Ref', m in src_dsg.graph.nodes and isinstance(m, DSGNode) and ctx(m) == ctx(n))")},
        calls={
            'src_node.str_context': dict(params=[], returns='Str', modifies=[], receiver='src_node', pure_expr='ctx(src_node)'),
            'node.str_context': dict(params=[], returns='Str', modifies=[], receiver='node', pure_expr='ctx(node)'),
            # the applied option is passed on unchanged (C02's contract decides what applying does)
            'sup_dsg.get_for_apply_selection_choice': dict(params=['choice', 'option'], returns='Ref', modifies=[], assumed=True),
        },
        loops={'for src_node, sup_option_node in self._mapping.items()': dict(index='k', invariant={
            'none-existing-so-far': 'forall(j, 0, k, self._mapping.items_list[j][0] is None or not exists_in_src(self._mapping.items_list[j][0]))',
            'nothing-chosen-yet': 'sup_tgt_option_node is None',
        })},
        ensures={
            'first-existing-node-decides': ('property',
                'forall(j, 0, len(self._mapping.items_list), implies(self._mapping.items_list[j][0] is not None and exists_in_src(self._mapping.items_list[j][0]) and '
                'forall(i, 0, j, self._mapping.items_list[i][0] is None or not exists_in_src(self._mapping.items_list[i][0])), final_sup_tgt_option_node == self._mapping.items_list[j][1]))'),
            'none-case-when-no-node-exists': ('property',
                'implies(forall(j, 0, len(self._mapping.items_list), self._mapping.items_list[j][0] is None or not (exists_in_src(self._mapping.items_list[j][0]))), final_sup_tgt_option_node == self._mapping[None])'),
        },
        modifies=[],
    ),
}

CLASSES['SupDSGX'] = {'_choice_mappings': 'List[Tuple[Ref,Ref]]', 'choice_nodes': 'List[Ref]'}

DUP = 'exists(a, 0, hi, exists(b, 0, hi, a < b and self._choice_mappings[a][0] == self._choice_mappings[b][0]))'

CONTRACTS[F + 'SupDSG.initialize_choices'] = dict(
    properties=['C20'],
    types={'self': 'Ref[SupDSGX]'},
    returns='Ref',
    locals={'mapped_choice_nodes': 'Set[Ref]', 'dup_mapped': 'List[Ref]', 'unmapped_choice_nodes': 'Set[Ref]'},
    defs={'dup': (('hi',), DUP)},
    set_defs='named',      # sets built by set operators become named constants with a defining axiom (helps `len(set)`)
    calls={'super().initialize_choices': dict(params=[], returns='Ref', modifies=[], assumed=True)},
    loops={'for choice_node, _ in self._choice_mappings': dict(index='k', invariant={
        'mapped-set': "forall('c:Ref', (c in mapped_choice_nodes) == exists(j, 0, k, self._choice_mappings[j][0] == c))",
        'dup-flag': '(len(dup_mapped) > 0) == dup(k)',
    })},
    raises={
        'duplicate-mapping-rejected': ('RuntimeError', 'dup(len(self._choice_mappings))'),
        'unmapped-choice-rejected': ('RuntimeError', 'not dup(len(self._choice_mappings)) and exists(i, 0, len(self.choice_nodes), forall(j, 0, len(self._choice_mappings), self._choice_mappings[j][0] != self.choice_nodes[i]))'),
    },
    ensures={},
    modifies=[],
)

CLASSES['SrcDSG'].update({'final': 'Bool', 'feasible': 'Bool'})
CLASSES['SupDSGX'].update({'choice_mappings': 'List[Tuple[Ref,Ref[SupChoiceMappingX]]]', 'graph': 'Ref[NxGraph]', 'final': 'Bool'})
CLASSES['SupChoiceMappingX'] = {}
METHODS = {
    # abstract mapping: resolves to some supplementary graph or fails (SupResolveError is a RuntimeError)
    ('SupChoiceMappingX', 'resolve'): dict(params=['self', 'sup_dsg', 'sup_choice_node', 'src_dsg'], types={},
                                           returns='Ref[SupDSGX]', modifies=[], raises={'resolve-error': ('RuntimeError', 'nondet()')}),
}

CONTRACTS[F + 'SupDSG.resolve'] = dict(
    properties=['C20'],
    types={'self': 'Ref[SupDSGX]', 'src_dsg': 'Ref[SrcDSG]'},
    returns='Ref[SupDSGX]',
    locals={'sup_dsg': 'Ref[SupDSGX]'},
    loops={'for choice_node, choice_mapping in self.choice_mappings': dict(index='k', invariant={})},
    may_raise=['RuntimeError'],
    must_raise={'non-final-or-infeasible-source-rejected': ('RuntimeError', 'not src_dsg.final or not src_dsg.feasible')},
    ensures={'result-final': ('property', 'result.final')},
    modifies=[],
    unchanged_on_raise=False,
)
