"""Sidecar contracts: adsg_core/optimization/dv_output_defs.py, DesVar (C16, C03: what a design variable declares)."""

DV = 'adsg_core/optimization/dv_output_defs.py:'

CLASSES = {
    'DesVar': {'_name': 'Str', '_opts': 'Optional[List[Ref]]', '_bounds': 'Optional[Tuple[Real,Real]]', '_node': 'Optional[Ref]',
               'conditionally_active': 'Bool',
               # (the public properties options / bounds / node return these fields unchanged)
               },
    'DesignVariableNodeX': {'name': 'Str', 'idx': 'Optional[Int]', 'bounds': 'Optional[Tuple[Real,Real]]', 'options': 'Optional[List[Ref]]'},
}

CONTRACTS = {
    # a design variable is either discrete (a non-empty option list) or continuous (lower bound below upper bound)
    DV + 'DesVar.__init__': dict(
        properties=['C16', 'C03'],
        types={'self': 'Ref[DesVar]', 'name': 'Str', 'options': 'Optional[List[Ref]]', 'bounds': 'Optional[Tuple[Real,Real]]',
               'node': 'Optional[Ref]', 'conditionally_active': 'Bool'},
        raises={
            'both-or-neither': ('ValueError', '(options is None) == (bounds is None)'),
            'no-option': ('ValueError', 'options is not None and bounds is None and len(options) == 0'),
            'bounds-not-ordered': ('ValueError', 'bounds is not None and options is None and bounds[0] >= bounds[1]'),
        },
        ensures={
            'stores': ('carrier', 'self._name == name and self._opts == options and self._bounds == bounds and self._node == node and self.conditionally_active == conditionally_active'),
            'discrete-xor-continuous': ('property', '(self._opts is None) != (self._bounds is None)'),
            'discrete-has-an-option': ('property', 'implies(self._opts is not None, len(self._opts) >= 1)'),
            'continuous-range-non-empty': ('property', 'implies(self._bounds is not None, self._bounds[0] < self._bounds[1])'),
        },
        modifies=['self._name', 'self._opts', 'self._bounds', 'self._node', 'self.conditionally_active'],
    ),
    # the variable of a design-variable node declares exactly the node's own domain and points back to the node
    DV + 'DesVar.from_des_var_node': dict(
        properties=['C16', 'C03'],
        types={'cls': 'Ref', 'des_var_node': 'Ref[DesignVariableNodeX]', 'conditionally_active': 'Bool'},
        returns='Ref[DesVar]',
        locals={'name': 'Str'},
        calls={'cls': dict(ctor=DV + 'DesVar.__init__', cls='DesVar')},
        may_raise=['ValueError'],
        must_raise={'node-without-domain': ('ValueError', '(des_var_node.options is None) == (des_var_node.bounds is None)')},
        ensures={
            'node': ('property', 'result._node == des_var_node'),
            'same-options': ('property', 'result._opts == des_var_node.options'),
            'same-bounds': ('property', 'result._bounds == des_var_node.bounds'),
            'flag-passed-on': ('property', 'result.conditionally_active == conditionally_active'),
            'new-object': ('carrier', 'fresh_object(result)'),
        },
        allocates=True,
        modifies=['result._name', 'result._opts', 'result._bounds', 'result._node', 'result.conditionally_active'],
    ),
}


# ---------------------------------------------------------------- bounded domains (executable contract on real code)
def _args(rng):
    from adsg_core.graph.adsg_nodes import NamedNode
    opts = rng.choice([None, None, [], [NamedNode('a')], [NamedNode('a'), NamedNode('b')], ['x', 'y', 'z']])
    lo = rng.choice([0., 1., -1.])
    bounds = rng.choice([None, None, (lo, lo + 1.), (lo, lo), (lo + 1., lo), (lo, lo + .5)])
    return opts, bounds


def _domain_desvar_init(n):
    import os
    import random
    from adsg_core.optimization.dv_output_defs import DesVar
    from adsg_core.graph.adsg_nodes import NamedNode
    rng = random.Random(3131 + int(os.environ.get('VERIF_SEED', '0') or 0))
    for _ in range(n):
        opts, bounds = _args(rng)
        node = rng.choice([None, NamedNode('n')])
        ca = rng.random() < 0.5
        obj = DesVar.__new__(DesVar)
        env = {'self': obj, 'name': 'v', 'options': opts, 'bounds': bounds, 'node': node, 'conditionally_active': ca}
        yield (env, (lambda obj=obj, opts=opts, bounds=bounds, node=node, ca=ca:
                     DesVar.__init__(obj, 'v', options=opts, bounds=bounds, node=node, conditionally_active=ca)),
               {}, f'DesVar("v", options={opts!r}, bounds={bounds!r}, node={node!r}, conditionally_active={ca})')


def _domain_desvar_from_node(n):
    import os
    import random
    from adsg_core.optimization.dv_output_defs import DesVar
    from adsg_core.graph.adsg_nodes import DesignVariableNode
    rng = random.Random(3232 + int(os.environ.get('VERIF_SEED', '0') or 0))
    for _ in range(n):
        opts, bounds = _args(rng)
        node = DesignVariableNode.__new__(DesignVariableNode)     # also domains the constructor itself refuses
        DesignVariableNode.__init__(node, 'd', bounds=(0., 1.))
        node.bounds, node.options = bounds, opts
        node.idx = rng.choice([None, 0, 3])
        ca = rng.random() < 0.5
        env = {'cls': DesVar, 'des_var_node': node, 'conditionally_active': ca}
        yield (env, (lambda node=node, ca=ca: DesVar.from_des_var_node(node, conditionally_active=ca)), {},
               f'DesVar.from_des_var_node(DesignVariableNode(bounds={bounds!r}, options={opts!r}, idx={node.idx}), conditionally_active={ca})')


DOMAIN = {DV + 'DesVar.__init__': _domain_desvar_init, DV + 'DesVar.from_des_var_node': _domain_desvar_from_node}
