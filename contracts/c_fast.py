"""Sidecar contracts: adsg_core/optimization/hierarchy/fast.py (C14)."""

F = 'adsg_core/optimization/hierarchy/fast.py:'

CUR = 'opt_idx[i_dv]'
N = 'n_opts[i_dv]'

CONTRACTS = {
    F + 'FastHierarchyAnalyzer._iter_neighborhood.<locals>._iter_values': dict(
        properties=['C14'],
        types={'i_dv': 'Int'},
        free={'opt_idx': 'List[Int]', 'is_fixed': 'List[Bool]', 'n_opts': 'List[Int]'},
        yields='Int',
        requires={'variable-index': '0 <= i_dv and i_dv < len(opt_idx) and len(is_fixed) == len(opt_idx) and len(n_opts) == len(opt_idx)',
                  'current-in-range': f'0 <= {CUR} and {CUR} < {N}'},
        loops={'for dist in range(1, n_opts[i_dv])': dict(index='k', invariant={
            'first-is-current': f'len(Y) >= 1 and Y[0] == {CUR}',
            'in-range': f'forall(a, 0, len(Y), 0 <= Y[a] and Y[a] < {N})',
            'ball-covered': f"forall('v:Int', implies(0 <= v and v < {N} and v - {CUR} <= k and {CUR} - v <= k, exists(a, 0, len(Y), Y[a] == v)))",
            'only-ball': f'forall(a, 0, len(Y), Y[a] - {CUR} <= k and {CUR} - Y[a] <= k)',
        })},
        ensures={
            'current-value-tried-first': ('property', f'len(Y) >= 1 and Y[0] == {CUR}'),
            'fixed-variable-only-current': ('property', 'implies(is_fixed[i_dv], len(Y) == 1)'),
            'values-in-declared-range': ('property', f'forall(a, 0, len(Y), 0 <= Y[a] and Y[a] < {N})'),
            'every-value-of-the-range-tried': ('property', f"implies(not is_fixed[i_dv], forall('v:Int', implies(0 <= v and v < {N}, exists(a, 0, len(Y), Y[a] == v))))"),
        },
        modifies=[],
    ),
}


def _domain_iter_values(n):
    import random, os
    from adsg_core.optimization.hierarchy.fast import FastHierarchyAnalyzer
    rng = random.Random(9100 + int(os.environ.get('VERIF_SEED', '0') or 0))
    for _ in range(n):
        nv = rng.randint(1, 3)
        n_opts = [rng.randint(1, 5) for _ in range(nv)]
        opt_idx = [rng.randrange(k) for k in n_opts]
        is_fixed = [rng.random() < 0.3 for _ in range(nv)]
        i_dv = rng.randrange(nv)

        class Stub:
            pass
        stub = Stub()
        stub.n_opts = n_opts

        def call(stub=stub, opt_idx=opt_idx, is_fixed=is_fixed, i_dv=i_dv):
            # the nested generator is exercised through the enclosing real method: the values tried for variable i_dv
            seen = []
            for tup in FastHierarchyAnalyzer._iter_neighborhood(stub, list(opt_idx), list(is_fixed)):
                if all(tup[j] == opt_idx[j] for j in range(len(opt_idx)) if j != i_dv) and tup[i_dv] not in seen:
                    seen.append(tup[i_dv])
            return seen
        yield ({'i_dv': i_dv, 'opt_idx': opt_idx, 'is_fixed': is_fixed, 'n_opts': n_opts, 'Y': None, '__generator__': True},
               call, {'Int': list(range(-1, 7))}, f'_iter_values({i_dv}) opt_idx={opt_idx} is_fixed={is_fixed} n_opts={n_opts}')


DOMAIN = {F + 'FastHierarchyAnalyzer._iter_neighborhood.<locals>._iter_values': _domain_iter_values}


# ---------------------------------------------------------------- which selection choices get no design variable (C14)
# of the choices tied by a LINKED constraint only the first one in the analyzer's own order (derivation level order)
# keeps its variable; every later member is forced to follow it
ENUMS = {'ChoiceConstraintType': {'LINKED': 1, 'PERMUTATION': 2, 'UNORDERED': 3, 'UNORDERED_NOREPL': 4}}
CLASSES = {
    'ChoiceConstraintS': {'type': 'Enum[ChoiceConstraintType]', 'nodes': 'List[Ref]'},
    'DSGc': {},
    'FastHierarchyAnalyzer': {'selection_choice_nodes': 'List[Ref]', 'selection_choice_option_nodes': 'Dict[Ref,List[Ref]]',
                              'adsg': 'Ref[DSGc]'},
}
NODES = 'self.selection_choice_nodes'
CONS = 'CL'
# member(c, i): the i-th selection choice is listed by constraint c
MEMBER = f'exists(m, 0, len({CONS}[c].nodes), {CONS}[c].nodes[m] == {NODES}[i])'
CONTRACTS[F + 'FastHierarchyAnalyzer._get_selection_choice_is_forced'] = dict(
    properties=['C14'],
    types={'self': 'Ref[FastHierarchyAnalyzer]'},
    returns='Np1[Bool]',
    ghost={'CL': 'List[Ref[ChoiceConstraintS]]'},      # the list returned by self.adsg.get_choice_constraints()
    locals={'is_forced': 'Np1[Bool]', 'i_choice_nodes': 'Dict[Ref,Int]', 'i_choices': 'List[Int]'},
    requires={
        'one-entry-per-choice': f'len(self.selection_choice_option_nodes) == len({NODES})',
        'choices-listed-once': f'forall(a, 0, len({NODES}), forall(b, 0, len({NODES}), implies(a != b, {NODES}[a] != {NODES}[b])))',
        'constraint-members-listed-once': f'forall(c, 0, len({CONS}), forall(a, 0, len({CONS}[c].nodes), forall(b, 0, len({CONS}[c].nodes), implies(a != b, {CONS}[c].nodes[a] != {CONS}[c].nodes[b]))))',
    },
    calls={'self.adsg.get_choice_constraints': dict(params=[], types={}, returns='List[Ref[ChoiceConstraintS]]', modifies=[], assumed=True,
                                                    receiver='self.adsg', pure_expr='CL')},
    defs={
        'member': (('c', 'i'), MEMBER),
        'follows': (('c', 'i'), f'{CONS}[c].type == ChoiceConstraintType.LINKED and member(c, i) and exists(j, 0, i, member(c, j))'),
        'linked_with_another': (('c', 'i'), f'{CONS}[c].type == ChoiceConstraintType.LINKED and member(c, i) and exists(j, 0, len({NODES}), j != i and member(c, j))'),
    },
    loops={
        'for choice_constraint in self.adsg.get_choice_constraints()': dict(index='k', invariant={
            'shape': f'len(is_forced) == len({NODES})',
            'index-of-each-choice': f'forall(p, 0, len({NODES}), {NODES}[p] in i_choice_nodes and i_choice_nodes[{NODES}[p]] == p)',
            'only-choices-indexed': f"forall('x:Ref', implies(x in i_choice_nodes, 0 <= i_choice_nodes[x] and i_choice_nodes[x] < len({NODES}) and {NODES}[i_choice_nodes[x]] == x))",
            'following-members-forced': f'forall(i, 0, len({NODES}), forall(c, 0, k, implies(follows(c, i), is_forced[i])))',
        }),
        'for i_dep in i_choices[1:]': dict(index='q', invariant={
            'shape': f'len(is_forced) == len({NODES})',
            'index-of-each-choice': f'forall(p, 0, len({NODES}), {NODES}[p] in i_choice_nodes and i_choice_nodes[{NODES}[p]] == p)',
            'only-choices-indexed': f"forall('x:Ref', implies(x in i_choice_nodes, 0 <= i_choice_nodes[x] and i_choice_nodes[x] < len({NODES}) and {NODES}[i_choice_nodes[x]] == x))",
            'following-members-forced': f'forall(i, 0, len({NODES}), forall(c, 0, k, implies(follows(c, i), is_forced[i])))',
            'processed-members-forced': f'forall(a, 1, q + 1, is_forced[i_choices[a]])',
        }),
    },
    ensures={
        'one-flag-per-choice': ('property', f'len(result) == len({NODES})'),
        # every member of a LINKED constraint that comes after another member (in the analyzer's own order) is forced
        'later-linked-members-follow-the-first': ('property', f'forall(i, 0, len({NODES}), forall(c, 0, len({CONS}), implies(follows(c, i), result[i])))'),
    },
    # the other half (nothing else is forced, in particular the FIRST member keeps its variable) needs "the sorted list
    # is a permutation of the member indices": beyond the solver. It is evaluated on the function's bounded domain only.
    exec_ensures={
        'exactly-the-later-members': f'forall(i, 0, len({NODES}), result[i] == exists(c, 0, len({CONS}), follows(c, i)))',
    },
    modifies=[],
)


def _domain_is_forced(n):
    """Real fast analyzers of the constrained corpus graphs (LINKED and other constraints, permanent / hierarchical /
    mutually exclusive placements, constraint order differing from level order)."""
    import os
    import sys
    here = os.path.dirname(os.path.dirname(os.path.abspath(__file__)))
    if here not in sys.path:
        sys.path.insert(0, here)
    from bounded import gen
    from bounded.corpus import corpus
    from adsg_core.optimization.hierarchy.fast import FastHierarchyAnalyzer
    from adsg_core.graph.choice_constraints import ChoiceConstraintType
    members = corpus(['con', 'conx', 'forced', 'conpart'], 'quick')
    made = 0
    for desc in members:
        if made >= n:
            break
        try:
            b = gen.Built(desc)
            an = FastHierarchyAnalyzer(b.dsg)
        except Exception:  # noqa
            continue
        made += 1
        env = {'self': an, 'CL': list(an.adsg.get_choice_constraints()), 'ChoiceConstraintType': ChoiceConstraintType}
        yield (env, (lambda an=an: an._get_selection_choice_is_forced()), {},
               f'FastHierarchyAnalyzer(corpus member {desc.label})._get_selection_choice_is_forced()')


DOMAIN = {F + 'FastHierarchyAnalyzer._get_selection_choice_is_forced': _domain_is_forced}


# ---- FastHierarchyAnalyzer._get_n_opts: the declared option count of every selection-choice variable (C14) ------------
CONTRACTS[F + 'FastHierarchyAnalyzer._get_n_opts'] = dict(
    properties=['C14'],
    types={'self': 'Ref[FastHierarchyAnalyzer]'},
    returns='List[Int]',
    locals={'sel_choice_opt_nodes': 'Dict[Ref,List[Ref]]'},
    requires={'every-choice-has-an-option-list': f'forall(i, 0, len({NODES}), {NODES}[i] in self.selection_choice_option_nodes)'},
    ensures={
        'one-count-per-choice-in-choice-order': ('property', f'len(result) == len({NODES})'),
        'count-is-the-number-of-options-of-that-choice': ('property', f'forall(i, 0, len({NODES}), result[i] == len(self.selection_choice_option_nodes[{NODES}[i]]))'),
    },
    modifies=[],
)


def _domain_n_opts(n):
    from bounded.corpus import corpus
    from bounded import gen
    from adsg_core.optimization.hierarchy.fast import FastHierarchyAnalyzer
    made = 0
    for desc in corpus(['sel', 'con', 'forced'], 'quick'):
        if made >= n:
            break
        try:
            an = FastHierarchyAnalyzer(gen.Built(desc).dsg)
        except Exception:  # noqa
            continue
        made += 1
        yield ({'self': an}, (lambda an=an: an._get_n_opts()), {}, f'FastHierarchyAnalyzer(corpus member {desc.label})._get_n_opts()')


DOMAIN[F + 'FastHierarchyAnalyzer._get_n_opts'] = _domain_n_opts
