"""Sidecar contracts: adsg_core/optimization/hierarchy/fast.py (C14)."""

F = 'adsg_core/optimization/hierarchy/fast.py:'

CUR = 'opt_idx[i_dv]'
N = 'n_opts[i_dv]'

CONTRACTS = {
    F + 'FastHierarchyAnalyzer._iter_neighborhood.<locals>._iter_values': dict(
        properties=['C14'],
        types={'i_dv': 'Int'},
        free={'opt_idx': 'List[Int]', 'is_fixed': 'List[Bool]', 'n_opts': 'List[Int]'},
        yields='Int',
        requires={'variable-index': '0 <= i_dv and i_dv < len(opt_idx) and len(is_fixed) == len(opt_idx) and len(n_opts) == len(opt_idx)',
                  'current-in-range': f'0 <= {CUR} and {CUR} < {N}'},
        loops={'for dist in range(1, n_opts[i_dv])': dict(index='k', invariant={
            'first-is-current': f'len(Y) >= 1 and Y[0] == {CUR}',
            'in-range': f'forall(a, 0, len(Y), 0 <= Y[a] and Y[a] < {N})',
            'ball-covered': f"forall('v:Int', implies(0 <= v and v < {N} and v - {CUR} <= k and {CUR} - v <= k, exists(a, 0, len(Y), Y[a] == v)))",
            'only-ball': f'forall(a, 0, len(Y), Y[a] - {CUR} <= k and {CUR} - Y[a] <= k)',
        })},
        ensures={
            'current-value-tried-first': ('property', f'len(Y) >= 1 and Y[0] == {CUR}'),
            'fixed-variable-only-current': ('property', 'implies(is_fixed[i_dv], len(Y) == 1)'),
            'values-in-declared-range': ('property', f'forall(a, 0, len(Y), 0 <= Y[a] and Y[a] < {N})'),
            'every-value-of-the-range-tried': ('property', f"implies(not is_fixed[i_dv], forall('v:Int', implies(0 <= v and v < {N}, exists(a, 0, len(Y), Y[a] == v))))"),
        },
        modifies=[],
    ),
}


def _domain_iter_values(n):
    import random, os
    from adsg_core.optimization.hierarchy.fast import FastHierarchyAnalyzer
    rng = random.Random(9100 + int(os.environ.get('VERIF_SEED', '0') or 0))
    for _ in range(n):
        nv = rng.randint(1, 3)
        n_opts = [rng.randint(1, 5) for _ in range(nv)]
        opt_idx = [rng.randrange(k) for k in n_opts]
        is_fixed = [rng.random() < 0.3 for _ in range(nv)]
        i_dv = rng.randrange(nv)

        class Stub:
            pass
        stub = Stub()
        stub.n_opts = n_opts

        def call(stub=stub, opt_idx=opt_idx, is_fixed=is_fixed, i_dv=i_dv):
            # the nested generator is exercised through the enclosing real method: the values tried for variable i_dv
            seen = []
            for tup in FastHierarchyAnalyzer._iter_neighborhood(stub, list(opt_idx), list(is_fixed)):
                if all(tup[j] == opt_idx[j] for j in range(len(opt_idx)) if j != i_dv) and tup[i_dv] not in seen:
                    seen.append(tup[i_dv])
            return seen
        yield ({'i_dv': i_dv, 'opt_idx': opt_idx, 'is_fixed': is_fixed, 'n_opts': n_opts, 'Y': None, '__generator__': True},
               call, {'Int': list(range(-1, 7))}, f'_iter_values({i_dv}) opt_idx={opt_idx} is_fixed={is_fixed} n_opts={n_opts}')


DOMAIN = {F + 'FastHierarchyAnalyzer._iter_neighborhood.<locals>._iter_values': _domain_iter_values}
