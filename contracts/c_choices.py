"""Sidecar contracts: adsg_core/graph/choices.py (C02, C11, C13)."""
from .c_traversal import EDGE, ITER_OUT, GET_TYPE

F = 'adsg_core/graph/choices.py:'

ENUMS = {'EdgeType': {'DERIVES': 1, 'CONNECTS': 2, 'EXCLUDES': 3, 'INCOMPATIBILITY': 4}}
CLASSES = {'NxGraph': {'edge_set': f'Set[{EDGE}]', 'nodes': 'Set[Ref]'}}

EDGE3 = 'Tuple[Ref,Ref,Enum[EdgeType]]'     # an edge tuple without key: (from, to, data reduced to its type)
ITER_IN = dict(params=['graph', 'node'], types={}, returns=f'Set[{EDGE}]', modifies=[], assumed=True,
               ensures=[f"forall('e:{EDGE}', (e in result) == (e in graph.edge_set and e[1] == node))"])
ITER_OUT_A = dict(ITER_OUT, assumed=True)
DERIVED_FOR_EDGE = dict(params=['graph', 'edge', 'start_nodes', 'removed_edges', 'removed_nodes'], types={},
                        returns=f'Tuple[Set[{EDGE}],Set[Ref]]', modifies=[], assumed=True,
                        # the edge itself is always among the derived edges (derived_edges={edge} in the callee)
                        ensures=['edge in result[0]'])

CONTRACTS = {
    # everything before the incompatibility post-processing (which sits in a try/except)
    F + 'get_mod_apply_selection_choice@until-incompatibility': dict(
        properties=['C02'],
        stop_before='confirmed_start_nodes = start_nodes | {target_option_node}',
        types={'graph': 'Ref[NxGraph]', 'start_nodes': 'Set[Ref]', 'choice_node': 'Ref', 'target_option_node': 'Ref',
               'choice_con_map': 'Optional[List[Tuple[Ref,List[Ref]]]]', 'only_added': 'Bool'},
        returns=f'Tuple[Set[{EDGE}],Set[Ref],Set[{EDGE3}]]',
        requires={'a-start-node': 'len(start_nodes) >= 1'},
        locals={'removed_edges': f'Set[{EDGE}]', 'removed_nodes': 'Set[Ref]', 'choice_out_edges': f'Set[{EDGE}]',
                'option_nodes': 'Set[Ref]', 'added_edges': f'Set[{EDGE3}]', 'in_edges': f'List[{EDGE}]',
                'originating_nodes': 'List[Ref]'},
        defs={'is_option': (('o',), f"exists('e:{EDGE}', e in graph.edge_set and e[0] == choice_node and e[1] == o)"),
              'no_options': ((), f"not exists('e:{EDGE}', e in graph.edge_set and e[0] == choice_node)")},
        calls={'iter_out_edges': ITER_OUT_A, 'iter_in_edges': ITER_IN,
               'graph.predecessors': dict(params=['n'], types={}, returns='List[Ref]', modifies=[], assumed=True, receiver='graph',
                                          ensures=[f"forall('x:Ref', (x in result) == exists('e:{EDGE}', e in graph.edge_set and e[0] == x and e[1] == n))"]),
               'get_edge_for_type': dict(params=['from_node', 'to_node', 'edge_type', 'choice_node'], types={}, returns=EDGE3, modifies=[],
                                         pure_expr='(from_node, to_node, edge_type)'),
               'get_edge': dict(params=['from_node', 'to_node'], types={}, returns=EDGE3, modifies=[],
                                pure_expr='(from_node, to_node, EdgeType.DERIVES)'),
               'get_derived_edges_for_edge': DERIVED_FOR_EDGE},
        raises={'not-an-option': ('NoOptionError', 'not no_options() and not is_option(target_option_node)')},
        loops={
            'for (constrained_dec_node, removed_options) in choice_con_map': dict(index='i_con', invariant={
                'own-out-edges-kept': f"forall('e:{EDGE}', implies(e in graph.edge_set and e[0] == choice_node, e in choice_out_edges))",
                'only-graph-edges': f"forall('e:{EDGE}', implies(e in choice_out_edges, e in graph.edge_set))",
            }),
            'for constrained_out_edge in iter_out_edges(graph, constrained_dec_node)': dict(processed='PO', invariant={
                'own-out-edges-kept': f"forall('e:{EDGE}', implies(e in graph.edge_set and e[0] == choice_node, e in choice_out_edges))",
                'only-graph-edges': f"forall('e:{EDGE}', implies(e in choice_out_edges, e in graph.edge_set))",
            }),
            'for edge in choice_out_edges': dict(processed='PE', invariant={
                'unselected-option-edges-removed': f"forall('e:{EDGE}', implies(e in PE and not (e[0] == choice_node and e[1] == target_option_node), e in removed_edges))",
            }),
        },
        ensures={
            # statement of C02: the choice node goes, and exactly the originating node(s) get a derivation edge to the
            # selected option
            'choice-node-removed': ('property', 'implies(not only_added, choice_node in removed_nodes)'),
            'origin-to-option-edges-added': ('property',
                f"implies(not no_options(), forall('a:{EDGE3}', (a in added_edges) == (a[1] == target_option_node and a[2] == EdgeType.DERIVES and "
                f"exists('e:{EDGE}', e in graph.edge_set and e[1] == choice_node and e[0] == a[0]))))"),
            'unselected-option-edges-removed': ('property',
                f"implies(not no_options() and not only_added, forall('e:{EDGE}', implies(e in graph.edge_set and e[0] == choice_node and e[1] != target_option_node, e in removed_edges)))"),
            'no-options-marks-origin-infeasible': ('property',
                f"implies(no_options(), forall('a:{EDGE3}', implies(a in added_edges, a[2] == EdgeType.INCOMPATIBILITY and a[0] in start_nodes and "
                f"exists('e:{EDGE}', e in graph.edge_set and e[1] == choice_node and e[0] == a[1]))) and "
                f"forall('e:{EDGE}', implies(e in graph.edge_set and e[1] == choice_node, exists('a:{EDGE3}', a in added_edges and a[1] == e[0]))))"),
        },
        modifies=[],
    ),
}
