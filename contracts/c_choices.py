"""Sidecar contracts: adsg_core/graph/choices.py (C02, C11, C13)."""
from .c_traversal import EDGE, ITER_OUT, GET_TYPE

F = 'adsg_core/graph/choices.py:'

ENUMS = {'EdgeType': {'DERIVES': 1, 'CONNECTS': 2, 'EXCLUDES': 3, 'INCOMPATIBILITY': 4}}
CLASSES = {'NxGraph': {'edge_set': f'Set[{EDGE}]', 'nodes': 'Set[Ref]'}}

EDGE3 = 'Tuple[Ref,Ref,Enum[EdgeType]]'     # an edge tuple without key: (from, to, data reduced to its type)
ITER_IN = dict(params=['graph', 'node'], types={}, returns=f'Set[{EDGE}]', modifies=[], assumed=True,
               ensures=[f"forall('e:{EDGE}', (e in result) == (e in graph.edge_set and e[1] == node))"])
ITER_OUT_A = dict(ITER_OUT, assumed=True)
DERIVED_FOR_EDGE = dict(params=['graph', 'edge', 'start_nodes', 'removed_edges', 'removed_nodes'], types={},
                        returns=f'Tuple[Set[{EDGE}],Set[Ref]]', modifies=[], assumed=True,
                        # the edge itself is always among the derived edges (derived_edges={edge} in the callee)
                        ensures=['edge in result[0]'])

CONTRACTS = {
    # everything before the incompatibility post-processing (which sits in a try/except)
    F + 'get_mod_apply_selection_choice@until-incompatibility': dict(
        properties=['C02'],
        stop_before='confirmed_start_nodes = start_nodes | {target_option_node}',
        types={'graph': 'Ref[NxGraph]', 'start_nodes': 'Set[Ref]', 'choice_node': 'Ref', 'target_option_node': 'Ref',
               'choice_con_map': 'Optional[List[Tuple[Ref,List[Ref]]]]', 'only_added': 'Bool'},
        returns=f'Tuple[Set[{EDGE}],Set[Ref],Set[{EDGE3}]]',
        requires={'a-start-node': 'len(start_nodes) >= 1'},
        locals={'removed_edges': f'Set[{EDGE}]', 'removed_nodes': 'Set[Ref]', 'choice_out_edges': f'Set[{EDGE}]',
                'option_nodes': 'Set[Ref]', 'added_edges': f'Set[{EDGE3}]', 'in_edges': f'List[{EDGE}]',
                'originating_nodes': 'List[Ref]'},
        defs={'is_option': (('o',), f"exists('e:{EDGE}', e in graph.edge_set and e[0] == choice_node and e[1] == o)"),
              'no_options': ((), f"not exists('e:{EDGE}', e in graph.edge_set and e[0] == choice_node)")},
        calls={'iter_out_edges': ITER_OUT_A, 'iter_in_edges': ITER_IN,
               'graph.predecessors': dict(params=['n'], types={}, returns='List[Ref]', modifies=[], assumed=True, receiver='graph',
                                          ensures=[f"forall(j, 0, len(result), exists('e:{EDGE}', e in graph.edge_set and e[0] == result[j] and e[1] == n))",
                                                   f"forall('e:{EDGE}', implies(e in graph.edge_set and e[1] == n, e[0] in result))"]),
               'get_edge_for_type': dict(params=['from_node', 'to_node', 'edge_type', 'choice_node'], types={}, returns=EDGE3, modifies=[],
                                         pure_expr='(from_node, to_node, edge_type)'),
               'get_edge': dict(params=['from_node', 'to_node'], types={}, returns=EDGE3, modifies=[],
                                pure_expr='(from_node, to_node, EdgeType.DERIVES)'),
               'get_derived_edges_for_edge': DERIVED_FOR_EDGE},
        raises={'not-an-option': ('NoOptionError', 'not no_options() and not is_option(target_option_node)')},
        loops={
            'for constrained_dec_node, removed_options in choice_con_map': dict(index='i_con', invariant={
                'own-out-edges-kept': f"forall('e:{EDGE}', implies(e in graph.edge_set and e[0] == choice_node, e in choice_out_edges))",
                'only-graph-edges': f"forall('e:{EDGE}', implies(e in choice_out_edges, e in graph.edge_set))",
            }),
            'for constrained_out_edge in iter_out_edges(graph, constrained_dec_node)': dict(processed='PO', invariant={
                'own-out-edges-kept': f"forall('e:{EDGE}', implies(e in graph.edge_set and e[0] == choice_node, e in choice_out_edges))",
                'only-graph-edges': f"forall('e:{EDGE}', implies(e in choice_out_edges, e in graph.edge_set))",
            }),
            'for edge in choice_out_edges': dict(processed='PE', invariant={
                'unselected-option-edges-removed': f"forall('e:{EDGE}', implies(e in PE and not (e[0] == choice_node and e[1] == target_option_node), e in removed_edges))",
            }),
        },
        ensures={
            # statement of C02: the choice node goes, and exactly the originating node(s) get a derivation edge to the
            # selected option
            'choice-node-removed': ('property', 'implies(not only_added, choice_node in removed_nodes)'),
            'origin-to-option-edges-added': ('property',
                f"implies(not no_options(), forall('a:{EDGE3}', (a in added_edges) == (a[1] == target_option_node and a[2] == EdgeType.DERIVES and "
                f"exists('e:{EDGE}', e in graph.edge_set and e[1] == choice_node and e[0] == a[0]))))"),
            'unselected-option-edges-removed': ('property',
                f"implies(not no_options() and not only_added, forall('e:{EDGE}', implies(e in graph.edge_set and e[0] == choice_node and e[1] != target_option_node, e in removed_edges)))"),
            'no-options-marks-origin-infeasible': ('property',
                f"implies(no_options(), forall('a:{EDGE3}', implies(a in added_edges, a[2] == EdgeType.INCOMPATIBILITY and a[0] in start_nodes and "
                f"exists('e:{EDGE}', e in graph.edge_set and e[1] == choice_node and e[0] == a[1]))))"),
            'no-options-marks-every-origin': ('property',
                f"implies(no_options(), forall('e:{EDGE}', implies(e in graph.edge_set and e[1] == choice_node, "
                f"exists('s:Ref', s in start_nodes and (s, e[0], EdgeType.INCOMPATIBILITY) in added_edges))))"),
            'no-options-removes-only-the-choice': ('property',
                "implies(no_options(), forall('x:Ref', (x in removed_nodes) == (x == choice_node)))"),
        },
        modifies=[],
    ),
}


def _domain_apply_selection(n):
    """Real graphs; the segment's variables are observed through the function's return value: the tail after the
    segment only adds nodes to removed_nodes and 4-tuple incompatibility marker edges to added_edges (dropped here)."""
    import random, os
    import networkx as nx
    from adsg_core.graph.choices import get_mod_apply_selection_choice
    from adsg_core.graph.graph_edges import EdgeType, add_edge, get_edge_type, HashableDict
    from adsg_core.graph.adsg_nodes import NamedNode, SelectionChoiceNode
    rng = random.Random(8200 + int(os.environ.get('VERIF_SEED', '0') or 0))
    for _ in range(n):
        nn = rng.randint(3, 7)
        nodes = [NamedNode(f'n{i}') for i in range(nn)]
        choice = SelectionChoiceNode('c')
        other = SelectionChoiceNode('d')
        g = nx.MultiDiGraph()
        g.edge_attr_dict_factory = HashableDict
        g.add_nodes_from(nodes + [choice, other])
        es = set()

        def add(u, v, t):
            key = g.new_edge_key(u, v)
            add_edge(g, u, v, key=key, edge_type=t)
            es.add((u, v, key, t))
        for o in rng.sample(nodes, rng.randint(0, 2)):
            add(o, choice, EdgeType.DERIVES)
        opts = rng.sample(nodes, rng.randint(0, 3))
        for o in opts:
            add(choice, o, EdgeType.DERIVES)
        for _ in range(rng.randint(0, 6)):
            u, v = rng.sample(nodes, 2)
            add(u, v, rng.choice([EdgeType.DERIVES, EdgeType.DERIVES, EdgeType.INCOMPATIBILITY]))
        oopts = rng.sample(nodes, rng.randint(0, 2))
        add(nodes[0], other, EdgeType.DERIVES)
        for o in oopts:
            add(other, o, EdgeType.DERIVES)
        g.edge_set = es
        start = {nodes[0]}
        target = rng.choice(opts) if opts and rng.random() < 0.8 else rng.choice(nodes)
        con_map = None if rng.random() < 0.5 else [(other, list(oopts[:1]))]
        only_added = rng.random() < 0.2
        try:
            res = get_mod_apply_selection_choice(g, set(start), choice, target, con_map, only_added=only_added)
            exc = None
        except Exception as e:  # noqa
            res, exc = None, e

        def red(edge):
            return tuple(edge[:-1]) + (get_edge_type(edge),)
        env = {'graph': g, 'start_nodes': set(start), 'choice_node': choice, 'target_option_node': target,
               'choice_con_map': con_map, 'only_added': only_added, 'EdgeType': EdgeType}
        if res is not None:
            env['removed_edges'] = {red(e) for e in res[0]}
            env['removed_nodes'] = set(res[1])
            env['added_edges'] = {red(e) for e in res[2] if len(e) == 3}

        def call(res=res, exc=exc):
            if exc is not None:
                raise exc
            return res
        allnodes = nodes + [choice, other]
        uni = {'Ref': allnodes, 'Int': [0, 1, 2], EDGE: list(es),
               EDGE3: [(u, v, t) for u in allnodes for v in allnodes for t in (EdgeType.DERIVES, EdgeType.INCOMPATIBILITY)]}
        yield (env, call, uni,
               f'get_mod_apply_selection_choice(edges={[(str(u), str(v), k, t.name) for u, v, k, t in es]}, start=[n0], choice=c, '
               f'target={target!s}, choice_con_map={None if con_map is None else [(str(a), [str(x) for x in b]) for a, b in con_map]}, only_added={only_added})')


DOMAIN = {F + 'get_mod_apply_selection_choice@until-incompatibility': _domain_apply_selection}


# ------------------------------------------------------------------------------------- apply a connection choice (C11)
CLASSES['ConnectionChoiceNode'] = {}
CONN = 'Tuple[Ref,Optional[Ref]]'
CONTRACTS[F + 'get_mod_apply_connection_choice'] = dict(
    properties=['C11'],
    types={'graph': 'Ref[NxGraph]', 'choice_node': 'Ref[ConnectionChoiceNode]', 'edges': f'List[{CONN}]'},
    returns=f'Tuple[Set[{EDGE}],Set[Ref],Set[{EDGE}]]',
    locals={'in_nodes': 'Set[Ref]', 'out_nodes': 'Set[Ref]', 'added_edges': f'Set[{EDGE}]', 'edge_key': f'Dict[{CONN},Int]',
            'removed_nodes': 'Set[Ref]'},
    defs={'is_src': (('x',), f"exists('e:{EDGE}', e in graph.edge_set and e[1] == choice_node and e[0] == x)"),
          'is_tgt': (('x',), f"exists('e:{EDGE}', e in graph.edge_set and e[0] == choice_node and e[1] == x)")},
    calls={'iter_in_edges': ITER_IN, 'iter_out_edges': ITER_OUT_A,
           'get_edge': dict(params=['from_node', 'to_node', 'key', 'is_conn'], types={'to_node': 'Ref'}, returns=EDGE, modifies=[],
                            requires=['is_conn'], pure_expr='(from_node, to_node, key, EdgeType.CONNECTS)'),
           'choice_node.get_excluded_edges': dict(params=['g'], types={}, returns=f'List[{EDGE}]', modifies=[], assumed=True, receiver='choice_node', ensures=[]),
           'choice_node.get_deriving_edges': dict(params=['g'], types={}, returns=f'List[{EDGE}]', modifies=[], assumed=True, receiver='choice_node', ensures=[])},
    raises={'foreign-node': ('ValueError', "exists(i, 0, len(edges), not is_src(edges[i][0]) or (edges[i][1] is not None and not is_tgt(edges[i][1])))")},
    loops={
        'for edge in edges#0': dict(index='i0', invariant={
                'checked-so-far': "forall(j, 0, i0, is_src(edges[j][0]) and (edges[j][1] is None or is_tgt(edges[j][1])))"}),
        'for edge in edges#1': dict(index='i1', invariant={
                # parallel connections between the same two connectors get the keys 0, 1, 2, ...
                'next-key-is-the-count': f"forall('p:{CONN}', implies(p[1] is not None, edge_key[p] == count(edges, p, i1)))",
                'added-are-numbered-connections': f"forall('a:{EDGE}', implies(a in added_edges, a[3] == EdgeType.CONNECTS and 0 <= a[2] and "
                                                  f"a[2] < count(edges, (a[0], a[1]), i1)))",
                'numbered-connections-are-added': f"forall('a:{EDGE}', implies(a[3] == EdgeType.CONNECTS and 0 <= a[2] and "
                                                  f"a[2] < count(edges, (a[0], a[1]), i1), a in added_edges))"}),
    },
    ensures={
        'choice-node-removed': ('property', "forall('x:Ref', (x in result[1]) == (x == choice_node))"),
        # statement of C11: the instance gets exactly the given connection edges, parallel ones as distinct keyed edges
        'exactly-the-given-connections-added': ('property',
            f"forall('a:{EDGE}', (a in result[2]) == (a[3] == EdgeType.CONNECTS and 0 <= a[2] and a[2] < count(edges, (a[0], a[1]), len(edges))))"),
    },
    modifies=[],
)

# the connector nodes around a connection choice node (sorted lists in the code; only membership matters here)
N_ = 'adsg_core/graph/adsg_nodes.py:'
CLASSES['ConnectorNode'] = {}
SRC_NODES = dict(params=['g'], types={}, returns='List[Ref]', modifies=[], assumed=True, receiver='self',
                 ensures=[f"forall('x:Ref', (x in result) == (isinstance(x, ConnectorNode) and exists('e:{EDGE}', e in g.edge_set and e[0] == x and e[1] == self)))"])
TGT_NODES = dict(params=['g'], types={}, returns='List[Ref]', modifies=[], assumed=True, receiver='self',
                 ensures=[f"forall('x:Ref', (x in result) == (isinstance(x, ConnectorNode) and exists('e:{EDGE}', e in g.edge_set and e[1] == x and e[0] == self)))"])
ITER_OUT_T = dict(params=['graph', 'node', 'edge_type'], types={}, returns=f'List[{EDGE}]', modifies=[], assumed=True,
                  ensures=[f"forall('e:{EDGE}', (e in result) == (e in graph.edge_set and e[0] == node and e[3] == edge_type))"])
ITER_OUT_L = dict(params=['graph', 'node'], types={}, returns=f'List[{EDGE}]', modifies=[], assumed=True,
                  ensures=[f"forall('e:{EDGE}', (e in result) == (e in graph.edge_set and e[0] == node))"])
CONTRACTS[N_ + 'ConnectionChoiceNode.get_excluded_edges'] = dict(
    properties=['C11'],
    types={'self': 'Ref[ConnectionChoiceNode]', 'graph': 'Ref[NxGraph]'},
    returns=f'List[{EDGE}]',
    locals={'excluded': f'List[{EDGE}]'},
    defs={'is_src': (('x',), f"isinstance(x, ConnectorNode) and exists('e:{EDGE}', e in graph.edge_set and e[0] == x and e[1] == self)")},
    calls={'self.get_src_nodes': SRC_NODES, 'iter_out_edges': ITER_OUT_T},
    loops={'for node in self.get_src_nodes(graph)': dict(index='i', seq='srcs', invariant={
        'only-exclusion-edges-of-sources': "forall(q, 0, len(excluded), excluded[q] in graph.edge_set and excluded[q][3] == EdgeType.EXCLUDES and exists(j, 0, i, srcs[j] == excluded[q][0]))",
        'all-of-them': f"forall('e:{EDGE}', forall(j, 0, i, implies(e in graph.edge_set and e[3] == EdgeType.EXCLUDES and e[0] == srcs[j], e in excluded)))"})},
    ensures={'exactly-the-exclusion-edges-of-the-sources': ('property',
             f"forall('e:{EDGE}', (e in result) == (e in graph.edge_set and e[3] == EdgeType.EXCLUDES and is_src(e[0])))")},
    modifies=[],
)

CONTRACTS[N_ + 'ConnectionChoiceNode.get_deriving_edges'] = dict(
    properties=['C11'],
    types={'self': 'Ref[ConnectionChoiceNode]', 'graph': 'Ref[NxGraph]'},
    returns=f'List[{EDGE}]',
    locals={'deriving_edges': f'List[{EDGE}]', 'tgt_nodes': 'List[Ref]'},
    defs={'is_src': (('x',), f"isinstance(x, ConnectorNode) and exists('e:{EDGE}', e in graph.edge_set and e[0] == x and e[1] == self)"),
          'is_tgt': (('x',), f"isinstance(x, ConnectorNode) and exists('e:{EDGE}', e in graph.edge_set and e[1] == x and e[0] == self)")},
    calls={'self.get_src_nodes': SRC_NODES, 'self.get_tgt_nodes': TGT_NODES, 'iter_out_edges': ITER_OUT_L, 'get_edge_type': GET_TYPE},
    loops={
        'for node in self.get_src_nodes(graph)': dict(index='i', seq='srcs', invariant={
            'only-derivations-between-connectors': "forall(q, 0, len(deriving_edges), deriving_edges[q] in graph.edge_set and deriving_edges[q][3] == EdgeType.DERIVES "
                                                   "and is_tgt(deriving_edges[q][1]) and exists(j, 0, i, srcs[j] == deriving_edges[q][0]))",
            'all-of-them': f"forall('e:{EDGE}', forall(j, 0, i, implies(e in graph.edge_set and e[3] == EdgeType.DERIVES and e[0] == srcs[j] and is_tgt(e[1]), e in deriving_edges)))"}),
        'for edge in iter_out_edges(graph, node)': dict(index='k', seq='outs', invariant={
            'only-derivations-between-connectors': "forall(q, 0, len(deriving_edges), deriving_edges[q] in graph.edge_set and deriving_edges[q][3] == EdgeType.DERIVES "
                                                   "and is_tgt(deriving_edges[q][1]) and exists(j, 0, i + 1, srcs[j] == deriving_edges[q][0]))",
            'all-of-them': f"forall('e:{EDGE}', forall(j, 0, i, implies(e in graph.edge_set and e[3] == EdgeType.DERIVES and e[0] == srcs[j] and is_tgt(e[1]), e in deriving_edges)))",
            'this-node-so-far': f"forall(q, 0, k, implies(outs[q][3] == EdgeType.DERIVES and is_tgt(outs[q][1]), outs[q] in deriving_edges))"}),
    },
    ensures={'exactly-the-derivation-edges-between-sources-and-targets': ('property',
             f"forall('e:{EDGE}', (e in result) == (e in graph.edge_set and e[3] == EdgeType.DERIVES and is_src(e[0]) and is_tgt(e[1])))")},
    modifies=[],
)


_C = CONTRACTS[F + 'get_mod_apply_connection_choice']
_C['calls']['choice_node.get_excluded_edges'] = N_ + 'ConnectionChoiceNode.get_excluded_edges'
_C['calls']['choice_node.get_deriving_edges'] = N_ + 'ConnectionChoiceNode.get_deriving_edges'
_C['defs']['is_csrc'] = (('x',), f"isinstance(x, ConnectorNode) and exists('e:{EDGE}', e in graph.edge_set and e[0] == x and e[1] == choice_node)")
_C['defs']['is_ctgt'] = (('x',), f"isinstance(x, ConnectorNode) and exists('e:{EDGE}', e in graph.edge_set and e[1] == x and e[0] == choice_node)")
# statement of C11: the exclusion edges of the choice's source connectors go, together with the derivation edges that
# tie its source connectors to its target connectors; nothing else is removed
_C['ensures']['exclusion-and-tie-edges-removed'] = ('property',
    f"forall('e:{EDGE}', (e in result[0]) == (e in graph.edge_set and is_csrc(e[0]) and "
    f"(e[3] == EdgeType.EXCLUDES or (e[3] == EdgeType.DERIVES and is_ctgt(e[1])))))")


def _conn_graphs(n, seed):
    import random, os
    import networkx as nx
    from adsg_core.graph.graph_edges import EdgeType, add_edge, HashableDict
    from adsg_core.graph.adsg_nodes import NamedNode, ConnectorNode, ConnectionChoiceNode
    rng = random.Random(seed + int(os.environ.get('VERIF_SEED', '0') or 0))
    for _ in range(n):
        srcs = [ConnectorNode(f's{i}', deg_min=0, deg_max=3, repeated_allowed=True) for i in range(rng.randint(1, 2))]
        tgts = [ConnectorNode(f't{i}', deg_min=0, deg_max=3, repeated_allowed=True) for i in range(rng.randint(1, 3))]
        plain = [NamedNode(f'n{i}') for i in range(2)]
        choice = ConnectionChoiceNode('cc')
        g = nx.MultiDiGraph()
        g.edge_attr_dict_factory = HashableDict
        nodes = srcs + tgts + plain + [choice]
        g.add_nodes_from(nodes)
        es = set()

        def add(u, v, t):
            key = g.new_edge_key(u, v)
            add_edge(g, u, v, key=key, edge_type=t)
            es.add((u, v, key, t))
        for x in srcs:
            add(x, choice, EdgeType.DERIVES)
        for x in tgts:
            add(choice, x, EdgeType.DERIVES)
        if rng.random() < 0.3:
            add(plain[0], choice, EdgeType.DERIVES)   # a non-connector predecessor
        for _ in range(rng.randint(0, 5)):
            u = rng.choice(srcs + plain)
            v = rng.choice(tgts + plain + srcs)
            if u is not v:
                add(u, v, rng.choice([EdgeType.EXCLUDES, EdgeType.DERIVES, EdgeType.DERIVES, EdgeType.INCOMPATIBILITY]))
        g.edge_set = es
        yield rng, g, es, nodes, srcs, tgts, plain, choice


def _red(edge):
    from adsg_core.graph.graph_edges import get_edge_type
    return tuple(edge[:-1]) + (get_edge_type(edge),)


def _uni(nodes, es):
    from adsg_core.graph.graph_edges import EdgeType
    cands = set(es)
    for u in nodes:
        for v in nodes:
            for k in (0, 1, 2):
                cands.add((u, v, k, EdgeType.CONNECTS))
    return {'Ref': nodes, 'Int': [0, 1, 2, 3], EDGE: list(cands)}


def _domain_conn_edges(which):
    def dom(n):
        from adsg_core.graph.graph_edges import EdgeType
        from adsg_core.graph.adsg_nodes import ConnectorNode, ConnectionChoiceNode
        for rng, g, es, nodes, srcs, tgts, plain, choice in _conn_graphs(n, 8300):
            env = {'self': choice, 'graph': g, 'EdgeType': EdgeType, 'ConnectorNode': ConnectorNode}
            yield (env, (lambda g=g, choice=choice: [_red(e) for e in getattr(choice, which)(g)]), _uni(nodes, es),
                   f'ConnectionChoiceNode.{which}(edges={[(str(u), str(v), k, t.name) for u, v, k, t in es]})')
    return dom


def _domain_apply_connection(n):
    from adsg_core.graph.graph_edges import EdgeType
    from adsg_core.graph.adsg_nodes import ConnectorNode
    from adsg_core.graph.choices import get_mod_apply_connection_choice
    for rng, g, es, nodes, srcs, tgts, plain, choice in _conn_graphs(n, 8400):
        edges = []
        for _ in range(rng.randint(0, 5)):
            s = rng.choice(srcs) if rng.random() < 0.92 else rng.choice(plain)
            t = rng.choice(tgts + [None]) if rng.random() < 0.92 else rng.choice(plain)
            edges.append((s, t))
        env = {'graph': g, 'choice_node': choice, 'edges': list(edges), 'EdgeType': EdgeType, 'ConnectorNode': ConnectorNode}

        def call(g=g, choice=choice, edges=edges):
            r = get_mod_apply_connection_choice(g, choice, list(edges))
            return {_red(e) for e in r[0]}, set(r[1]), {_red(e) for e in r[2]}
        yield (env, call, _uni(nodes, es),
               f'get_mod_apply_connection_choice(edges={[(str(u), str(v), k, t.name) for u, v, k, t in es]}, '
               f'connections={[(str(a), None if b is None else str(b)) for a, b in edges]})')


DOMAIN[F + 'get_mod_apply_connection_choice'] = _domain_apply_connection
DOMAIN[N_ + 'ConnectionChoiceNode.get_excluded_edges'] = _domain_conn_edges('get_excluded_edges')
DOMAIN[N_ + 'ConnectionChoiceNode.get_deriving_edges'] = _domain_conn_edges('get_deriving_edges')


# ---------------------------------------------------------------- ConnectionChoiceNode.validate_conn_edges (C11)
# graph-level validity of a set of connection edges: the edges are counted into the connection matrix of the
# connectors as the matrix generator orders them, and that matrix is what the generator's validity test judges
CLASSES['MatrixGenX'] = {}
CONTRACTS[N_ + 'ConnectionChoiceNode.validate_conn_edges'] = dict(
    properties=['C11'],
    types={'self': 'Ref[ConnectionChoiceNode]', 'dsg': 'Ref', 'edges': 'List[Tuple[Ref,Ref]]'},
    returns='Bool',
    funcs={'VALID': (['Np2[Int]'], 'Bool')},       # AggregateAssignmentMatrixGenerator.validate_matrix of this choice
    locals={'matrix_gen': 'Ref[MatrixGenX]', 'node_map': 'Tuple[List[Ref],List[Ref]]', 'matrix': 'Np2[Int]',
            'src_idx_map': 'Dict[Ref,Int]', 'tgt_idx_map': 'Dict[Ref,Int]'},
    post_locals=['node_map', 'matrix'],
    calls={
        'self._get_matrix_gen': dict(params=['dsg'], types={}, returns='Tuple[Ref[MatrixGenX],Tuple[List[Ref],List[Ref]]]', modifies=[], assumed=True, receiver='self',
                                     # connectors of one side are pairwise distinct nodes
                                     ensures=['forall(a, 0, len(result[1][0]), forall(b, 0, len(result[1][0]), implies(a != b, result[1][0][a] != result[1][0][b])))',
                                              'forall(a, 0, len(result[1][1]), forall(b, 0, len(result[1][1]), implies(a != b, result[1][1][a] != result[1][1][b])))']),
        'matrix_gen.validate_matrix': dict(params=['m'], types={}, returns='Bool', modifies=[], assumed=True, receiver='matrix_gen', pure_expr='VALID(m)'),
    },
    defs={
        'isrc': (('x',), 'exists(a, 0, len(node_map[0]), node_map[0][a] == x)'),
        'itgt': (('x',), 'exists(b, 0, len(node_map[1]), node_map[1][b] == x)'),
    },
    loops={'for src, tgt in edges': dict(index='k', invariant={
        'known-so-far': 'forall(q, 0, k, isrc(edges[q][0]) and itgt(edges[q][1]))',
        'shape': 'matrix.shape[0] == len(node_map[0]) and matrix.shape[1] == len(node_map[1])',
        'counts-so-far': 'forall(a, 0, len(node_map[0]), forall(b, 0, len(node_map[1]), matrix[a, b] == count(edges, (node_map[0][a], node_map[1][b]), k)))',
    })},
    ensures={
        'foreign-connector-rejected': ('property', 'implies(exists(q, 0, len(edges), not (isrc(edges[q][0]) and itgt(edges[q][1]))), result == False)'),
        'matrix-counts-the-edges': ('property',
            'implies(forall(q, 0, len(edges), isrc(edges[q][0]) and itgt(edges[q][1])), '
            'forall(a, 0, len(final_node_map[0]), forall(b, 0, len(final_node_map[1]), final_matrix[a, b] == count(edges, (final_node_map[0][a], final_node_map[1][b]), len(edges)))))'),
        'judged-by-the-generator': ('property', 'implies(forall(q, 0, len(edges), isrc(edges[q][0]) and itgt(edges[q][1])), result == VALID(final_matrix))'),
    },
    modifies=[],
)


def _domain_validate_conn_edges(n):
    import os
    import random
    import numpy as np
    from pyvc.replay import segment_callable, SegmentResult
    from adsg_core.graph.adsg_basic import BasicDSG
    from adsg_core.graph.adsg_nodes import NamedNode, ConnectorNode
    key = N_ + 'ConnectionChoiceNode.validate_conn_edges'
    seg = segment_callable(key, dict(CONTRACTS[key], stop_before='return matrix_gen.validate_matrix'),
                           os.environ.get('VERIF_REPO', '/repo'))
    rng = random.Random(1111 + int(os.environ.get('VERIF_SEED', '0') or 0))
    specs = ['*', '+', '?', 'req', '0..2', '1..2', [0, 2], 2]
    for _ in range(n):
        ns, nt = rng.randint(1, 2), rng.randint(1, 3)
        root = NamedNode('R')
        srcs = [ConnectorNode(f's{i}', deg_spec=rng.choice(specs), repeated_allowed=rng.random() < 0.5) for i in range(ns)]
        tgts = [ConnectorNode(f't{i}', deg_spec=rng.choice(specs), repeated_allowed=rng.random() < 0.5) for i in range(nt)]
        dsg = BasicDSG()
        dsg.add_edges([(root, c) for c in srcs + tgts])
        choice = dsg.add_connection_choice('K', srcs, tgts)
        dsg = dsg.set_start_nodes({root})
        foreign = ConnectorNode('foreign', deg_spec='*')
        edges = []
        for _ in range(rng.randint(0, 4)):
            r = rng.random()
            if r < 0.08:
                edges.append((foreign, rng.choice(tgts)))
            elif r < 0.16:
                edges.append((rng.choice(tgts), rng.choice(srcs)))     # wrong way round
            else:
                edges.append((rng.choice(srcs), rng.choice(tgts)))
        try:
            gen_, nmap = choice._get_matrix_gen(dsg)
        except Exception:  # noqa
            continue
        # node_map is also given up front: a run that returns early (foreign connector) has no locals to show
        env = {'self': choice, 'dsg': dsg, 'edges': list(edges), 'node_map': nmap, 'final_node_map': nmap,
               'VALID': (lambda m, gen_=gen_: bool(gen_.validate_matrix(np.array(m))))}

        def call(choice=choice, dsg=dsg, edges=edges):
            r = seg(self=choice, dsg=dsg, edges=list(edges))
            return SegmentResult(bool(choice.validate_conn_edges(dsg, list(edges))), r.locals if r.stopped else
                                 {k: v for k, v in r.locals.items()}, r.stopped)
        yield (env, call, {'Ref': srcs + tgts + [foreign]},
               f'validate_conn_edges(srcs={[c.get_full_deg_str() for c in srcs]}, tgts={[c.get_full_deg_str() for c in tgts]}, '
               f'edges={[(str(a), str(b)) for a, b in edges]})')


DOMAIN[N_ + 'ConnectionChoiceNode.validate_conn_edges'] = _domain_validate_conn_edges


# ---- connector grouping node: aggregate degree of the members that exist in *this* graph (C11, C08) -------------------
# The grouping node object is shared between all graphs derived from one model and carries the aggregate as plain
# fields; `update_deg` rewrites exactly these fields from the member connectors of the graph it is given (filtered by
# the existing nodes when asked) and nothing else.
CLASSES['ConnectorNode'] = {'deg_list': 'Optional[List[Int]]', 'deg_min': 'Optional[Int]', 'deg_max': 'Optional[Real]',
                            'repeated_allowed': 'Bool', 'perm_decision_link_key': 'Optional[Int]'}
CLASSES['ConnectorDegreeGroupingNode'] = {'__bases__': ('ConnectorNode',)}     # class ConnectorDegreeGroupingNode(ConnectorNode)
CONTRACTS[N_ + 'ConnectorDegreeGroupingNode.get_repeated_allowed'] = dict(
    properties=['C11', 'C08'],
    types={'connectors': 'List[Ref[ConnectorNode]]'},
    returns='Bool',
    loops={'for connector in connectors': dict(index='k', invariant={
        'none-so-far': 'forall(j, 0, k, not connectors[j].repeated_allowed)'})},
    ensures={'iff-some-member-allows-repeats': ('property', 'result == exists(j, 0, len(connectors), connectors[j].repeated_allowed)')},
    modifies=[],
)


def _domain_repeated_allowed(n):
    import random, os
    from adsg_core.graph.adsg_nodes import ConnectorNode, ConnectorDegreeGroupingNode
    rng = random.Random(9300 + int(os.environ.get('VERIF_SEED', '0') or 0))
    for _ in range(n):
        cs = [ConnectorNode(f'c{i}', deg_list=[1], repeated_allowed=rng.random() < 0.3) for i in range(rng.randint(0, 4))]
        yield ({'connectors': cs}, (lambda cs=cs: ConnectorDegreeGroupingNode.get_repeated_allowed(cs)), {},
               f'get_repeated_allowed({[c.repeated_allowed for c in cs]})')


DOMAIN = dict(globals().get('DOMAIN', {}))
DOMAIN[N_ + 'ConnectorDegreeGroupingNode.get_repeated_allowed'] = _domain_repeated_allowed


ITER_IN_T = dict(params=['graph', 'node', 'edge_type'], types={}, returns=f'List[{EDGE}]', modifies=[], assumed=True,
                 ensures=[f"forall('e:{EDGE}', (e in result) == (e in graph.edge_set and e[1] == node and e[3] == edge_type))"])
DEG3 = 'Tuple[Optional[List[Int]],Optional[Int],Optional[Real]]'
MEMBER_OF = f"exists('e:{EDGE}', e in graph.edge_set and e[0] == x and e[1] == self and e[3] == EdgeType.DERIVES)"
# variant: the call shape of every call site in the library (DSG._update_connector_grouping_degrees, _get_assign_nodes,
# get_unconnected_connectors, BasicDSG): no `existing_nodes` filter; the variant with a filter follows below.  Both need
# `comprehension_as_array`: with the member list as a lambda term under the quantified facts of the comprehensions z3
# answers `unknown` at once (incomplete array theory) and cvc5 does not take lambdas.
CONTRACTS[N_ + 'ConnectorDegreeGroupingNode.update_deg@whole-graph'] = dict(
    properties=['C11', 'C08'],
    requires={'no-existence-filter': 'existing_nodes is None'},
    comprehension_as_array=True,
    types={'self': 'Ref[ConnectorDegreeGroupingNode]', 'graph': 'Ref[NxGraph]', 'existing_nodes': 'Optional[Set[Ref]]'},
    locals={'connectors': 'List[Ref[ConnectorNode]]'},
    post_locals=['connectors'],
    funcs={'COMBINED': (['List[Ref[ConnectorNode]]'], DEG3)},
    defs={'member': (('x',), MEMBER_OF)},
    calls={
        'iter_in_edges': ITER_IN_T,
        # the combined degree is a function of the member list (get_combined_deg -- math.inf, itertools.product -- is
        # bounded only); the repeat flag is checked against the contract of the real get_repeated_allowed (above)
        'self.get_combined_deg': dict(params=['cs'], types={}, returns=DEG3, modifies=[], assumed=True, receiver='self', pure_expr='COMBINED(cs)'),
        'self.get_repeated_allowed': N_ + 'ConnectorDegreeGroupingNode.get_repeated_allowed',
    },
    loops={'for node in connectors': dict(index='k', invariant={
        'no-earlier-member-had-a-key': 'forall(j, 0, k, not connectors[j].perm_decision_link_key)',
        'link-keys-untouched-so-far': "forall('x:Ref[ConnectorNode]', x.perm_decision_link_key == old(x.perm_decision_link_key))",
        'aggregate-kept': 'self.deg_list == COMBINED(connectors)[0] and self.deg_min == COMBINED(connectors)[1] and self.deg_max == COMBINED(connectors)[2] and self.repeated_allowed == exists(j, 0, len(connectors), connectors[j].repeated_allowed)',
    })},
    ensures={
        # statement of C11: the grouping connector aggregates exactly its members that are present
        'only-present-members-counted': ('property', "forall(j, 0, len(final_connectors), member(final_connectors[j]) and implies(existing_nodes is not None, final_connectors[j] in existing_nodes))"),
        'every-present-member-counted': ('property', "forall('x:Ref', implies(member(x) and implies(existing_nodes is not None, x in existing_nodes), x in final_connectors))"),
        'aggregate-degree-of-exactly-these': ('property', 'self.deg_list == COMBINED(final_connectors)[0] and self.deg_min == COMBINED(final_connectors)[1] and self.deg_max == COMBINED(final_connectors)[2]'),
        'repeats-allowed-iff-some-present-member-allows-them': ('property', 'self.repeated_allowed == exists(j, 0, len(final_connectors), final_connectors[j].repeated_allowed)'),
    },
    modifies=['self.deg_list', 'self.deg_min', 'self.deg_max', 'self.repeated_allowed', 'self.perm_decision_link_key'],
)


def _domain_update_deg(n, with_filter=False):
    import random, os
    import networkx as nx
    from adsg_core.graph.graph_edges import EdgeType, add_edge, HashableDict
    from adsg_core.graph.adsg_nodes import NamedNode, ConnectorNode, ConnectorDegreeGroupingNode
    rng = random.Random(9400 + int(os.environ.get('VERIF_SEED', '0') or 0))
    for _ in range(n):
        members = [ConnectorNode(f'c{i}', deg_list=sorted(rng.sample(range(0, 4), rng.randint(1, 2))),
                                 repeated_allowed=rng.random() < 0.4) for i in range(rng.randint(0, 3))]
        others = [ConnectorNode(f'o{i}', deg_list=[7], repeated_allowed=True) for i in range(rng.randint(0, 2))]
        grp = ConnectorDegreeGroupingNode('g')
        grp.deg_list, grp.deg_min, grp.deg_max, grp.repeated_allowed = [99], None, None, rng.random() < 0.5   # stale state
        g = nx.MultiDiGraph()
        g.edge_attr_dict_factory = HashableDict
        g.add_nodes_from(members + others + [grp])
        es = set()

        def add(u, v, t):
            key = g.new_edge_key(u, v)
            add_edge(g, u, v, key=key, edge_type=t)
            es.add((u, v, key, t))
        for m in members:
            add(m, grp, EdgeType.DERIVES)
        for o in others:       # not members: other edge types into the group, or edges out of it
            if rng.random() < 0.5:
                add(o, grp, rng.choice([EdgeType.INCOMPATIBILITY, EdgeType.EXCLUDES]))
            else:
                add(grp, o, EdgeType.DERIVES)

        class G:
            edge_set = es
        existing = None
        if with_filter:
            pool = members + others
            existing = set(rng.sample(pool, rng.randint(0, len(pool)))) if pool else set()
        env = {'self': grp, 'graph': G, 'existing_nodes': existing, 'EdgeType': EdgeType,
               'COMBINED': (lambda cs: tuple(ConnectorDegreeGroupingNode.get_combined_deg(list(cs)))),
               }

        def call(grp=grp, g=g, existing=existing):
            from pyvc.replay import SegmentResult
            grp.update_deg(g, existing) if existing is not None else grp.update_deg(g)
            cs = [e[0] for e in g.in_edges(grp, keys=True, data=True) if e[3].get('type') == EdgeType.DERIVES
                  and (existing is None or e[0] in existing)]
            return SegmentResult(None, {'connectors': cs}, False)
        yield (env, call, {'Ref': members + others + [grp], EDGE: list(es)},
               f'update_deg: members {[(m.name, m.deg_list, m.repeated_allowed) for m in members]}, non-members {[o.name for o in others]}'
               + (f', existing {sorted(x.name for x in existing)}' if existing is not None else ''))


DOMAIN[N_ + 'ConnectorDegreeGroupingNode.update_deg@whole-graph'] = _domain_update_deg


# ---- ConnectorNode.is_valid: the degree test behind the unconnectable-connector feasibility check (C11) ---------------
# An open-ended connector stores deg_max = math.inf; the verifier's reals have no infinity, so the proved clause covers
# finite bounds and lists, and the open-ended case is evaluated on the function's bounded domain (real floats).
CONTRACTS[N_ + 'ConnectorNode.is_valid'] = dict(
    properties=['C11'],
    types={'self': 'Ref[ConnectorNode]', 'degree': 'Int'},
    returns='Bool',
    requires={'range-set-when-no-list': 'implies(self.deg_list is None, self.deg_min is not None and self.deg_max is not None)'},
    ensures={
        'listed-degrees-exactly': ('property', 'implies(self.deg_list is not None, result == (degree in self.deg_list))'),
        'range-inclusive-both-ends': ('property', 'implies(self.deg_list is None, result == (self.deg_min <= degree and degree <= self.deg_max))'),
    },
    modifies=[],
)


def _domain_is_valid(n):
    import random, os, math
    from adsg_core.graph.adsg_nodes import ConnectorNode
    rng = random.Random(9600 + int(os.environ.get('VERIF_SEED', '0') or 0))
    for _ in range(n):
        r = rng.random()
        if r < 0.4:
            c = ConnectorNode('c', deg_list=sorted(rng.sample(range(0, 6), rng.randint(1, 3))))
        elif r < 0.7:
            lo = rng.randint(0, 3)
            c = ConnectorNode('c', deg_min=lo, deg_max=lo + rng.randint(0, 3))
        else:
            c = ConnectorNode('c', deg_min=rng.randint(0, 3), deg_max=math.inf)
        d = rng.randint(0, 7)
        yield ({'self': c, 'degree': d}, (lambda c=c, d=d: c.is_valid(d)), {},
               f'ConnectorNode(deg_list={c.deg_list}, deg_min={c.deg_min}, deg_max={c.deg_max}).is_valid({d})')


DOMAIN[N_ + 'ConnectorNode.is_valid'] = _domain_is_valid


# second call shape: with an existence filter (public API; the library's own call sites pass none)
CONTRACTS[N_ + 'ConnectorDegreeGroupingNode.update_deg@existing-subset'] = dict(
    CONTRACTS[N_ + 'ConnectorDegreeGroupingNode.update_deg@whole-graph'],
    requires={'existence-filter-given': 'existing_nodes is not None'},
)
DOMAIN[N_ + 'ConnectorDegreeGroupingNode.update_deg@existing-subset'] = (lambda n: _domain_update_deg(n, with_filter=True))
