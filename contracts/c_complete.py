"""Sidecar contracts: adsg_core/optimization/hierarchy/complete.py (C01, C04, C07, C15)."""

F = 'adsg_core/optimization/hierarchy/complete.py:'

CLASSES = {
    'ApplyIterSpec': {'n_every': 'Int', 'n_total': 'Int', 'offsets': 'List[Tuple[Int,Int]]'},
}

HIT = 'exists(j, 0, len(self.offsets), self.offsets[j][0] <= x % self.n_every and x % self.n_every < self.offsets[j][0] + self.offsets[j][1])'

CONTRACTS = {
    F + 'ApplyIterSpec.__contains__': dict(
        properties=['C01', 'C04', 'C07', 'C15'],
        types={'self': 'Ref[ApplyIterSpec]', 'idx': 'Int'},
        returns='Bool',
        requires={'period-positive': 'self.n_every > 0'},
        defs={'hit': (('x',), HIT)},
        loops={'for offset, n_apply in self.offsets': dict(index='k', invariant={
            'no-hit-so-far': 'forall(j, 0, k, not (self.offsets[j][0] <= idx_mod and idx_mod < self.offsets[j][0] + self.offsets[j][1]))',
        })},
        ensures={'membership': ('property', 'result == (0 <= idx and idx < self.n_total and hit(idx))')},
        modifies=[],
    ),
}


def _domain_contains(n):
    import random, os
    from adsg_core.optimization.hierarchy.complete import ApplyIterSpec
    rng = random.Random(6000 + int(os.environ.get('VERIF_SEED', '0') or 0))
    for _ in range(n):
        n_every = rng.randint(1, 6)
        offs = []
        for _ in range(rng.randint(0, 3)):
            o = rng.randint(0, n_every - 1)
            offs.append((o, rng.randint(0, n_every - o)))
        spec = ApplyIterSpec(scenario=None, i_scenario=0, i_usi=0, i_comb=0, n_every=n_every, offsets=offs,
                             n_total=n_every * rng.randint(0, 3))
        idx = rng.randint(-2, spec.n_total + 2)
        yield ({'self': spec, 'idx': idx}, (lambda s=spec, i=idx: s.__contains__(i)), {},
               f'ApplyIterSpec(n_every={n_every}, offsets={offs}, n_total={spec.n_total}).__contains__({idx})')


DOMAIN = {F + 'ApplyIterSpec.__contains__': _domain_contains}
