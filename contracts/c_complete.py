"""Sidecar contracts: adsg_core/optimization/hierarchy/complete.py (C01, C04, C07, C15)."""

F = 'adsg_core/optimization/hierarchy/complete.py:'

CLASSES = {
    'ApplyIterSpec': {'n_every': 'Int', 'n_total': 'Int', 'offsets': 'List[Tuple[Int,Int]]'},
}

HIT = 'exists(j, 0, len(self.offsets), self.offsets[j][0] <= x % self.n_every and x % self.n_every < self.offsets[j][0] + self.offsets[j][1])'

CONTRACTS = {
    F + 'ApplyIterSpec.__contains__': dict(
        properties=['C01', 'C04', 'C07', 'C15'],
        types={'self': 'Ref[ApplyIterSpec]', 'idx': 'Int'},
        returns='Bool',
        requires={'period-positive': 'self.n_every > 0'},
        defs={'hit': (('x',), HIT)},
        loops={'for offset, n_apply in self.offsets': dict(index='k', invariant={
            'no-hit-so-far': 'forall(j, 0, k, not (self.offsets[j][0] <= idx_mod and idx_mod < self.offsets[j][0] + self.offsets[j][1]))',
        })},
        ensures={'membership': ('property', 'result == (0 <= idx and idx < self.n_total and hit(idx))')},
        modifies=[],
    ),
}


def _domain_contains(n):
    import random, os
    from adsg_core.optimization.hierarchy.complete import ApplyIterSpec
    rng = random.Random(6000 + int(os.environ.get('VERIF_SEED', '0') or 0))
    for _ in range(n):
        n_every = rng.randint(1, 6)
        offs = []
        for _ in range(rng.randint(0, 3)):
            o = rng.randint(0, n_every - 1)
            offs.append((o, rng.randint(0, n_every - o)))
        spec = ApplyIterSpec(scenario=None, i_scenario=0, i_usi=0, i_comb=0, n_every=n_every, offsets=offs,
                             n_total=n_every * rng.randint(0, 3))
        idx = rng.randint(-2, spec.n_total + 2)
        yield ({'self': spec, 'idx': idx}, (lambda s=spec, i=idx: s.__contains__(i)), {},
               f'ApplyIterSpec(n_every={n_every}, offsets={offs}, n_total={spec.n_total}).__contains__({idx})')


DOMAIN = {F + 'ApplyIterSpec.__contains__': _domain_contains}


# the combinations an iteration spec stands for, enumerated: exactly the indices that __contains__ accepts (the cached
# set `i_set` is set(iter(self)); decoding intersects these sets, membership tests use __contains__)
WELL = ('self.n_every > 0 and self.n_total >= 0 and self.n_total % self.n_every == 0 and '
        'forall(j, 0, len(self.offsets), 0 <= self.offsets[j][0] and 0 <= self.offsets[j][1] and self.offsets[j][0] + self.offsets[j][1] <= self.n_every)')
DRAFT_CONTRACTS = {}     # not registered: the period arithmetic (symbolic modulus) stays `unknown` in z3 and cvc5
DRAFT_CONTRACTS[F + 'ApplyIterSpec.__iter__'] = dict(
    properties=['C01', 'C04', 'C15', 'C05'],
    types={'self': 'Ref[ApplyIterSpec]'},
    yields='Int',
    requires={'well-formed-spec': WELL},
    # background arithmetic (an unproved axiom of this DRAFT: would have to be proved separately before the contract is
    # registered): inside the q-th period the remainder is the distance to the start of the period
    axioms={'L-mod-in-period': "forall('v:Int', 'q:Int', implies(self.n_every > 0 and q * self.n_every <= v and v < (q + 1) * self.n_every, v % self.n_every == v - q * self.n_every))"},
    defs={'hit': (('x',), HIT),
          'inblock': (('x', 'j'), 'self.offsets[j][0] <= x % self.n_every and x % self.n_every < self.offsets[j][0] + self.offsets[j][1]')},
    loops={
        'for i_start in range(0, self.n_total, self.n_every)': dict(index='b', invariant={
            'only-members': 'forall(a, 0, len(Y), 0 <= Y[a] and Y[a] < b * self.n_every and hit(Y[a]))',
            'all-members-below': "forall('v:Int', implies(0 <= v and v < b * self.n_every and hit(v), exists(a, 0, len(Y), Y[a] == v)))",
        }),
        'for offset, n_apply in self.offsets': dict(index='k', invariant={
            'only-members': 'forall(a, 0, len(Y), 0 <= Y[a] and Y[a] < (b + 1) * self.n_every and hit(Y[a]))',
            'all-members-below': "forall('v:Int', implies(0 <= v and v < b * self.n_every and hit(v), exists(a, 0, len(Y), Y[a] == v)))",
            'this-period-so-far': "forall('v:Int', implies(b * self.n_every <= v and v < (b + 1) * self.n_every and exists(j, 0, k, inblock(v, j)), exists(a, 0, len(Y), Y[a] == v)))",
        }),
    },
    ensures={
        'yields-only-members': ('property', 'forall(a, 0, len(Y), 0 <= Y[a] and Y[a] < self.n_total and hit(Y[a]))'),
        'yields-every-member': ('property', "forall('v:Int', implies(0 <= v and v < self.n_total and hit(v), exists(a, 0, len(Y), Y[a] == v)))"),
    },
    modifies=[],
)
