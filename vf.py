#!/usr/bin/env python3
"""Developer helper: verify the functions whose contract key contains the given substring(s); print every obligation."""
import sys, os
HERE = os.path.dirname(os.path.abspath(__file__))
sys.path.insert(0, HERE)
from pyvc import runner
db = runner.load_db()
for k in sorted(db.contracts):
    if any(s in k for s in sys.argv[1:]):
        out = runner._worker((k, os.environ.get('VERIF_REPO', '/repo'), int(os.environ.get('TMO', '10000')), 0, True))
        print(k, out['error'])
        for x in out['results']:
            print('   ', x['name'], x['status'], f"{x.get('seconds', 0):.2f}", x['detail'][:200] if x['status'] != 'discharged' else '')
