#!/usr/bin/env python3
"""Generates MANIFEST.json from the table below (kept in one place so it stays valid)."""
import json, os
HERE = os.path.dirname(os.path.abspath(__file__))

TECH = 'contract-based deductive verification: VCs generated from the real Python AST + sidecar contracts, discharged by z3/cvc5 (pyvc); bounded run-time contract checking on enumerated inputs as the labelled stand-in where functions are out of reach'
NOTE = 'Trusted: pyvc encoding of the Python subset (cross-checked on every run by executing the same contracts on the real functions), z3 5.1/cvc5, ints mathematical, floats as exact reals, no aliasing between distinct container parameters; assumed callee contracts listed in the evidence; bounded part: reference semantics bounded/specsem.py, enumerated corpus of DESIGN.md Appendix C; known findings in KNOWN_FINDINGS.json.'

CLAIMED = {
 'C01': ('other',
         'Decoding contract (returns, final, feasible, admitted architecture) evaluated at run time on every vector of the declared space of every corpus graph for both encoders (bounded, exhaustive per graph). Proved for all inputs: the kernels on the decode path that are within reach (ApplyIterSpec.__contains__, _get_all_des_var_values, vector clamps of the connection encoders, the existence-infeasibility mask and variable index ranges of _get_des_vars, three segments of GraphProcessor.get_graph, the neighbourhood generator of the fast encoder, the analyzer frame clauses).',
         NOTE, TECH),
 'C02': ('other',
         'Proved for all graphs: closure and minimality of the confirmed-node traversal, exactness of get_non_confirmed_nodes, get_deriving_in_edges, the exact reporting rule of get_confirmed_incompatibility_edges, and the edge/node bookkeeping of get_mod_apply_selection_choice up to its incompatibility step (origin->option edges added, choice node and unselected option edges removed, zero-option marker). Instance = closure, order independence and the feasible-leaf set are contracts on get_for_apply_selection_choice evaluated along all choice orders of the corpus (bounded); the recursive derived-edge walks are assumed callees.',
         NOTE, TECH),
 'C03': ('other',
         'Clamp, fixed-vector and activeness kernels of the connection encoders are proved (correct_vector_size/bounds, _correct_is_active); canonical-fixed-point and vector-describes-instance clauses are run-time contracts over the full declared space of every corpus graph (bounded). The corrected vector reported by the connection managers is proved to be the encoder answer with -1 replaced by 0 (get_matrix / get_conn_idx of both managers).',
         NOTE, TECH),
 'C04': ('other',
         'Enumeration = reference architectures (sound, complete, one each), counts and imputation ratio are run-time contracts on get_all_discrete_x / get_n_valid_designs over the corpus with and without one fixed variable (bounded); the scenario-merging numpy code is outside the deductive reach. Also proved: get_imputation_ratio and HierarchyAnalyzerBase.imputation_ratio are the quotient of declared size and valid count (1 when there is no valid design), over uninterpreted counts.',
         NOTE, TECH),
 'C05': ('other',
         'History-independence: after every operation history (length 2 quick / 3 thorough over decode, enumerate, statistics, mutate instance, pickle, fix, free) the processor must be observationally equal to a fresh one (bounded, exhaustive over the history alphabet); frame clauses of the analyzer proved where reached. Also proved (shared with C15): after every fix_des_var and free_des_var the stored combination mask is the mask of the current fixed values, so no fix/free history leaves a stale mask behind.',
         NOTE, TECH),
 'C06': ('other',
         'Proved for all graphs: the confirmed-pair test (get_confirmed_incompatibility_edges), the first half of get_mod_nodes_remove_incompatibilities (which nodes go, when the graph is infeasible) and the upstream search get_incompatibility_deriving_nodes (nothing that necessarily derives the target is missed, nothing else is collected) and get_deriving_in_edges (exactly the in-edges that still derive a node given what was removed). Enforcement, no-over-pruning and infeasible-stays-infeasible are contracts evaluated on every node of the choice tree of the INC corpus (bounded).',
         NOTE, TECH),
 'C07': ('other',
         'Activeness/imputation kernel (_correct_is_active, inactive canonical value, get_graph tail) proved; agreement between enumeration, create=True/False and corrected raw vectors is a run-time contract over all vectors of the corpus (bounded). Also proved: on every path through AssignmentManager / LazyAssignmentManager (get_matrix, correct_vector, get_conn_idx) the reported vector and activeness are exactly the (-1 to 0, inactive) conversion of the encoder answer for that vector and existence pattern, so these paths agree with each other (encoder answer uninterpreted).',
         NOTE, TECH),
 'C08': ('other',
         'Every derive/decode operation followed by re-observation of all live graph objects through the public API (bounded); frame clauses of copy/derive functions proved where reached. Proved: the value dicts handed out (des_var_values, metric_values) are fresh objects with the same content, set_metric_value touches one key, ConnectorDegreeGroupingNode.update_deg (call shape of the library) writes only the aggregate fields of that grouping node and no other connector.',
         NOTE, TECH),
 'C09': ('other',
         'The jit-compiled validity test (_check_conns, _validate_matrix) is proved equivalent to the statement-level definition of a valid connection matrix for all matrices and settings (deductive, unbounded); enumeration, counting and the composed validate_matrix are checked against brute force on enumerated settings (bounded). Also proved: MatrixGenSettings.get_max_conn_parallel (explicit limit at least 1; default at least 2, at least every finite degree, attained).',
         NOTE, TECH),
 'C10': ('other',
         'Totality/range/fixed-point/onto/listing clauses as run-time contracts for every registry encoder x imputer over the full vector space [-1..n_opts] of enumerated settings (bounded); vector-size and clamp kernels proved. The managers public decode functions (get_matrix, correct_vector, get_conn_idx of both managers) are proved to pass the encoder answer on unchanged apart from the documented -1 conversion, and to report no edges exactly for the constraint-violation marker.',
         NOTE, TECH),
 'C11': ('other',
         'Proved for all inputs: get_mod_apply_connection_choice adds exactly the given connections (parallel ones as keyed edges), removes the choice node and exactly the exclusion / tie edges (with get_excluded_edges and get_deriving_edges under their own contracts); the exclusion-pair remapping per existence pattern; ConnectionChoiceNode.validate_conn_edges (edges counted into the matrix in the connector order of the matrix generator, foreign connectors rejected, verdict = the validity test of the generator, which is proved under C09). Connection sets offered per selection scenario = brute-force valid sets and decoded sets valid for the present connectors are bounded contracts over the CONN corpus. Also proved: update_deg counts exactly the member connectors of this graph (repeat flag via the proved get_repeated_allowed), ConnectorNode.is_valid is the listed-degree / inclusive-range test (open-ended maxima bounded only).',
         NOTE, TECH),
 'C13': ('other',
         'Proved: the row predicates of get_valid_idx_combinations (non-decreasing / strictly increasing), get_constraint_pre_removed_options (a PERMUTATION is only pruned when unsatisfiable; UNORDERED_NOREPL removes only unreachable indices), linked design-variable propagation of DSG.set_des_var_value. Index functions checked exhaustively on the bound the property names and offered architectures = reference for both encoders (bounded); get_constraint_removed_options stays bounded (draft contract undecided).',
         NOTE, TECH),
 'C14': ('other',
         'Fast-encoder soundness/onto/valid-unchanged as run-time contracts over the full declared space, plus independence from other processors of the same process (bounded); proved: the neighbourhood generator _iter_values (current value first, every value of the range tried) and one half of _get_selection_choice_is_forced (every later member of a LINKED constraint, in the analyzer order, is forced); its other half (nothing else is forced) is a bounded clause on the constrained corpus. Also proved: _get_n_opts declares one option count per selection choice, equal to the number of its options.',
         NOTE, TECH),
 'C15': ('other',
         'Proved: fix_des_var / is_fixed / fixed_value bookkeeping, _get_all_des_var_values (fixed values merged in order), _update_comb_fixed_mask (fixed choices keyed by choice index; the stored mask is always the answer for the current fixed choices), frame clauses of the analyzer. fix/free sequences compared with filtering the unfixed enumeration and with a fresh processor (bounded). Also proved: after every fix and every free the stored mask is the mask of the current fixed values (MASKOF, under the assumed determinism of the analyzer); free_des_var removes exactly that entry (checked against the contract of fix_des_var); fix_des_var is checked against the contract of the real _update_comb_fixed_mask.',
         NOTE, TECH),
 'C16': ('other',
         'Proved for all inputs: DesignVariableNode.correct_value (clamp, integrality, fraction), DSG.set_des_var_value (stored value in domain, linked nodes clamped to their own range / same relative position), DSG.des_var_nodes (only the first node of a linked set gets a variable, every other node its own), DesVar.__init__ / from_des_var_node (a variable declares exactly the domain of its node), the design-variable value segment and the imputation tail of get_graph. Existence coverage over whole architectures is a run-time contract over the DV corpus (bounded). The value getters (des_var_value, des_var_values) are proved too and replace a formerly assumed callee contract.',
         NOTE, TECH),
 'C17': ('proof',
         'Every function between the metric nodes and the evaluation result (_can_be_objective, _can_be_constraint, _get_metrics, _categorize_metrics, _choose_metric_type, Objective/Constraint.from_metric_node and __init__, DSGEvaluator.evaluate) is under contract; the clauses of the property statement are postconditions and all generated obligations are discharged by z3/cvc5 for all inputs. The link permanent node = exists in every architecture is an assumption corroborated by a bounded run-time contract. set_metric_value / metric_value / metric_values are now under contract themselves (formerly an assumed callee of evaluate).',
         NOTE, TECH),
 'C18': ('exploration',
         'hash/equality/fingerprint compare Python hash() values: no contract within reach of an SMT-based verifier states or decides them. Bounded only: copy/edit/pickle/export contracts over the corpus, same variables and same mapping for copies and reordered rebuilds; hash-seed sweep with pickled graphs from subprocesses in the thorough tier.',
         NOTE, TECH),
 'C20': ('other',
         'Proved: SupDSG.initialize_choices (duplicate / unmapped checks), SupDSG.resolve (non-final or infeasible source must raise; mappings applied in order), SupExistenceMapping.resolve (first existing source node decides), SupSelChoiceOptionMapping.resolve (inactive source choice takes the None entry, otherwise the entry of the one mapped option wired to the originating node; errors otherwise; the mapping is left as it was). The whole-resolution clauses are run-time contracts over all architectures of the corpus sources (bounded). Also proved: add_mapping rejects a choice that is not in this graph, appends otherwise, and leaves the registrations unchanged when the mapping-specific check raises.',
         NOTE, TECH),
}

NOT_APPLICABLE = {
 'C12': 'Quantifies over wall-clock limits, numeric-stack versions and cross-process file-system cache histories; no pre/postcondition over one function call states or decides these and pyvc has no model of time, pickle or the file system (function-level residue is C10).',
 'C19': 'Quantifies over thread schedules and asynchronous exception delivery; a sequential contract cannot state that no worker thread is still running, and pyvc has no concurrency semantics.',
}

PENDING = 'check not built yet in this session (see DESIGN.md section 9 build order); not claimed until its obligations are generated and discharged'


def main():
    props = [json.loads(l) for l in open(os.path.join(HERE, 'properties.jsonl'))]
    checks = []
    na = []
    for p in props:
        pid = p['id']
        if pid in CLAIMED:
            cat, text, note, tech = CLAIMED[pid]
            checks.append(dict(property_id=pid, quick_cmd=f'./check {pid} --tier quick',
                               thorough_cmd=f'./check {pid} --tier thorough',
                               evidence_file=f'evidence/{pid}.json',
                               replay_cmd_template=f'./check {pid} --replay {{path}}',
                               engine='pyvc+bcheck',
                               level_claimed=dict(category=cat, text=text, design_ref='DESIGN.md section 6 ' + pid),
                               level_note=note, technique=tech))
        else:
            na.append(dict(property_id=pid, reason=NOT_APPLICABLE.get(pid, PENDING)))
    m = dict(version=1, setup_cmd='./setup.sh',
             hooks=dict(guard='ADSG_CORE_VERIF', enable='no hooks: contracts are sidecars in /verif/contracts and run-time wrappers are installed by the checks; PYTHONPATH=/repo',
                        baseline_off_cmd='cd /repo && /venv/bin/python -m pytest -ra -q -p no:cacheprovider --timeout=900 --continue-on-collection-errors',
                        source_commits=[], add_only=True),
             engines=[dict(name='pyvc', path='pyvc/', serves_properties=sorted(CLAIMED),
                           kind_free_text='VC generator: real Python source (ast) + sidecar contracts -> SMT obligations, z3 5.1 / cvc5 back ends, counter-model replay on the real function'),
                      dict(name='bcheck', path='bounded/', serves_properties=sorted(CLAIMED),
                           kind_free_text='bounded stand-in: executable form of the contracts on the real functions over an enumerated input bound; never counted as proved')],
             checks=checks, not_applicable=na,
             notes='Exit codes: 0 held, 1 violation, 2 undecided (never a violation), 3 checker failure. See DESIGN.md.')
    json.dump(m, open(os.path.join(HERE, 'MANIFEST.json'), 'w'), indent=1)
    print('claimed', len(checks), 'not_applicable', len(na))


if __name__ == '__main__':
    main()
