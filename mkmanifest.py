#!/usr/bin/env python3
"""Generates MANIFEST.json from the table below (kept in one place so it stays valid)."""
import json, os
HERE = os.path.dirname(os.path.abspath(__file__))

TECH = 'contract-based deductive verification: VCs generated from the real Python AST + sidecar contracts, discharged by z3/cvc5 (pyvc); bounded run-time contract checking on enumerated inputs as the labelled stand-in where functions are out of reach'
NOTE = 'Trusted: pyvc encoding of the Python subset (cross-checked on every run by executing the same contracts on the real functions), z3 5.1/cvc5, ints mathematical, floats as exact reals, no aliasing between distinct container parameters; assumed callee contracts listed in the evidence; bounded part: reference semantics bounded/specsem.py, enumerated corpus of DESIGN.md Appendix C; known findings in KNOWN_FINDINGS.json.'

CLAIMED = {
 'C01': ('other',
         'Decoding contract (returns, final, feasible, admitted architecture) evaluated at run time on every vector of the declared space of every corpus graph for both encoders (bounded, exhaustive per graph); the kernel functions that merge fixed values and agree enumeration with decoding (ApplyIterSpec, _get_all_des_var_values) are proved for all inputs.',
         NOTE, TECH),
 'C02': ('other',
         'Closure/minimality of the confirmed-node traversal is proved for all graphs (deductive); instance = closure, order independence and feasible-leaf set are contracts on get_for_apply_selection_choice evaluated along all choice orders of the corpus (bounded).',
         NOTE, TECH),
 'C03': ('other',
         'Clamp, fixed-vector and activeness kernels of the connection encoders are proved (correct_vector_size/bounds, _correct_is_active); canonical-fixed-point and vector-describes-instance clauses are run-time contracts over the full declared space of every corpus graph (bounded).',
         NOTE, TECH),
 'C04': ('other',
         'Enumeration = reference architectures (sound, complete, one each), counts and imputation ratio are run-time contracts on get_all_discrete_x / get_n_valid_designs over the corpus with and without one fixed variable (bounded); the scenario-merging numpy code is outside the deductive reach.',
         NOTE, TECH),
 'C05': ('other',
         'History-independence: after every operation history (length 2 quick / 3 thorough over decode, enumerate, statistics, mutate instance, pickle, fix, free) the processor must be observationally equal to a fresh one (bounded, exhaustive over the history alphabet); frame clauses of the analyzer proved where reached.',
         NOTE, TECH),
 'C06': ('other',
         'The incompatibility test on confirmed nodes is under deductive contract; enforcement and no-over-pruning are contracts evaluated on every node of the choice tree of the INC corpus (bounded).',
         NOTE, TECH),
 'C07': ('other',
         'Activeness/imputation kernel (_correct_is_active, inactive canonical value, get_graph tail) proved; agreement between enumeration, create=True/False and corrected raw vectors is a run-time contract over all vectors of the corpus (bounded).',
         NOTE, TECH),
 'C08': ('other',
         'Every derive/decode operation followed by re-observation of all live graph objects through the public API (bounded); frame clauses of copy/derive functions proved where reached.',
         NOTE, TECH),
 'C09': ('other',
         'The jit-compiled validity test (_check_conns, _validate_matrix) is proved equivalent to the statement-level definition of a valid connection matrix for all matrices and settings (deductive, unbounded); enumeration, counting and the composed validate_matrix are checked against brute force on enumerated settings (bounded).',
         NOTE, TECH),
 'C10': ('other',
         'Totality/range/fixed-point/onto/listing clauses as run-time contracts for every registry encoder x imputer over the full vector space [-1..n_opts] of enumerated settings (bounded); vector-size and clamp kernels proved.',
         NOTE, TECH),
 'C11': ('other',
         'Connection sets offered per selection scenario = brute-force valid sets; applied set yields precisely those edges (bounded); connector degree functions under deductive contract where reached.',
         NOTE, TECH),
 'C13': ('other',
         'Index functions checked exhaustively on the bound the property names (all rows <=3 columns over -1..3) and offered architectures = reference for both encoders (bounded); removed-option function under deductive contract where reached.',
         NOTE, TECH),
 'C14': ('other',
         'Fast-encoder soundness/onto/valid-unchanged as run-time contracts over the full declared space (bounded); neighbourhood iteration kernel under deductive contract where reached.',
         NOTE, TECH),
 'C15': ('other',
         'fix/free sequences compared with filtering the unfixed enumeration and with a fresh processor (bounded); bookkeeping functions (fix_des_var, _get_all_des_var_values) under deductive contract where reached.',
         NOTE, TECH),
 'C16': ('other',
         'Clamp/report clauses of DesignVariableNode.correct_value proved for all inputs (deductive); existence coverage and linked propagation are run-time contracts on get_graph / set_des_var_value over the DV corpus (bounded).',
         NOTE, TECH),
 'C17': ('proof',
         'Every function between the metric nodes and the evaluation result (_can_be_objective, _can_be_constraint, _get_metrics, _categorize_metrics, _choose_metric_type, Objective/Constraint.from_metric_node and __init__, DSGEvaluator.evaluate) is under contract; the clauses of the property statement are postconditions and all generated obligations are discharged by z3/cvc5 for all inputs. The link permanent node = exists in every architecture is an assumption corroborated by a bounded run-time contract.',
         NOTE, TECH),
 'C18': ('exploration',
         'hash/equality/fingerprint compare Python hash() values: no contract within reach of an SMT-based verifier states or decides them. Bounded only: copy/edit/pickle/export contracts over the corpus; hash-seed sweep in subprocesses in the thorough tier.',
         NOTE, TECH),
 'C20': ('other',
         'Mapped option taken / rejected configurations as run-time contracts over all architectures of the corpus sources (bounded); resolve functions under deductive contract where reached.',
         NOTE, TECH),
}

NOT_APPLICABLE = {
 'C12': 'Quantifies over wall-clock limits, numeric-stack versions and cross-process file-system cache histories; no pre/postcondition over one function call states or decides these and pyvc has no model of time, pickle or the file system (function-level residue is C10).',
 'C19': 'Quantifies over thread schedules and asynchronous exception delivery; a sequential contract cannot state that no worker thread is still running, and pyvc has no concurrency semantics.',
}

PENDING = 'check not built yet in this session (see DESIGN.md section 9 build order); not claimed until its obligations are generated and discharged'


def main():
    props = [json.loads(l) for l in open(os.path.join(HERE, 'properties.jsonl'))]
    checks = []
    na = []
    for p in props:
        pid = p['id']
        if pid in CLAIMED:
            cat, text, note, tech = CLAIMED[pid]
            checks.append(dict(property_id=pid, quick_cmd=f'./check {pid} --tier quick',
                               thorough_cmd=f'./check {pid} --tier thorough',
                               evidence_file=f'evidence/{pid}.json',
                               replay_cmd_template=f'./check {pid} --replay {{path}}',
                               engine='pyvc+bcheck',
                               level_claimed=dict(category=cat, text=text, design_ref='DESIGN.md section 6 ' + pid),
                               level_note=note, technique=tech))
        else:
            na.append(dict(property_id=pid, reason=NOT_APPLICABLE.get(pid, PENDING)))
    m = dict(version=1, setup_cmd='./setup.sh',
             hooks=dict(guard='ADSG_CORE_VERIF', enable='no hooks: contracts are sidecars in /verif/contracts and run-time wrappers are installed by the checks; PYTHONPATH=/repo',
                        baseline_off_cmd='cd /repo && /venv/bin/python -m pytest -ra -q -p no:cacheprovider --timeout=900 --continue-on-collection-errors',
                        source_commits=[], add_only=True),
             engines=[dict(name='pyvc', path='pyvc/', serves_properties=sorted(CLAIMED),
                           kind_free_text='VC generator: real Python source (ast) + sidecar contracts -> SMT obligations, z3 5.1 / cvc5 back ends, counter-model replay on the real function'),
                      dict(name='bcheck', path='bounded/', serves_properties=sorted(CLAIMED),
                           kind_free_text='bounded stand-in: executable form of the contracts on the real functions over an enumerated input bound; never counted as proved')],
             checks=checks, not_applicable=na,
             notes='Exit codes: 0 held, 1 violation, 2 undecided (never a violation), 3 checker failure. See DESIGN.md.')
    json.dump(m, open(os.path.join(HERE, 'MANIFEST.json'), 'w'), indent=1)
    print('claimed', len(checks), 'not_applicable', len(na))


if __name__ == '__main__':
    main()
