#!/usr/bin/env python3
"""Generates MANIFEST.json from the table below (kept in one place so it stays valid)."""
import json, os
HERE = os.path.dirname(os.path.abspath(__file__))

CLAIMED = {
 # id: (category, text, note, technique)
 'C09': ('other',
         'The jit-compiled validity test (_check_conns, _validate_matrix) is proved equivalent to the statement-level definition of a valid connection matrix for all matrices/settings (deductive, unbounded); enumeration and counting are only bounded.',
         'Trusted: pyvc encoding incl. numpy 1-D/2-D model, numba compiles Python semantics, int64 as mathematical ints, lemma sum-of-nonnegatives >= 0; enumeration bounded only.',
         'contract-based deductive verification (self-generated VCs from the real AST + sidecar contracts, z3/cvc5) with bounded run-time contract checking as labelled stand-in'),
 'C17': ('proof',
         'Every function between the metric nodes and the evaluation result (_can_be_objective, _can_be_constraint, _get_metrics, _categorize_metrics, _choose_metric_type, Objective/Constraint.from_metric_node and __init__, DSGEvaluator.evaluate) is under contract; the clauses of the property statement are postconditions and all generated obligations are discharged by z3/cvc5 for all inputs. The link permanent_nodes = nodes existing in every architecture is the closure contract of C02 plus a bounded corroboration.',
         'Trusted: pyvc encoding, z3/cvc5, NaN as a distinguished constant, metric type is None or a MetricType, cached properties modelled as fields (metric_nodes sorted by name, permanent_nodes = _get_permanent_nodes()), assumption A17-perm (every decoded instance contains the confirmed initial nodes; decided bounded under C02).',
         'contract-based deductive verification (self-generated VCs from the real AST + sidecar contracts, z3/cvc5); bounded run-time contract check of the assumed permanent-node link'),
 'C16': ('other',
         'Clamp/report clauses of the design-variable value path are discharged deductively for all inputs (pyvc: VCs generated from the real source, z3/cvc5); the existence-coverage clause is only bounded.',
         'Trusted: pyvc encoding of the Python subset, z3/cvc5, floats as exact reals, ints mathematical; assumed callee contracts are listed in the evidence.',
         'contract-based deductive verification (self-generated VCs from the real AST + sidecar contracts, z3/cvc5) with bounded run-time contract checking as labelled stand-in'),
}

NOT_APPLICABLE = {
 'C12': 'Quantifies over wall-clock limits, numeric-stack versions and cross-process file-system cache histories; no pre/postcondition over one function call states or decides these and pyvc has no model of time, pickle or the file system (function-level residue is C10).',
 'C19': 'Quantifies over thread schedules and asynchronous exception delivery; a sequential contract cannot state that no worker thread is still running, and pyvc has no concurrency semantics.',
}

PENDING = 'check not built yet in this session (see DESIGN.md section 9 build order); not claimed until its obligations are generated and discharged'


def main():
    props = [json.loads(l) for l in open(os.path.join(HERE, 'properties.jsonl'))]
    checks = []
    na = []
    for p in props:
        pid = p['id']
        if pid in CLAIMED:
            cat, text, note, tech = CLAIMED[pid]
            checks.append(dict(property_id=pid, quick_cmd=f'./check {pid} --tier quick',
                               thorough_cmd=f'./check {pid} --tier thorough',
                               evidence_file=f'evidence/{pid}.json',
                               replay_cmd_template=f'./check {pid} --replay {{path}}',
                               engine='pyvc+bcheck',
                               level_claimed=dict(category=cat, text=text, design_ref='DESIGN.md section 6 ' + pid),
                               level_note=note, technique=tech))
        else:
            na.append(dict(property_id=pid, reason=NOT_APPLICABLE.get(pid, PENDING)))
    m = dict(version=1, setup_cmd='./setup.sh',
             hooks=dict(guard='ADSG_CORE_VERIF', enable='no hooks: contracts are sidecars in /verif/contracts and run-time wrappers are installed by the checks; PYTHONPATH=/repo',
                        baseline_off_cmd='cd /repo && /venv/bin/python -m pytest -ra -q -p no:cacheprovider --timeout=900 --continue-on-collection-errors',
                        source_commits=[], add_only=True),
             engines=[dict(name='pyvc', path='pyvc/', serves_properties=sorted(CLAIMED),
                           kind_free_text='VC generator: real Python source (ast) + sidecar contracts -> SMT obligations, z3 5.1 / cvc5 back ends, counter-model replay on the real function'),
                      dict(name='bcheck', path='bounded/', serves_properties=sorted(CLAIMED),
                           kind_free_text='bounded stand-in: executable form of the contracts on the real functions over an enumerated input bound; never counted as proved')],
             checks=checks, not_applicable=na,
             notes='Exit codes: 0 held, 1 violation, 2 undecided (never a violation), 3 checker failure. See DESIGN.md.')
    json.dump(m, open(os.path.join(HERE, 'MANIFEST.json'), 'w'), indent=1)
    print('claimed', len(checks), 'not_applicable', len(na))


if __name__ == '__main__':
    main()
