/-
Background lemmas that the pyvc engine hands to the SMT solver as axioms (pyvc/db.py `seq_count`, and the
`L-rowsum-nonneg` / `L-colsum-nonneg` axioms of contracts/c_matrix.py). They follow by induction from the defining
equations that are given to the solver as well; the induction itself is outside the solver's reach, so it is
checked here. The correspondence between these Lean statements and the z3 terms is by inspection (see DESIGN.md).
-/
import Mathlib

/-- `count a n x`: number of positions `i < n` with `a i = x` (the two defining equations of `count_T`). -/
def cnt {α : Type} [DecidableEq α] (a : ℕ → α) : ℕ → α → ℕ
  | 0, _ => 0
  | n + 1, x => cnt a n x + (if a n = x then 1 else 0)

/-- range axiom of `seq_count`: `0 ≤ count ≤ n` (non-negativity is by type here). -/
theorem cnt_le {α : Type} [DecidableEq α] (a : ℕ → α) (n : ℕ) (x : α) : cnt a n x ≤ n := by
  induction n with
  | zero => simp [cnt]
  | succ n ih =>
    simp only [cnt]
    split <;> omega

/-- partial sums of a sequence of non-negative integers (the two defining equations of `sum_T`). -/
def psum (a : ℕ → ℤ) : ℕ → ℤ
  | 0 => 0
  | n + 1 => psum a n + a n

/-- `L-rowsum-nonneg` / `L-colsum-nonneg`: a sum of non-negative entries is non-negative. -/
theorem psum_nonneg (a : ℕ → ℤ) (n : ℕ) (h : ∀ i, i < n → 0 ≤ a i) : 0 ≤ psum a n := by
  induction n with
  | zero => simp [psum]
  | succ n ih =>
    simp only [psum]
    have h1 : 0 ≤ psum a n := ih (fun i hi => h i (Nat.lt_succ_of_lt hi))
    have h2 : 0 ≤ a n := h n (Nat.lt_succ_self n)
    omega

/-- membership in a concatenation is membership in one of the parts (engine: `seq_member` splits `a + b`). -/
theorem mem_append_iff {α : Type} (x : α) (l₁ l₂ : List α) : x ∈ l₁ ++ l₂ ↔ x ∈ l₁ ∨ x ∈ l₂ :=
  List.mem_append
