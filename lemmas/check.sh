#!/bin/bash
# Re-checks the background lemmas with Lean 4 + Mathlib (offline). Not part of the per-property checks: the lemmas do not
# depend on /repo. exit 0 = all proofs accepted.
cd "$(dirname "$0")" && lean Background.lean && echo "lemmas: accepted by lean $(lean --version | head -1)"
