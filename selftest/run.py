"""Runs the deliberate-rewrite self-test for the functions of one property (or all)."""
import json
import os
import sys
from concurrent.futures import ProcessPoolExecutor

HERE = os.path.dirname(os.path.dirname(os.path.abspath(__file__)))
sys.path.insert(0, HERE)


def _one(case):
    from selftest_tool import verify_with_rewrite
    key, kind, old, new = case[:4]
    try:
        r = verify_with_rewrite(key, old, new, count=(-1 if len(case) > 4 and case[4] == 'all' else 1), stop_at_first=(kind == 'break'))
    except Exception as e:  # noqa
        r = dict(error=f'{type(e).__name__}: {e}', failed=[], unknown=[])
    caught = bool(r.get('failed')) or bool(r.get('unknown')) or bool(r.get('error'))
    return dict(function=key, kind=kind, rewrite=f'{old[:60]!r} -> {new[:60]!r}', failed=r.get('failed', []),
                unknown=r.get('unknown', []), error=r.get('error'),
                ok=(caught if kind == 'break' else not caught), strong=bool(r.get('failed')))


def run(keys=None, jobs=16):
    from selftest.cases import CASES
    cases = [c for c in CASES if keys is None or c[0] in keys]
    if not cases:
        return dict(cases=0, results=[])
    import multiprocessing
    # a fresh process per case, as for the real verification (pyvc/runner.py): reproducible solver effort
    with ProcessPoolExecutor(max_workers=min(jobs, len(cases)), max_tasks_per_child=1,
                             mp_context=multiprocessing.get_context('forkserver')) as ex:
        res = list(ex.map(_one, cases))
    return dict(cases=len(cases), breaks=sum(1 for r in res if r['kind'] == 'break'),
                breaks_caught=sum(1 for r in res if r['kind'] == 'break' and r['ok']),
                breaks_caught_by_failed_obligation=sum(1 for r in res if r['kind'] == 'break' and r['strong']),
                keeps=sum(1 for r in res if r['kind'] == 'keep'),
                keeps_still_verified=sum(1 for r in res if r['kind'] == 'keep' and r['ok']),
                results=res)


if __name__ == '__main__':
    out = run()
    for r in out['results']:
        print('OK ' if r['ok'] else 'BAD', r['kind'], r['function'].split(':')[1], r['rewrite'], 'failed=', [f.split('::')[1] for f in r['failed']][:2],
              'unknown=', [f.split('::')[1] for f in r['unknown']][:2], r['error'] or '')
    print({k: v for k, v in out.items() if k != 'results'})
