"""Deliberate rewrites for the engine self-test (DESIGN.md Appendix D). Applied one at a time to a scratch copy of the
single source file; `break` rewrites must fail (or at least leave undecided) >= 1 named obligation, `keep` rewrites
must still verify."""

GP = 'adsg_core/optimization/graph_processor.py:'
NODES = 'adsg_core/graph/adsg_nodes.py:'
ENC = 'adsg_core/optimization/assign_enc/encoding.py:'
AM = 'adsg_core/optimization/assign_enc/assignment_manager.py:'
MAT = 'adsg_core/optimization/assign_enc/matrix.py:'
BASE = 'adsg_core/optimization/hierarchy/base.py:'
TRAV = 'adsg_core/graph/traversal.py:'
INC = 'adsg_core/graph/incompatibility.py:'
ADSG = 'adsg_core/graph/adsg.py:'
EV = 'adsg_core/optimization/evaluator.py:'
DV = 'adsg_core/optimization/dv_output_defs.py:'
FAST = 'adsg_core/optimization/hierarchy/fast.py:'
CMP = 'adsg_core/optimization/hierarchy/complete.py:'

SUP = 'adsg_core/graph/sup/dsg.py:'
CH = 'adsg_core/graph/choices.py:'
BAS = 'adsg_core/graph/adsg_basic.py:'
CC = 'adsg_core/graph/choice_constraints.py:'

CASES = [
    (BAS + 'BasicDSG._get_floating_nodes', 'break', "                if get_edge_type(edge) in {EdgeType.DERIVES, EdgeType.CONNECTS}:", "                if get_edge_type(edge) in {EdgeType.DERIVES}:"),
    (BAS + 'BasicDSG._get_floating_nodes', 'break', "                    break\n            else:\n                floating_nodes.add(node)", "                    continue\n            else:\n                floating_nodes.add(node)"),
    (BAS + 'BasicDSG._get_floating_nodes', 'break', "            for edge in iter_in_edges(self._graph, node):", "            for edge in iter_out_edges(self._graph, node):"),
    (BAS + 'BasicDSG.set_start_nodes', 'break', "                graph, floating_node, start_nodes, removed_edges=removed_edges, removed_nodes=removed_nodes)", "                graph, floating_node, start_nodes)"),
    (BAS + 'BasicDSG.set_start_nodes', 'break', "            if floating_node in start_nodes:\n                continue\n            removed_nodes.add(floating_node)", "            if floating_node in start_nodes:\n                break\n            removed_nodes.add(floating_node)"),
    (BAS + 'BasicDSG.set_start_nodes', 'break', "        if len(start_nodes) == 0:\n            raise ValueError('Provide at least one starting node!')", "        if len(start_nodes) == 1:\n            raise ValueError('Provide at least one starting node!')"),
    (BAS + 'BasicDSG.set_start_nodes', 'break', "            removed_nodes.add(floating_node)\n", "            pass\n"),
    (BAS + 'BasicDSG.set_start_nodes', 'keep', "        dsg = self\n        removed_edges, removed_nodes = set(), set()", "        removed_edges, removed_nodes = set(), set()\n        dsg = self"),
    (CC + 'get_constraint_pre_removed_options', 'break', "n_opt_max = max([len(options) for options in choice_constraint.options])", "n_opt_max = min([len(options) for options in choice_constraint.options])"),
    (CC + 'get_constraint_pre_removed_options', 'break', "        if n_dec > n_opt_max:\n            return [", "        if n_dec >= n_opt_max:\n            return ["),
    (CC + 'get_constraint_pre_removed_options', 'break', "                               if i_opt < i_start or i_opt >= i_end]", "                               if i_opt <= i_start or i_opt >= i_end]"),
    (CC + 'get_constraint_pre_removed_options', 'break', "            i_end = len(choice_constraint.options[i_dec]) - n_dec_after", "            i_end = len(choice_constraint.options[i_dec]) - n_dec_after - 1"),
    (CC + 'get_constraint_pre_removed_options', 'keep', "            i_start = i_dec\n            n_dec_after = n_dec-(i_dec+1)", "            n_dec_after = n_dec-(i_dec+1)\n            i_start = i_dec"),
    (GP + 'GraphProcessor._get_des_vars@connection-choices', 'break', "                existence_infeasibility_mask[exist_map == -1] = False", "                existence_infeasibility_mask = exist_map != -1"),
    (GP + 'GraphProcessor._get_des_vars@connection-choices', 'break', "            i_dv_start = len(des_vars)\n\n            for conn_des_var in conn_des_vars:", "            i_dv_start = len(des_vars) + 1\n\n            for conn_des_var in conn_des_vars:"),
    (GP + 'GraphProcessor._get_des_vars@connection-choices', 'break', "            des_vars += conn_des_vars\n            i_dv_end = len(des_vars)", "            i_dv_end = len(des_vars)\n            des_vars += conn_des_vars"),
    (GP + 'GraphProcessor._get_des_vars@connection-choices', 'break', "                (assignment_manager, node_map, exist_map, i_dv_start, i_dv_end, all_conn_nodes)", "                (assignment_manager, node_map, exist_map, i_dv_end, i_dv_start, all_conn_nodes)"),
    (GP + 'GraphProcessor._get_des_vars@connection-choices', 'keep', "            if not isinstance(exist_map, dict) and not cutoff_mode:", "            if not cutoff_mode and not isinstance(exist_map, dict):"),
    (INC + 'get_mod_nodes_remove_incompatibilities@confirmed-pairs', 'break', "        if edge[0] in confirmed_nodes and edge[1] in confirmed_nodes:\n            infeasible_incompatibility_edges.add(edge)", "        if edge[0] in confirmed_nodes or edge[1] in confirmed_nodes:\n            infeasible_incompatibility_edges.add(edge)"),
    (INC + 'get_mod_nodes_remove_incompatibilities@confirmed-pairs', 'break', "        if edge[0] in confirmed_nodes:\n            confirmed_incompatibility_edges.add(edge)", "        if edge[1] in confirmed_nodes:\n            confirmed_incompatibility_edges.add(edge)"),
    (INC + 'get_mod_nodes_remove_incompatibilities@confirmed-pairs', 'break', "            removed_nodes.add(edge[1])", "            removed_nodes.add(edge[0])"),
    (INC + 'get_mod_nodes_remove_incompatibilities@confirmed-pairs', 'break', "    if len(infeasible_incompatibility_edges) > 0:", "    if len(infeasible_incompatibility_edges) > 1:"),
    (INC + 'get_mod_nodes_remove_incompatibilities@confirmed-pairs', 'break', "        if get_edge_type(edge) != EdgeType.INCOMPATIBILITY:\n            continue\n\n        # If both nodes", "        if get_edge_type(edge) == EdgeType.DERIVES:\n            continue\n\n        # If both nodes"),
    (CC + 'get_valid_idx_combinations.<locals>._check_gte', 'break', "                if row[i_value] < row[i_value-1]:", "                if row[i_value] <= row[i_value-1]:"),
    (CC + 'get_valid_idx_combinations.<locals>._check_gt', 'break', "                if row[i_value] <= row[i_value-1]:", "                if row[i_value] < row[i_value-1]:"),
    (CC + 'get_valid_idx_combinations.<locals>._check_gt', 'break', "            for i_value in range(1, len(row)):\n                if row[i_value] <= row[i_value-1]:", "            for i_value in range(2, len(row)):\n                if row[i_value] <= row[i_value-1]:"),
    (CH + 'get_mod_apply_connection_choice', 'break', "            edge_key[edge] += 1\n", "            pass\n"),
    (CH + 'get_mod_apply_connection_choice', 'break', "if edge[0] not in in_nodes or (edge[1] is not None and edge[1] not in out_nodes):", "if edge[0] not in in_nodes and (edge[1] is not None and edge[1] not in out_nodes):"),
    (CH + 'get_mod_apply_connection_choice', 'break', "removed_edges = set(choice_node.get_excluded_edges(graph)) | set(choice_node.get_deriving_edges(graph))", "removed_edges = set(choice_node.get_excluded_edges(graph))"),
    (CH + 'get_mod_apply_connection_choice', 'break', "        if edge[1] is not None:\n            added_edges.add(", "        if edge[1] is not None and edge_key[edge] == 0:\n            added_edges.add("),
    (CH + 'get_mod_apply_connection_choice', 'keep', "    removed_nodes = {choice_node}\n\n    # Create edges with correct keys\n    added_edges = set()", "    added_edges = set()\n    removed_nodes = {choice_node}"),
    (NODES + 'ConnectionChoiceNode.get_excluded_edges', 'break', "iter_out_edges(graph, node, edge_type=EdgeType.EXCLUDES)]", "iter_out_edges(graph, node, edge_type=EdgeType.INCOMPATIBILITY)]"),
    (NODES + 'ConnectionChoiceNode.get_excluded_edges', 'break', "            excluded += [edge for edge in iter_out_edges(graph, node, edge_type=EdgeType.EXCLUDES)]", "            excluded = [edge for edge in iter_out_edges(graph, node, edge_type=EdgeType.EXCLUDES)]"),
    (NODES + 'ConnectionChoiceNode.get_deriving_edges', 'break', "if edge[1] in tgt_nodes and get_edge_type(edge) == EdgeType.DERIVES:", "if get_edge_type(edge) == EdgeType.DERIVES:"),
    (NODES + 'ConnectionChoiceNode.get_deriving_edges', 'break', "if edge[1] in tgt_nodes and get_edge_type(edge) == EdgeType.DERIVES:", "if edge[1] in tgt_nodes and get_edge_type(edge) != EdgeType.CONNECTS:"),
    (CH + 'get_mod_apply_selection_choice@until-incompatibility', 'break', 'added_edges = {get_edge(in_edge[0], target_option_node) for in_edge in in_edges}', 'added_edges = {get_edge(in_edge[1], target_option_node) for in_edge in in_edges}'),
    (CH + 'get_mod_apply_selection_choice@until-incompatibility', 'break', '    removed_nodes.add(choice_node)\n', '    pass\n'),
    (CH + 'get_mod_apply_selection_choice@until-incompatibility', 'break', 'if target_option_node not in option_nodes:', 'if target_option_node in option_nodes:'),
    (CH + 'get_mod_apply_selection_choice@until-incompatibility', 'break', '    if len(option_nodes) == 0:\n        removed_nodes = {choice_node}', '    if len(option_nodes) <= 1:\n        removed_nodes = {choice_node}'),
    (CH + 'get_mod_apply_selection_choice@until-incompatibility', 'break', 'list(start_nodes)[0], originating_node, EdgeType.INCOMPATIBILITY', 'originating_node, list(start_nodes)[0], EdgeType.INCOMPATIBILITY'),
    (CH + 'get_mod_apply_selection_choice@until-incompatibility', 'break', '        if edge[0] == choice_node and edge[1] == target_option_node:\n            continue', '        if edge[0] == choice_node:\n            continue'),
    (CH + 'get_mod_apply_selection_choice@until-incompatibility', 'keep', '    removed_edges = set()\n    removed_nodes = set()\n    in_edges = list(iter_in_edges(graph, choice_node))', '    in_edges = list(iter_in_edges(graph, choice_node))\n    removed_nodes = set()\n    removed_edges = set()'),
    (INC + 'get_incompatibility_deriving_nodes', 'break', "            option_decision_nodes.add(deriving_node)\n            continue", "            option_decision_nodes.add(deriving_node)\n            break"),
    (INC + 'get_incompatibility_deriving_nodes', 'break', 'if len(option_nodes.difference(deriving_nodes)) == 0:', 'if len(option_nodes.difference(deriving_nodes)) <= 1:'),
    (INC + 'get_incompatibility_deriving_nodes', 'break', "        if get_edge_type(edge) != EdgeType.DERIVES:\n            continue\n        deriving_node = edge[0]", "        if get_edge_type(edge) == EdgeType.INCOMPATIBILITY:\n            continue\n        deriving_node = edge[0]"),
    # the recursive call collects its own target: dropping the explicit add is harmless
    (INC + 'get_incompatibility_deriving_nodes', 'keep', "        deriving_nodes.add(deriving_node)\n        deriving_nodes |= get_incompatibility_deriving_nodes(", "        deriving_nodes |= get_incompatibility_deriving_nodes("),
    (GP + 'GraphProcessor.get_graph@imputation-tail', 'break', "            if used_value is None:\n                used_values[i] = self._get_inactive_value(des_vars[i])", "            if not used_value:\n                used_values[i] = self._get_inactive_value(des_vars[i])"),
    (GP + 'GraphProcessor.get_graph@imputation-tail', 'break', 'is_active = [is_act for i, is_act in enumerate(is_active) if i not in self._fixed_values]', 'is_active = [is_act for i, is_act in enumerate(is_active)]'),
    (GP + 'GraphProcessor.get_graph@imputation-tail', 'break', 'used_values[i] = self._get_inactive_value(des_vars[i])', 'used_values[i] = self._get_inactive_value(des_vars[0])'),
    (SUP + 'SupExistenceMapping.resolve', 'break', "            if src_node.str_context() in src_nodes:\n                sup_tgt_option_node = sup_option_node\n                break", "            if src_node.str_context() in src_nodes:\n                sup_tgt_option_node = sup_option_node"),
    (SUP + 'SupExistenceMapping.resolve', 'break', 'if src_node.str_context() in src_nodes:', 'if str(src_node) in src_nodes:'),
    ('adsg_core/graph/traversal.py:get_deriving_in_edges', 'break', 'if edge[0] in removed_nodes or edge in removed_edges or (edge[0], edge[1]) in removed_edges:', 'if edge[0] in removed_nodes or (edge[0], edge[1]) in removed_edges:'),
    ('adsg_core/graph/traversal.py:get_deriving_in_edges', 'break', 'deriving_edge_types = {EdgeType.DERIVES, edge_type}', 'deriving_edge_types = {edge_type}'),
    ('adsg_core/graph/traversal.py:get_deriving_in_edges', 'break', 'if edge[0] in removed_nodes or edge in removed_edges', 'if edge[1] in removed_nodes or edge in removed_edges'),
    ('adsg_core/graph/traversal.py:get_deriving_in_edges', 'keep', 'if edge[0] in removed_nodes or edge in removed_edges or (edge[0], edge[1]) in removed_edges:', 'if edge in removed_edges or edge[0] in removed_nodes or (edge[0], edge[1]) in removed_edges:'),
    ('adsg_core/graph/incompatibility.py:get_confirmed_incompatibility_edges', 'break', 'if edge[0] in confirmed_nodes or edge[1] in confirmed_nodes:\n            edges.add', 'if edge[0] in confirmed_nodes and edge[1] in confirmed_nodes:\n            edges.add'),
    (SUP + 'SupSelChoiceOptionMapping.resolve', 'break', 'if len(src_selected_opt_nodes) != 1:', 'if len(src_selected_opt_nodes) > 1:'),
    (SUP + 'SupSelChoiceOptionMapping.resolve', 'break', 'sup_tgt_option_node = mapping_ctx[list(src_selected_opt_nodes)[0].str_context()]', 'sup_tgt_option_node = mapping_ctx[str(list(src_selected_opt_nodes)[0])]'),
    (SUP + 'SupSelChoiceOptionMapping.resolve', 'break', 'mapping_ctx = {node.str_context(): sup_node for node, sup_node in mapping.items() if node is not None}', 'mapping_ctx = {str(node): sup_node for node, sup_node in mapping.items() if node is not None}'),
    (SUP + 'SupSelChoiceOptionMapping.resolve', 'break', "src_dsg.graph, src_originating_node, edge_type=EdgeType.DERIVES)}", "src_dsg.graph, src_originating_node, edge_type=EdgeType.CONNECTS)}"),
    (SUP + 'SupSelChoiceOptionMapping.resolve', 'keep', "            if None not in mapping:\n                raise SupResolveError(", "            if not (None in mapping):\n                raise SupResolveError("),
    (SUP + 'SupDSG.initialize_choices', 'break', '            if choice_node in mapped_choice_nodes:\n                dup_mapped.append(choice_node)', '            if choice_node not in mapped_choice_nodes:\n                dup_mapped.append(choice_node)'),
    (SUP + 'SupDSG.initialize_choices', 'break', '        if len(unmapped_choice_nodes):', '        if len(unmapped_choice_nodes) > 1:'),
    (GP + 'GraphProcessor._update_comb_fixed_mask', 'break', 'fixed_choices[i_dec] = fixed_idx', 'fixed_choices[i_dv] = fixed_idx'),
    (GP + 'GraphProcessor.get_graph@selection-used-values', 'break', 'if not sel_choice_is_active[i_dec]:\n                opt_dec_used_values[i_dv] = None', 'if not sel_choice_is_active[i_dv]:\n                opt_dec_used_values[i_dv] = None'),
    (MAT + 'NodeExistence.get_effective_settings@excluded-remap', 'break', '            if i_src not in src_idx_map or i_tgt not in tgt_idx_map:\n                continue', '            if i_src not in src_idx_map or i_tgt not in tgt_idx_map:\n                break'),
    # (function key, kind, old text, new text)
    (NODES + 'DesignVariableNode.correct_value', 'break', 'elif value >= len(self.options):', 'elif value > len(self.options):'),
    (NODES + 'DesignVariableNode.correct_value', 'break', '            value = int(value)\n', ''),
    (NODES + 'DesignVariableNode.correct_value', 'break', '            elif value > upper:\n                value = upper\n', ''),
    (NODES + 'DesignVariableNode.correct_value', 'keep', 'bounds_fraction', 'frac_of_bounds', 'all'),
    (ENC + 'EagerEncoder.correct_vector_bounds', 'break', 'correct_vector = vector.copy()', 'correct_vector = vector'),
    (ENC + 'EagerEncoder.correct_vector_bounds', 'break', 'correct_vector[i] = dv.n_opts-1', 'correct_vector[i] = dv.n_opts'),
    (ENC + 'EagerEncoder.correct_vector_bounds', 'break', 'elif correct_vector[i] >= dv.n_opts:', 'elif correct_vector[i] > dv.n_opts:'),
    (ENC + 'EagerEncoder.correct_vector_size', 'break', 'n_extra = len(vector)-n_dv', 'n_extra = len(vector)-n_dv+1'),
    (AM + 'AssignmentManagerBase._correct_is_active', 'break', 'corrected_vector[corrected_vector == X_INACTIVE_VALUE] = 0', 'corrected_vector[corrected_vector == X_INACTIVE_VALUE] = 1'),
    (MAT + '_check_conns', 'break', 'if n_conns+2 >= len(node_settings):', 'if n_conns+2 > len(node_settings):'),
    (MAT + '_check_conns', 'break', 'return node_settings[1] <= n_conns', 'return node_settings[1] < n_conns'),
    (MAT + '_validate_matrix', 'break', '            override_ok = tgt_n_override[i, n_tgt]\n            if override_ok == 0:\n                return False\n            elif override_ok == 1:', '            override_ok = tgt_n_override[i, n_tgt]\n            if override_ok == 0:\n                return False\n            elif override_ok != 0:'),
    (MAT + '_validate_matrix', 'keep', 'n_src = np.sum(matrix[i, :])', 'n_src = np.sum(matrix[i, :])\n        n_rows = matrix.shape[0]'),
    (GP + 'GraphProcessor._can_be_objective', 'break', 'metric_node.dir is not None and metric_node in permanent_nodes', 'metric_node.dir is not None'),
    (GP + 'GraphProcessor._get_metrics', 'break', 'metric_type = obj | constr', 'metric_type = obj & constr'),
    (GP + 'GraphProcessor._get_metrics', 'break', 'if metric_type == MetricType.OBJ_OR_CON and isinstance(metric_node.type, MetricType):', 'if isinstance(metric_node.type, MetricType):'),
    (GP + 'GraphProcessor._categorize_metrics', 'break', '                else:\n                    objectives.append(objective)', '                else:\n                    constraints.append(objective)'),
    (EV + 'DSGEvaluator.evaluate', 'break', 'if constraint.node in metric_nodes else constraint.ref', 'if constraint.node in metric_nodes else math.nan'),
    (EV + 'DSGEvaluator.evaluate', 'break', 'objective_values = [value_map.get(objective.node, math.nan) for objective in self.objectives]', 'objective_values = [value_map.get(objective.node) or math.nan for objective in self.objectives]'),
    (DV + 'Constraint.from_metric_node', 'break', 'return cls(name, metric_node.ref, direction, node=metric_node)', 'return cls(name, 0., direction, node=metric_node)'),
    (DV + 'Objective.from_metric_node', 'break', 'direction = Direction.MIN if metric_node.dir <= 0 else Direction.MAX', 'direction = Direction.MIN if metric_node.dir < 0 else Direction.MAX'),
    (GP + 'GraphProcessor._get_all_des_var_values', 'break', '                i_value += 1\n', ''),
    (GP + 'GraphProcessor._get_all_des_var_values', 'break', 'values.append(fixed_values[i])', 'values.append(des_var_values[i_value])'),
    (GP + 'GraphProcessor.fix_des_var', 'break', 'if value < 0 or value >= des_var.n_opts:', 'if value < 0 or value > des_var.n_opts:'),
    (GP + 'GraphProcessor.fix_des_var', 'break', 'if i_dv_start <= idx < i_dv_end:', 'if i_dv_start < idx < i_dv_end:'),
    (GP + 'GraphProcessor.fix_des_var', 'break', "            for _, _, _, i_dv_start, i_dv_end, _ in self._conn_choice_data_map.values():\n                if i_dv_start <= idx < i_dv_end:\n                    raise RuntimeError('Design variable fixing not support for connection choices!')\n\n            self._fixed_values[idx] = value", "            self._fixed_values[idx] = value\n            for _, _, _, i_dv_start, i_dv_end, _ in self._conn_choice_data_map.values():\n                if i_dv_start <= idx < i_dv_end:\n                    raise RuntimeError('Design variable fixing not support for connection choices!')\n"),
    (GP + 'GraphProcessor._get_inactive_value', 'break', '(sum(des_var.bounds)/2)', '(des_var.bounds[0])'),
    (CMP + 'ApplyIterSpec.__contains__', 'break', 'if offset <= idx_mod < offset+n_apply:', 'if offset < idx_mod < offset+n_apply:'),
    (CMP + 'ApplyIterSpec.__contains__', 'break', 'if idx < 0 or idx >= self.n_total:', 'if idx < 0 or idx > self.n_total:'),
    (CMP + 'ApplyIterSpec.__contains__', 'keep', 'idx_mod = idx % self.n_every', 'idx_mod = idx % self.n_every\n        n_off = len(self.offsets)'),
    (BASE + 'HierarchyAnalyzerBase.get_opt_idx', 'break', '        if mask is not None:\n            include_mask = include_mask & mask\n\n        i_comb, sel_choice_idx', '        if mask is not None:\n            include_mask &= mask\n\n        i_comb, sel_choice_idx'),
    (BASE + 'HierarchyAnalyzerBase.get_graph', 'break', '            if mask is not None:\n                include_mask = include_mask & mask\n            i_comb, choice_opt_idx', '            if mask is not None:\n                include_mask &= mask\n            i_comb, choice_opt_idx'),
    (BASE + 'HierarchyAnalyzerBase.get_graph', 'break', '            feasibility_mask[i_comb] = False', '            feasibility_mask[:] = False'),
    (TRAV + 'traverse_until_choice_nodes@none', 'break', 'if get_edge_type(edge) in [EdgeType.DERIVES, EdgeType.CONNECTS]}', 'if get_edge_type(edge) in [EdgeType.DERIVES, EdgeType.CONNECTS, EdgeType.EXCLUDES]}'),
    (TRAV + 'traverse_until_choice_nodes@none', 'break', '    next_nodes -= traversed\n', '    pass\n'),
    (TRAV + 'traverse_until_choice_nodes@set', 'break', '    traversed |= next_nodes\n', '    pass\n'),
    (INC + 'get_confirmed_incompatibility_edges', 'break', 'if edge[0] in confirmed_nodes or edge[1] in confirmed_nodes:', 'if edge[0] not in confirmed_nodes and edge[1] in confirmed_nodes:'),
    (ADSG + 'DSG.set_des_var_value', 'break', '                    dep_value, _ = linked_des_var_node.correct_value(value)', '                    dep_value = value'),
    (ADSG + 'DSG.set_des_var_value', 'break', 'dep_value = dep_lower + bounds_fraction * (dep_upper - dep_lower)', 'dep_value = dep_lower + bounds_fraction * dep_upper'),
    (ADSG + 'DSG.set_des_var_value', 'break', '        self._des_var_values[des_var_node] = value\n', '        self._des_var_values[des_var_node] = value + 1\n'),
    (ADSG + 'DSG.is_constrained_choice', 'break', '            if choice_node in choice_con.nodes:\n                return choice_con', '            if choice_node not in choice_con.nodes:\n                return choice_con'),
    (FAST + 'FastHierarchyAnalyzer._iter_neighborhood.<locals>._iter_values', 'break', 'for dist in range(1, n_opts[i_dv]):', 'for dist in range(2, n_opts[i_dv]):'),
    (FAST + 'FastHierarchyAnalyzer._iter_neighborhood.<locals>._iter_values', 'break', '            if is_fixed[i_dv]:\n                return\n', ''),
    (FAST + 'FastHierarchyAnalyzer._iter_neighborhood.<locals>._iter_values', 'break', '                if neg_dir >= 0:', '                if neg_dir > 0:'),
]
