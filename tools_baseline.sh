#!/bin/bash
# Runs the pinned baseline test command (guard OFF) and compares with BASELINE.json stable_pass. Prints summary; exit 0 iff all 142 stable tests pass.
OUT=$(mktemp /tmp/junit.XXXXXX.xml)
export XDG_CACHE_HOME=$(mktemp -d /tmp/xdgcache.XXXXXX)
cd /repo && /venv/bin/python -m pytest -ra -q -p no:cacheprovider --timeout=900 --continue-on-collection-errors --junitxml=$OUT >/dev/null 2>&1
/venv/bin/python - "$OUT" <<'PY'
import sys, json, xml.etree.ElementTree as ET
base = json.load(open('/root/.vp/BASELINE.json'))
t = ET.parse(sys.argv[1])
passed = set()
for tc in t.iter('testcase'):
    if not any(ch.tag in ('failure', 'error', 'skipped') for ch in tc):
        passed.add(tc.get('classname') + '::' + tc.get('name'))
missing = [x for x in base['stable_pass'] if x not in passed]
print('baseline stable:', len(base['stable_pass']), 'passed now:', len(base['stable_pass']) - len(missing), 'missing:', missing[:10])
sys.exit(1 if missing else 0)
PY
RC=$?
rm -rf "$OUT" "$XDG_CACHE_HOME"
exit $RC
