#!/bin/bash
# usage: seed_confirm.sh <seed-id> <worktree-with-patch.diff-and-demo> <property>
# Confirms: demo passes without the change, fails with it; baseline stable tests pass with the change. Stores under seeded/<id>/.
set -u
ID=$1; WT=$2; PROP=$3
cd "$WT" || exit 2
DEMO=$(ls demo_*.py | head -1)
[ -f patch.diff ] || { echo "no patch.diff"; exit 2; }
git checkout -q -- adsg_core
# a fresh cache directory per run: the library's on-disk matrix/selection caches would otherwise carry results
# computed by the other version of the code
export XDG_CACHE_HOME=$(mktemp -d /tmp/xdg.XXXXXX)
PYTHONPATH=$WT /venv/bin/python $DEMO >/tmp/seed_$ID.clean.log 2>&1; RC_CLEAN=$?
git apply patch.diff || { echo "patch does not apply"; exit 2; }
rm -rf "$XDG_CACHE_HOME"; export XDG_CACHE_HOME=$(mktemp -d /tmp/xdg.XXXXXX)
PYTHONPATH=$WT /venv/bin/python $DEMO >/tmp/seed_$ID.mut.log 2>&1; RC_MUT=$?
rm -rf "$XDG_CACHE_HOME"; export XDG_CACHE_HOME=$(mktemp -d /tmp/xdg.XXXXXX)
OUT=$(mktemp /tmp/junit.XXXXXX.xml)
PYTHONPATH=$WT /venv/bin/python -m pytest -q -p no:cacheprovider --timeout=900 --continue-on-collection-errors --junitxml=$OUT >/dev/null 2>&1
MISSING=$(/venv/bin/python - "$OUT" <<'PY'
import sys, json, xml.etree.ElementTree as ET
base = json.load(open('/root/.vp/BASELINE.json'))
passed = set()
for tc in ET.parse(sys.argv[1]).iter('testcase'):
    if not any(ch.tag in ('failure', 'error', 'skipped') for ch in tc):
        passed.add(tc.get('classname') + '::' + tc.get('name'))
print(len([x for x in base['stable_pass'] if x not in passed]))
PY
)
rm -rf "$OUT" "$XDG_CACHE_HOME"
echo "seed $ID: demo clean rc=$RC_CLEAN, demo with change rc=$RC_MUT, baseline tests missing with change=$MISSING"
if [ $RC_CLEAN -eq 0 ] && [ $RC_MUT -ne 0 ] && [ "$MISSING" = "0" ]; then
  D=/verif/seeded/$ID; mkdir -p $D
  cp patch.diff $D/patch.diff; cp $DEMO $D/; [ -f notes.txt ] && cp notes.txt $D/notes.txt
  /venv/bin/python - "$ID" "$PROP" "$DEMO" "$D" <<'PY'
import sys, json
sid, prop, demo, d = sys.argv[1:5]
notes = open(d + '/notes.txt').read() if __import__('os').path.exists(d + '/notes.txt') else ''
json.dump(dict(id=sid, breaks_property=prop, demonstration=demo, needs_to_manifest=notes[:1500],
               confirmed=dict(demo_rc_unchanged=0, demo_rc_with_change='non-zero', baseline_stable_tests_missing=0,
                              how='seed_confirm.sh: git apply patch.diff in a scratch worktree; ran the demo with and without the change; ran the pinned baseline pytest command and compared with BASELINE.json stable_pass'),
               detected_by=None), open(d + '/meta.json', 'w'), indent=1)
PY
  echo "CONFIRMED -> $D"
else
  echo "NOT CONFIRMED (see /tmp/seed_$ID.*.log)"
fi
