#!/bin/bash
# usage: seed_eval.sh <seed-id> <PROP> [more props]  -- applies the seeded patch to /repo, runs the checks, reverts.
S=$1; shift
cd /verif
git -C /repo status --short | grep -q . && { echo "/repo not clean"; exit 2; }
git -C /repo apply /verif/seeded/$S/patch.diff || exit 2
for P in "$@"; do
  OUT=$(./check $P "${EXTRA[@]}" 2>&1); RC=$?
  echo "seed $S check $P: rc=$RC violations=$(echo "$OUT" | grep -c '^VIOLATION') $(echo "$OUT" | grep '^FAILED' | sort | uniq -c | head -4 | tr '\n' ';')"
done
git -C /repo checkout -- .
rm -rf /verif/replays
