#!/bin/bash
# Developer helper for the end of a work session: on a clean /repo, refresh the obligation lock, run every claimed check
# in both tiers, validate MANIFEST.json and evidence/*.json against the schemas. Prints one line per check.
cd "$(dirname "$0")"
[ -z "$(git -C /repo status --short)" ] || { echo "/repo not clean"; exit 1; }
PROPS=$(.venv/bin/python -c "import json; print(' '.join(c['property_id'] for c in json.load(open('MANIFEST.json'))['checks']))")
for p in $PROPS; do ./check $p --update-lock --no-bounded >/dev/null 2>&1; done
rc_all=0
for tier in thorough quick; do
  for p in $PROPS; do
    out=$(./check $p --tier $tier 2>&1); rc=$?
    echo "$tier $p rc=$rc $(echo "$out" | grep '^\[' | tail -1)"
    [ $rc -eq 0 ] || { rc_all=1; echo "$out" | grep -v '^KNOWN' | tail -5; }
  done
done
.venv/bin/python - <<'PY'
import json, glob, jsonschema
m = json.load(open('MANIFEST.json'))
jsonschema.validate(m, json.load(open('/root/.vp/MANIFEST.schema.json')))
es = json.load(open('/root/.vp/EVIDENCE.schema.json'))
for f in sorted(glob.glob('evidence/*.json')):
    jsonschema.validate(json.load(open(f)), es)
print('manifest and', len(glob.glob('evidence/*.json')), 'evidence files valid')
PY
exit $rc_all
