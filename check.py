#!/usr/bin/env python
"""check <ID> [--tier quick|thorough] [--replay FILE] [--update-lock]

Exit codes: 0 held on everything explored | 1 violation (VIOLATION line) | 2 undecided | 3 checker failure.
"""
import argparse
import hashlib
import importlib
import json
import os
import shutil
import sys
import tempfile
import time

HERE = os.path.dirname(os.path.abspath(__file__))
sys.path.insert(0, HERE)
REPO = os.environ.get('VERIF_REPO', '/repo')
sys.path.insert(0, REPO)

LEVELS = {'C17': 'proof', 'C18': 'exploration'}
LOCK = os.path.join(HERE, 'contracts', 'obligations.lock.json')
KNOWN = os.path.join(HERE, 'KNOWN_FINDINGS.json')

TRUSTED_BASE = [
    'T-py: pyvc encoding of the Python subset (pyvc/*.py); validated by CPython cross-check and deliberate-breakage self-test',
    'T-smt: z3 5.1.0 (python API) and cvc5 1.0.3 are sound',
    'T-int: Python ints and numba int64 treated as mathematical integers',
    'T-float: float treated as exact real (no NaN/inf/rounding) except the distinguished NAN constant',
    'T-drop: decorators, annotations, docstrings, print/log calls are dropped by the extraction',
    'T-noalias: distinct container parameters / fields do not alias unless the contract says so',
    'T-refeq: == and hashing of node objects are modelled as object identity (nodes that are equal but distinct objects, such as two SupNode objects with the same name and reference, are outside the deductive model; the bounded layer of C20 uses them)',
    'T-arity: a tuple of another length is not a member of a set whose declared element type is a tuple of fixed length',
    'T-sorted: sorted() of numbers is characterised by facts true of every sorted permutation (same length, ascending, same elements, distinct if the argument is), not by being a permutation',
    'partial correctness: termination is not proved',
]


def load_known():
    if not os.path.exists(KNOWN):
        return []
    with open(KNOWN) as f:
        return json.load(f).get('findings', [])


def known_match(known, prop, ident, witness=None):
    for k in known:
        if k.get('kind') != 'known' or k.get('property') != prop:
            continue
        if k.get('obligation') and k['obligation'] == ident:
            return k
        if k.get('clause') and k['clause'] == ident and witness is not None and \
                (k.get('witness_id') == witness.get('witness_id') or
                 (k.get('witness_class') is not None and k.get('witness_class') == witness.get('witness_class'))):
            return k
    return None


def lock_obls(lock, key):
    v = lock.get(key, [])
    return v.get('obligations', []) if isinstance(v, dict) else v


def load_lock():
    if os.path.exists(LOCK):
        with open(LOCK) as f:
            return json.load(f)
    return {}


def main():
    ap = argparse.ArgumentParser()
    ap.add_argument('prop')
    ap.add_argument('--tier', default=os.environ.get('VERIF_TIER', 'quick'))
    ap.add_argument('--replay')
    ap.add_argument('--update-lock', action='store_true')
    ap.add_argument('--no-bounded', action='store_true')
    ap.add_argument('--no-deductive', action='store_true')
    a = ap.parse_args()
    prop = a.prop
    tier = a.tier if a.tier in ('quick', 'thorough') else 'quick'
    seed = int(os.environ.get('VERIF_SEED', '0') or 0)
    t0 = time.time()
    tmp = tempfile.mkdtemp(prefix='verif_')
    os.environ['VERIF_TMP'] = tmp
    os.environ['XDG_CACHE_HOME'] = os.path.join(tmp, 'cache')
    os.environ['HOME_CACHE_REDIRECT'] = '1'
    os.makedirs(os.environ['XDG_CACHE_HOME'], exist_ok=True)
    os.environ.setdefault('NUMBA_CACHE_DIR', os.path.join(tmp, 'numba'))
    try:
        if a.replay:
            rc = do_replay(a.replay)
        else:
            rc = run_check(prop, tier, seed, t0, a)
    finally:
        shutil.rmtree(tmp, ignore_errors=True)
    sys.exit(rc)


def do_replay(path):
    with open(path) as f:
        r = json.load(f)
    print(json.dumps({k: r[k] for k in r if k in ('property', 'obligation', 'clause', 'what', 'witness', 'inputs',
                                                   'observed')}, indent=1, default=str)[:6000])
    script = r.get('script')
    if script and os.path.exists(os.path.join(HERE, script)):
        import subprocess
        p = subprocess.run([sys.executable, os.path.join(HERE, script)], env=dict(os.environ, PYTHONPATH=REPO))
        return 1 if p.returncode != 0 else 0
    return 0


def write_replay(prop, ident, payload):
    d = os.path.join(os.environ.get('VERIF_OUT') or HERE, 'replays', prop)   # VERIF_OUT: developer runs on a scratch checkout
    os.makedirs(d, exist_ok=True)
    h = hashlib.sha256(ident.encode()).hexdigest()[:10]
    safe = ''.join(ch if ch.isalnum() else '_' for ch in ident)[:80]
    p = os.path.join(d, f'{safe}_{h}.json')
    with open(p, 'w') as f:
        json.dump(payload, f, indent=1, default=str)
    return p


def run_check(prop, tier, seed, t0, a):
    from pyvc import runner
    known = load_known()
    lock = load_lock()
    timeout_ms = 10000 if tier == 'quick' else 60000
    violations, known_hits, undecided, failures = [], [], [], []
    notes = []
    changed_undecided = []
    functions, obligation_list = [], []
    n_obl = n_dis = 0
    solver_s = 0.0
    assumed = set()
    domain_evals = 0
    domain_info = []
    d = dict(outs=[], wall_s=0.0)
    new_lock = {}
    if not a.no_deductive:
        d = runner.run_property(prop, REPO, timeout_ms=timeout_ms)
    for out in d['outs']:
        key = out['key']
        functions.append(dict(function=key, source_sha=out.get('source_hash'), paths=out['npaths'],
                              error=out['error'], wall_s=round(out['wall_s'], 2)))
        if out.get('crash'):
            failures.append(f'{key}: {out["error"]}')
            continue
        changed_source = not (isinstance(lock.get(key), dict) and lock[key].get('source_sha') == out.get('source_hash'))
        n_und0 = len(undecided)
        if out['error']:
            undecided.append(f'{key}: {out["error"]}')
        assumed.update(out['assumed'])
        names = set()
        for r in out['results']:
            solver_s += r['ms'] / 1000.0
            names.add(r['name'])
            if r['kind'] == 'cover':
                if r['status'] == 'vacuous' and r['name'].endswith('cover[requires]'):
                    failures.append(f'{r["name"]}: contradictory precondition')
                continue
            n_obl += 1
            obligation_list.append({k: r[k] for k in ('name', 'kind', 'tag', 'status', 'instances', 'backend', 'ms')})
            if r['status'] == 'discharged':
                n_dis += 1
                continue
            if r['status'] == 'unknown':
                undecided.append(f'{r["name"]}: {r["detail"]}')
                continue
            # failed
            ident = r['name']
            km = known_match(known, prop, ident)
            confirmed = r.get('replay') or []
            payload = dict(property=prop, obligation=ident, tag=r['tag'], what=r['detail'], function=key,
                           inputs=r.get('inputs'), solver_model=r.get('model_text'), backend=r['backend'],
                           replayed=confirmed, replay_error=r.get('replay_error'))
            in_lock = ident in lock_obls(lock, key)
            if km:
                known_hits.append((ident, km.get('what', '')))
                continue
            if confirmed:
                p = write_replay(prop, ident, payload)
                violations.append((ident, p, ''))
            elif r['tag'] == 'property' and in_lock:
                domv = (out.get('domain') or {}).get('first') or []
                if domv:
                    # no replayable counter-model, but the bounded domain of the same function has a real input on
                    # which the executable form of the contract fails: that input is the replay
                    payload['note'] = 'obligation was discharged on the pinned tree and now fails; failing input taken ' \
                                      'from the bounded domain of the function (executable contract on the real code)'
                    payload['replayed'] = domv[:1]
                    p = write_replay(prop, ident, payload)
                    violations.append((ident, p, ''))
                else:
                    payload['note'] = 'obligation was discharged on the pinned tree and now fails; the counter-model did ' \
                                      'not replay on the real function (or no replay builder)'
                    p = write_replay(prop, ident, payload)
                    violations.append((ident, p, ' no-failing-input-found'))
            else:
                undecided.append(f'{ident}: failed ({r["tag"]}, in_lock={in_lock}) without real failing input: {r["detail"]}')
        if out.get('domain_error'):
            failures.append(f'{key}: bounded domain crashed: {out["domain_error"]}')
        if out.get('domain_note'):
            print(f'NOTE: no executable contract for {key} in this run: {out["domain_note"]}')
        dom = out.get('domain')
        if dom:
            domain_evals += dom['evaluated']
            domain_info.append(dict(function=key, evaluated=dom['evaluated'], violating=dom['violating'],
                                    wall_s=dom['wall_s'], clause_evaluations=dom.get('clause_evaluations'),
                                    clauses_not_executable=dom.get('clauses_not_executable', [])))
            if dom['violating']:
                for fv in dom['first'][:1]:
                    ident = f'{key.split(":")[1]}::{fv["violations"][0][0]}'
                    km = known_match(known, prop, ident)
                    if km:
                        known_hits.append((ident, km.get('what', '')))
                        continue
                    p = write_replay(prop, ident + ':domain', dict(
                        property=prop, obligation=ident, function=key, what='executable contract violated on the '
                        'real function for an input of its bounded domain', inputs=fv['call'],
                        observed=fv['violations']))
                    if not any(v[0] == ident for v in violations):
                        violations.append((ident, p, ''))
        if changed_source and len(undecided) > n_und0:
            # The text of this function is not the text the lock file (and the contract) was made for. Obligations
            # that cannot be generated or decided for the changed text are not a verdict about the property: the
            # executable form of the contract (DOMAIN) and the bounded layer still ran on the changed code. They are
            # reported as notes (and in the evidence), not as an alarm.
            moved = undecided[n_und0:]
            del undecided[n_und0:]
            for u in moved:
                changed_undecided.append(u)
        new_lock[key] = dict(source_sha=out.get('source_hash'), obligations=sorted(n for n in names if '::cover[' not in n))
        missing = set(lock_obls(lock, key)) - names
        same_source = isinstance(lock.get(key), dict) and lock[key].get('source_sha') == out.get('source_hash')
        if missing and not a.update_lock:
            if same_source:
                # the function text is the one the lock was made from: a smaller obligation set is a checker defect
                failures.append(f'{key}: obligations of the lock file were not generated: {sorted(missing)[:5]}')
            else:
                notes.append(f'{key}: source changed; {len(missing)} locked obligations have no counterpart now: {sorted(missing)[:3]}')
    if a.update_lock:
        lock.update(new_lock)
        with open(LOCK, 'w') as f:
            json.dump(lock, f, indent=1, sort_keys=True)
    if not a.no_deductive and d['outs'] and n_obl == 0:
        failures.append('zero obligations generated')
    selftest = None
    if tier == 'thorough' and not a.no_deductive and d['outs']:
        # deliberate-rewrite self-test of engine + contracts for the functions of this property
        from selftest import run as st_run
        selftest = st_run.run(keys={o['key'] for o in d['outs']})
        for r in selftest.get('results', []):
            if not r['ok']:
                failures.append(f'self-test: {r["kind"]} rewrite of {r["function"]} ({r["rewrite"]}) '
                                + ('still verifies' if r['kind'] == 'break' else f'no longer verifies: {r["failed"] or r["unknown"] or r["error"]}'))

    # ---------------- bounded layer
    bounded = None
    if not a.no_bounded:
        try:
            drv = importlib.import_module(f'bounded.drivers.{prop}')
        except ModuleNotFoundError as e:
            if f'bounded.drivers.{prop}' not in str(e) and 'bounded' not in str(e):
                raise
            drv = None
        if drv is not None:
            try:
                bounded = drv.run(tier=tier, seed=seed)
            except Exception as e:
                import traceback
                failures.append(f'bounded driver crashed: {type(e).__name__}: {e}\n{traceback.format_exc()[-2000:]}')
                bounded = None
            if bounded:
                for v in bounded.get('violations', []):
                    ident = v['clause']
                    km = known_match(known, prop, ident, v)
                    if km:
                        kh = (f'{ident} [{v.get("witness_class")}]', km.get('what', ''))
                        if kh not in known_hits:
                            known_hits.append(kh)
                        continue
                    p = write_replay(prop, ident + ':' + str(v.get('witness_id')), dict(property=prop, **v))
                    violations.append((ident, p, ''))
                if bounded.get('evaluations', 0) == 0:
                    failures.append('bounded layer evaluated zero contracts')

    wall = time.time() - t0
    # the evidence level is the level claimed in MANIFEST.json (a proof-level claim with an undischarged obligation
    # makes the check exit non-zero, it is never silently re-labelled)
    level = LEVELS.get(prop, 'other')
    try:
        with open(os.path.join(HERE, 'MANIFEST.json')) as f:
            for c in json.load(f).get('checks', []):
                if c['property_id'] == prop:
                    level = c['level_claimed']['category']
    except Exception:
        pass
    if level == 'proof' and (n_dis != n_obl or n_obl == 0) and not (violations or failures or undecided or changed_undecided):
        failures.append(f'proof-level claim but only {n_dis}/{n_obl} obligations discharged')
    samples = [o['name'] for o in obligation_list[:6]]
    if bounded:
        samples += bounded.get('samples', [])[:6]
    cov = dict(
        obligations=n_obl, discharged=n_dis,
        checker_cmd=f'./check {prop} --tier {tier}',
        trusted_base=TRUSTED_BASE,
        explanation=(f'Layer D (pyvc): {len(functions)} real functions re-read from {REPO} and symbolically executed '
                     f'against sidecar contracts; {n_dis}/{n_obl} obligations discharged by z3/cvc5 for all inputs. '
                     + (f'Layer B (bounded, never counted as proved): {bounded.get("bound", "")}' if bounded else
                        'No bounded layer for this property.')),
        evaluations=(bounded or {}).get('evaluations', 0) + n_obl + domain_evals,
        function_domains=domain_info,
        distinct_nontrivial=(bounded or {}).get('distinct_nontrivial', 0) + n_dis,
        rule=(bounded or {}).get('rule', 'deductive obligations only') +
             ' | deductive: one obligation per contract clause / invariant / implicit-exception site, aggregated over paths',
        samples=samples or ['none'],
        exhaustive=bool((bounded or {}).get('exhaustive', False)),
        functions_under_contract=functions,
        obligation_list=obligation_list,
        solver_time_s=round(solver_s, 2),
        bounded={k: v for k, v in (bounded or {}).items() if k not in ('violations', 'samples')} if bounded else None,
        selftest=selftest,
        known_findings_hit=[k[0] for k in known_hits],
        undecided=undecided, undecided_on_changed_source=changed_undecided, checker_failures=failures, notes=notes,
    )
    ev = dict(property_id=prop, tier=tier, seed=seed, level=level, coverage=cov,
              assumptions=TRUSTED_BASE + [f'assumed callee contract: {x}' for x in sorted(assumed)] +
              (bounded or {}).get('assumptions', []),
              wall_s=round(wall, 2), violations=len(violations))
    out_dir = os.environ.get('VERIF_OUT') or HERE
    os.makedirs(os.path.join(out_dir, 'evidence'), exist_ok=True)
    with open(os.path.join(out_dir, 'evidence', f'{prop}.json'), 'w') as f:
        json.dump(ev, f, indent=1, default=str)

    for ident, what in known_hits:
        print(f'KNOWN-FINDING: property={prop} {ident} {what}')
    for ident, p, suffix in violations:
        print(f'FAILED: {ident}')
        print(f'VIOLATION property={prop} replay={p}{suffix}')
    print(f'[{prop}] tier={tier} functions={len(functions)} obligations={n_obl} discharged={n_dis} '
          f'bounded_evals={(bounded or {}).get("evaluations", 0)} violations={len(violations)} '
          f'known={len(known_hits)} undecided={len(undecided)} failures={len(failures)} wall={wall:.1f}s')
    for u in undecided:
        print('UNDECIDED:', u[:600])
    for u in changed_undecided:
        print('NOTE: no deductive verdict for a function whose source differs from the locked text (executable '
              'contract and bounded layer ran on the changed code):', u[:400])
    for u in failures:
        print('CHECKER-FAILURE:', u[:1500])
    if violations:
        return 1
    if failures:
        return 3
    if undecided:
        return 2
    return 0


if __name__ == '__main__':
    main()
