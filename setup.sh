#!/bin/bash
# Builds /verif/.venv offline: python 3.12 overlay on /venv (repo deps) + z3-solver, cvc5, icontract, jsonschema.
set -e
cd "$(dirname "$0")"
if [ -x .venv/bin/python ] && .venv/bin/python -c "import z3, cvc5, jsonschema, icontract, networkx, numpy" 2>/dev/null; then
  exit 0
fi
rm -rf .venv
/venv/bin/python -m venv .venv
SP=$(.venv/bin/python -c "import sysconfig; print(sysconfig.get_paths()['purelib'])")
echo "import site; site.addsitedir('/venv/lib/python3.12/site-packages')" > "$SP/zz_repo_deps.pth"
PIP_NO_INDEX=1 .venv/bin/python -m pip install -q --no-index --find-links /opt/veriftools/wheels --no-deps \
   z3-solver cvc5 icontract asttokens six jsonschema jsonschema_specifications referencing rpds_py attrs typing_extensions >/dev/null
.venv/bin/python -c "import z3, cvc5, jsonschema, icontract, networkx, numpy, numba, pandas; print('verif venv ok: z3', z3.get_version_string())"
