"""Bounded driver for C07: run-time contracts on GraphProcessor.get_graph over the enumerated corpus."""
from bounded import harness, decode
from bounded.corpus import corpus, bound_text

FAMILIES = ['sel', 'inc', 'con', 'conx', 'forced', 'conn', 'conn2', 'dvmet', 'mix']


def member(desc, tier, seed):
    return decode.decode_member(desc, tier, seed, props=('C07',), encoders=('COMPLETE','FAST'))


def enum(desc, tier, seed):
    from bounded import enumchecks
    return enumchecks.activeness_member(desc, tier, seed)


def run(tier='quick', seed=0):
    members = corpus(FAMILIES, tier)
    results = harness.run_pool('bounded.drivers.C07', 'member', members, tier, seed)
    results += harness.run_pool('bounded.drivers.C07', 'enum', members, tier, seed)
    return harness.aggregate(
        results,
        rule='one evaluation = one contract clause on one (graph, encoder, vector); non-trivial = distinct '
             '(graph, encoder, corrected vector) that was decoded',
        bound=bound_text(FAMILIES) + ' x selection-choice encoders as listed in member(); every row of the enumeration of valid designs (complete encoder) compared with its decode (create=True/False)',
        assumptions=['reference semantics (bounded/specsem.py) is the statement\'s semantics; validated against the '
                     'documented example of docs/theory.md which is a corpus member'])
