"""Bounded driver for C13."""
from bounded import harness, constraintchecks
from bounded.corpus import corpus, BOUND_TEXT

FAMILIES = ['con', 'conx', 'forced']
TYPES = ['LINKED', 'PERMUTATION', 'UNORDERED', 'UNORDERED_NOREPL']


def member(payload, tier, seed):
    if isinstance(payload, str):
        return constraintchecks.index_functions(payload, tier, seed)
    return constraintchecks.offered_member(payload, tier, seed)


def sibling(desc, tier, seed):
    return constraintchecks.sibling_member(desc, tier, seed)


def run(tier='quick', seed=0):
    members = TYPES + corpus(FAMILIES, tier)
    results = harness.run_pool('bounded.drivers.C13', 'member', members, tier, seed)
    # graphs with a constraint and at least two further free choices: a copy gets a second constraint
    results += harness.run_pool('bounded.drivers.C13', 'sibling', corpus(['conpart'], tier) + [d for d in corpus(['sel'], 'quick') if len(d.choices) >= 2][:8], tier, seed)
    return harness.aggregate(
        results,
        rule='one evaluation = one clause on one (index row | taken choice/option/sibling option | graph x encoder); non-trivial = distinct such case',
        bound='index functions: every row with <=3 columns over -1..3 for the 4 constraint types (both all-permanent flags); removed options for 2-3 choices x 2-4 options x every taken choice/option; offered architectures: ' + '; '.join(BOUND_TEXT[f] for f in FAMILIES) + ' x both encoders; CONPART and 8 selection graphs: a copy is constrained over two free choices (3 types), the original still offers its reference set',
        assumptions=['documented relation: LINKED equal, PERMUTATION pairwise different, UNORDERED non-decreasing, UNORDERED_NOREPL strictly increasing, on the choices active together'])
