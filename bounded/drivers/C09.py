"""Bounded driver for C09: enumerated connection matrices / validity test / counting vs brute force."""
from bounded import harness, matrixchecks


def member(chunk, tier, seed):
    return matrixchecks.matrix_chunk(chunk, tier, seed)


def lookalike(chunk, tier, seed):
    return matrixchecks.lookalike_chunk(chunk, tier, seed)


def run(tier='quick', seed=0):
    chunks = matrixchecks.chunk_payloads(tier, seed)
    results = harness.run_pool('bounded.drivers.C09', 'member', chunks, tier, seed)
    results += harness.run_pool('bounded.drivers.C09', 'lookalike', matrixchecks.lookalike_payloads(tier, seed), tier, seed)
    return harness.aggregate(
        results,
        rule='one evaluation = one clause on one (settings, existence pattern[, matrix]); non-trivial = distinct (settings, existence pattern)',
        bound='all 256 pairs of connector types (8 degree specs x repeat flag) for 1x1; 250 (quick) / 1500 (thorough) seeded settings each for 1x2, 2x1 and 2x2 (2x2 with 0-2 excluded pairs); thorough: +300 VERIF_SEED-seeded settings up to 3x3; all existence patterns; validity test on every matrix of the per-pair box +1; every third setting asked for one pattern first; 60 (300) settings with an explicit limit on parallel connections; 40 (200) settings each followed, with the caches on, by 4-6 settings that differ in one respect',
        assumptions=['brute-force oracle with the documented pair-limit rule (DESIGN.md Appendix B)'], exhaustive=False)
