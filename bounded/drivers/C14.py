"""Bounded driver for C14: run-time contracts on GraphProcessor.get_graph over the enumerated corpus."""
from bounded import harness, decode
from bounded.corpus import corpus, bound_text

FAMILIES = ['sel', 'inc', 'con', 'conx', 'forced', 'dvmet', 'mix']


def member(desc, tier, seed):
    return decode.decode_member(desc, tier, seed, props=('C01','C14'), encoders=('FAST',))


def cross(payload, tier, seed):
    from bounded import enumchecks
    return enumchecks.cross_member(payload, tier, seed)


def run(tier='quick', seed=0):
    members = corpus(FAMILIES, tier)
    results = harness.run_pool('bounded.drivers.C14', 'member', members, tier, seed)
    # valid vectors stay valid whatever other fast-encoder processors have served in the same process
    from bounded.drivers.C05 import CROSS
    results += harness.run_pool('bounded.drivers.C14', 'cross', [(a, b_, 'FAST') for a, b_ in CROSS], tier, seed)
    return harness.aggregate(
        results,
        rule='one evaluation = one contract clause on one (graph, encoder, vector); non-trivial = distinct '
             '(graph, encoder, corrected vector) that was decoded',
        bound=bound_text(FAMILIES) + ' x selection-choice encoders as listed in member(); 4 graph pairs: a fast-encoder processor of another graph with the same variables serves all its decodes first (fresh interpreter per pair)',
        assumptions=['reference semantics (bounded/specsem.py) is the statement\'s semantics; validated against the '
                     'documented example of docs/theory.md which is a corpus member'])
