"""Bounded driver for C04: contracts on get_all_discrete_x / counting vs the reference enumeration."""
from bounded import harness, enumchecks
from bounded.corpus import corpus, bound_text

FAMILIES = ['sel', 'inc', 'con', 'conx', 'forced', 'conn', 'conn2', 'dvmet', 'mix']


def member(desc, tier, seed):
    return enumchecks.enum_member(desc, tier, seed)


def run(tier='quick', seed=0):
    members = corpus(FAMILIES, tier)
    results = harness.run_pool('bounded.drivers.C04', 'member', members, tier, seed)
    return harness.aggregate(
        results,
        rule='one evaluation = one contract clause on one enumeration / row / fixed configuration; non-trivial = '
             'distinct (graph, row) decoded or (graph, fixed variable, value) enumerated',
        bound=bound_text(FAMILIES) + '; complete encoder; with and without one fixed discrete variable (first 3 variables x all values)',
        assumptions=['reference enumeration bounded/specsem.py (all option assignments x valid connection matrices x discrete DV values)'])
