"""Bounded driver for C11."""
from bounded import harness, persist
from bounded.corpus import corpus, BOUND_TEXT

FAMILIES = ['conn', 'conn2', 'mix']


def member(desc, tier, seed):
    return persist.conn_member(desc, tier, seed)


def run(tier='quick', seed=0):
    members = corpus(FAMILIES, tier)
    results = harness.run_pool('bounded.drivers.C11', 'member', members, tier, seed)
    return harness.aggregate(
        results,
        rule='one evaluation = one clause on one (graph, operation / scenario); non-trivial = distinct (graph, operation, live graph) resp. (graph, scenario, connection choice)',
        bound='; '.join(BOUND_TEXT[f] for f in FAMILIES) + ('; all derive operations to depth 2 (3 thorough) incl. copy / apply selection / apply connection / constrain on a copy / decode all vectors, every live graph re-observed after every operation' if 'C11' == 'C08' else '; every admissible selection scenario x every connection choice; brute-force valid matrices as oracle'),
        assumptions=['observations are made through the public graph API (nodes, edges, feasible, final, next choices, option lists, valid connection sets, unconnected connectors, stored values)'])
