"""Bounded driver for C02: contracts on DSG.get_for_apply_selection_choice composed along all choice orders."""
from bounded import harness, graphchecks
from bounded.corpus import corpus, bound_text

FAMILIES = ['sel', 'inc', 'forced', 'mix']


def member(desc, tier, seed):
    return graphchecks.choice_member(desc, tier, seed, props=('C02',))


def reinit(desc, tier, seed):
    return graphchecks.reinit_member(desc, tier, seed)


def cached(desc, tier, seed):
    return graphchecks.cached_walk_member(desc, tier, seed)


def cached_random(idx, tier, seed):
    return graphchecks.cached_walk_random(idx, tier, seed)


def run(tier='quick', seed=0):
    members = [d for d in corpus(FAMILIES, tier) if not d.conn_choices]   # selection-only walks: connector feasibility is C11's
    results = harness.run_pool('bounded.drivers.C02', 'member', members, tier, seed)
    results += harness.run_pool('bounded.drivers.C02', 'cached', members, tier, seed)
    results += harness.run_pool('bounded.drivers.C02', 'reinit', members, tier, seed)
    results += harness.run_pool('bounded.drivers.C02', 'cached_random', list(range(16 if tier == 'quick' else 160)), tier, seed)
    return harness.aggregate(
        results,
        rule='one evaluation = one clause at one node of the choice tree (all orders of taking the active selection '
             'choices x all offered options); non-trivial = distinct (graph, partial assignment)',
        bound='; '.join(__import__('bounded.corpus', fromlist=['BOUND_TEXT']).BOUND_TEXT[f] for f in FAMILIES) +
              '; every order in which active selection choices can be taken x every offered option; every unconstrained member once more after an edit of the initialised graph (one more derivation edge, initialised again); memoised confirmed-edge walk: every node of every member in 4 (10) query orders + 400 (4000) seeded random multigraphs of 3..12 nodes in 3 orders',
        assumptions=['reference: closure / admissible assignments of bounded/specsem.py'])
