"""Bounded driver for C18."""
from bounded import harness, identitychecks
from bounded.corpus import corpus, BOUND_TEXT
from bounded.harness import Ctx

FAMILIES = ['sel', 'inc', 'con', 'conpart', 'conn', 'dvmet']
SWEEP = ['theory-example', 'nested-3', 'inc-opt-opt-1', 'con-UNORDERED-perm-2x3', 'conn-cond-0', 'dv-3']


def member(desc, tier, seed):
    return identitychecks.identity_member(desc, tier, seed)


def run(tier='quick', seed=0):
    members = corpus(FAMILIES, tier)
    results = harness.run_pool('bounded.drivers.C18', 'member', members, tier, seed)
    if tier == 'thorough':
        ctx = Ctx(None)
        dg = identitychecks.hashseed_sweep(SWEEP)
        seeds = sorted(dg)
        for l in SWEEP:
            vals = {dg[s][l] for s in seeds}
            ctx.check('C18.same-in-other-process', len(vals) == 1, ['hashseed-sweep', l],
                      f'digests over PYTHONHASHSEED {seeds}: {[dg[s][l] for s in seeds]}', (l, 'hashseed'))
        results.append(ctx.result())
    return harness.aggregate(
        results,
        rule='one evaluation = one clause on one (graph, edit | pickle | export | hash seed); non-trivial = distinct such case',
        bound='; '.join(BOUND_TEXT[f] for f in FAMILIES) + '; single structural edits (add node, add node+edge, remove edge, remove node, add constraint, add start node); pickle of graph and processor with all vectors (<=64) re-decoded; DOT and GML export; thorough: 6 graphs x PYTHONHASHSEED 1,2,3 in subprocesses (configuration sweep, not a proof over processes)',
        assumptions=['hash collisions make "unequal after an edit" false in principle; only observed on the bounded corpus'])
