"""Bounded driver for C18."""
from bounded import harness, identitychecks
from bounded.corpus import corpus, BOUND_TEXT
from bounded.harness import Ctx

FAMILIES = ['sel', 'inc', 'con', 'conpart', 'conn', 'dvmet', 'mix']
SWEEP = ['theory-example', 'nested-3', 'inc-opt-opt-1', 'con-UNORDERED-perm-2x3', 'con-LINKED-perm-2x3', 'conn-cond-0', 'dv-3', 'dv-linked-discrete']


def member(desc, tier, seed):
    return identitychecks.identity_member(desc, tier, seed)


def run(tier='quick', seed=0):
    members = corpus(FAMILIES, tier)
    results = harness.run_pool('bounded.drivers.C18', 'member', members, tier, seed)
    if tier == 'thorough':
        ctx = Ctx(None)
        dg = identitychecks.hashseed_sweep(SWEEP)
        seeds = sorted(dg)
        import base64, pickle
        from bounded import gen
        allm = {d.label: d for d in corpus(['sel', 'inc', 'con', 'conn', 'dvmet'], 'quick')}
        for l in SWEEP:
            vals = {dg[s][l][0] for s in seeds}
            ctx.check('C18.same-in-other-process', len(vals) == 1, ['hashseed-sweep', l],
                      f'digests over PYTHONHASHSEED {seeds}: {[dg[s][l][0] for s in seeds]}', (l, 'hashseed'))
            # the graph built in the other process, shipped by pickle, is recognised here as the same design space
            mine = gen.Built(allm[l]).dsg
            for s in seeds:
                try:
                    other = pickle.loads(base64.b64decode(dg[s][l][1]))
                    ok = mine.is_same(other) and other.is_same(mine)
                    ctx.check('C18.rebuilt-in-other-process-is-same', ok, ['hashseed-sweep', l, s],
                              f'graph built with PYTHONHASHSEED={s} and unpickled here is not recognised as the same', (l, 'rebuilt', s))
                except Exception as e:  # noqa
                    ctx.check('C18.rebuilt-in-other-process-is-same', False, ['hashseed-sweep', l, s], f'{type(e).__name__}: {e}', (l, 'rebuilt', s))
        results.append(ctx.result())
    return harness.aggregate(
        results,
        rule='one evaluation = one clause on one (graph, edit | pickle | export | hash seed); non-trivial = distinct such case',
        bound='; '.join(BOUND_TEXT[f] for f in FAMILIES) + '; single structural edits (add node, add node+edge, remove edge, remove node, add constraint, add start node); pickle of graph and processor with all vectors (<=64) re-decoded; DOT and GML export; rebuild from the same description in the same process; thorough: 8 graphs x PYTHONHASHSEED 1,2,3 built in subprocesses, digests of variables and vector->architecture mapping compared and the pickled graph compared here with is_same (configuration sweep, not a proof over processes)',
        assumptions=['hash collisions make "unequal after an edit" false in principle; only observed on the bounded corpus'])
