"""Bounded driver for C15: contracts on fix_des_var / free_des_var vs filtering the unfixed enumeration."""
from bounded import harness, enumchecks
from bounded.corpus import corpus, bound_text

FAMILIES = ['sel', 'inc', 'con', 'conx', 'forced', 'conn', 'dvmet', 'mix']


def member(desc, tier, seed):
    return enumchecks.fix_member(desc, tier, seed)


def run(tier='quick', seed=0):
    members = corpus(FAMILIES, tier)
    results = harness.run_pool('bounded.drivers.C15', 'member', members, tier, seed)
    return harness.aggregate(
        results,
        rule='one evaluation = one clause after one step of a fix/free sequence; non-trivial = distinct (graph, sequence)',
        bound=bound_text(FAMILIES) + '; all variables x all values: fix,free sequences; pairs of variables (first 6 candidates quick / all thorough): fix,fix,free,free; complete encoder',
        assumptions=['expected restricted enumeration = rows of the unfixed enumeration where each fixed variable is inactive or has the fixed value, column removed'])
