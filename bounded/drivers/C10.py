"""Bounded driver for C10: every registry encoder x imputer is a faithful, total, onto coding (full declared space)."""
from bounded import harness, matrixchecks


def member(chunk, tier, seed):
    return matrixchecks.encoder_chunk(chunk, tier, seed)


def run(tier='quick', seed=0):
    sp = matrixchecks.encoder_settings(tier, seed)
    heavy = [x for x in sp if len(x) > 3]          # many-matrix settings: one per task, started first
    light = [x for x in sp if len(x) <= 3]
    chunks = [[x] for x in heavy] + [light[i:i + 3] for i in range(0, len(light), 3)]
    results = harness.run_pool('bounded.drivers.C10', 'member', chunks, tier, seed)
    return harness.aggregate(
        results,
        rule='one evaluation = one clause on one (encoder factory, imputer, settings, existence pattern, vector); non-trivial = distinct (factory, imputer, settings, existence pattern)',
        bound='every factory of EAGER_ENCODERS x 4 imputers, EAGER_ENUM_ENCODERS x 2, LAZY_ENCODERS x 3 imputers, PATTERN_ENCODERS (constraint-violation imputers excluded: they return marked-invalid matrices by design) x 75 (quick) / 420 (thorough) connector settings up to 2x2 with exclusions x all existence patterns, plus 18 (quick) / 25 (thorough) settings with many valid matrices (choose 1 of N for N = 3..13 / 3..17, and 7 / 10 wider shapes up to 2x3 / 3x2) with all nodes present x every vector of prod[-1..n_opts_i] plus one too-long vector (spaces > 4000 vectors skipped)',
        assumptions=['brute-force oracle as in C09'], exhaustive=False)
