"""Bounded driver for C05: every operation history (bounded depth) leaves a processor indistinguishable from a fresh one."""
from bounded import harness, enumchecks, gen
from bounded.corpus import corpus

LABELS = ['single-3', 'nested-2', 'taken-order-differs', 'activated-by-two-choices', 'activated-by-two-nested-choices', 'inc-three-opts-1', 'theory-example', 'inc-opt-opt-1', 'inc-nested-0', 'con-LINKED-perm-2x3',
          'forced-linked-then-conditional', 'conn-perm-2x1-0', 'conn-cond-0', 'conn2-perm', 'conn-only-with-metric-no-selection-choice', 'conn2-second-conditional', 'conn3-perm', 'conn3-middle-conditional', 'conn-group-0', 'conn-group-1', 'conn-group-unbounded-0', 'conn-group-unbounded-1', 'conn-group-unbounded-4',
          'dv-3', 'met-1']


# (graph A, graph B with the same variables): a processor of A serves decodes before fresh processors of B are compared
CROSS = [('inc-opt-opt-1', 'inc-opt-opt-none'), ('inc-three-opts-1', 'inc-three-opts-none'), ('inc-nested-0', 'inc-nested-none'),
         ('inc-derived-0', 'inc-derived-none')]


def cross(payload, tier, seed):
    return enumchecks.cross_member(payload, tier, seed)


def member(payload, tier, seed):
    return enumchecks.history_member(payload, tier, seed)


def run(tier='quick', seed=0):
    allm = {d.label: d for d in corpus(['sel', 'inc', 'con', 'forced', 'conn', 'conn2', 'dvmet'], 'quick')}
    members = [(allm[l], enc) for l in LABELS if l in allm for enc in ('COMPLETE', 'FAST')]
    results = harness.run_pool('bounded.drivers.C05', 'member', members, tier, seed)
    pairs = [(a, b_, enc) for a, b_ in CROSS for enc in ('COMPLETE', 'FAST')]
    results += harness.run_pool('bounded.drivers.C05', 'cross', pairs, tier, seed)
    return harness.aggregate(
        results,
        rule='one evaluation = comparison of the full observable behaviour (decode of up to 8 vectors with create=True/False: corrected vector, activeness, architecture, stored metric values) with processors that have served nothing (one per decode) after one history prefix; non-trivial = distinct (graph, encoder, history prefix)',
        bound=f'{len(LABELS)} graphs x 2 encoders; histories over decode(4 vectors, create T/F), enumerate, statistics, mutate returned instance, pickle round trip, fix/free (complete encoder): all sequences of length 2 (quick) / 3 (thorough); 4 graph pairs x 2 encoders: a processor of another graph with the same variables serves all its decodes first (fresh interpreter per pair)',
        assumptions=['hash-seed / cross-process clause is only covered by the thorough configuration sweep'], exhaustive=True)
