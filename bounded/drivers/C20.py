"""Bounded driver for C20."""
from bounded import harness, identitychecks
from bounded.corpus import corpus, BOUND_TEXT

FAMILIES = ['sel', 'inc', 'dvmet', 'mix']


def member(desc, tier, seed):
    return identitychecks.sup_member(desc, tier, seed)


def same_name(payload, tier, seed):
    return identitychecks.sup_same_name_member(payload, tier, seed)


def run(tier='quick', seed=0):
    members = corpus(FAMILIES, tier)
    results = harness.run_pool('bounded.drivers.C20', 'member', members, tier, seed)
    results += harness.run_pool('bounded.drivers.C20', 'same_name',
                                [(k, o) for k in ('dv', 'dv-discrete', 'metric') for o in ('listed', 'reversed')], tier, seed)
    return harness.aggregate(
        results,
        rule='one evaluation = one clause on one (source graph, source architecture, supplementary choice) or rejected configuration; non-trivial = distinct such case',
        bound='; '.join(BOUND_TEXT[f] for f in FAMILIES) + '; per source graph one supplementary graph with an option mapping for every source choice (None case for conditional ones), an existence mapping over two nodes, a nested supplementary choice; all source architectures; rejected: duplicate mapping, unmapped choice, missing None, non-final source; 6 hand-built sources whose option nodes share a display name (design-variable / metric nodes that differ in bounds, options, reference)',
        assumptions=['str_context is injective on the corpus node names'])
