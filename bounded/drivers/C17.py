"""Bounded driver for C17 (corroboration of the assumed permanent-node link and of evaluate on real instances)."""
from bounded import harness, metricchecks
from bounded.corpus import corpus, BOUND_TEXT


def member(desc, tier, seed):
    return metricchecks.metric_member(desc, tier, seed)


def run(tier='quick', seed=0):
    members = [d for d in corpus(['dvmet', 'mix'], tier) if d.metrics]
    results = harness.run_pool('bounded.drivers.C17', 'member', members, tier, seed)
    return harness.aggregate(
        results,
        rule='one evaluation = one clause on one (graph, evaluator mode, architecture, metric); non-trivial = distinct such case',
        bound='metric nodes of every direction (None,-1,1) x reference (None,1.5) x type (None,NONE,OBJECTIVE,CONSTRAINT) under a permanent and a conditional node (12 graphs of 4 metrics) x evaluators returning complete / partial / NaN / all-zero results x all architectures',
        assumptions=['A17-perm is exercised here: every objective node must be present in every decoded architecture'])
