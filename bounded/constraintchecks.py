"""Run-time contracts for C13: choice constraints admit exactly the documented index combinations."""
import itertools

import numpy as np

from . import gen, specsem
from .harness import Ctx
from .decode import make_processor, obs_arch, ref_archs
from .harness import all_vectors


def rel_ok(ctype, idx):
    """The documented relation on the indices of the choices that are active together (in choice order)."""
    if len(idx) < 2:
        return True
    if ctype == 'LINKED':
        return len(set(idx)) == 1
    if ctype == 'PERMUTATION':
        return len(set(idx)) == len(idx)
    if ctype == 'UNORDERED':
        return all(a <= b for a, b in zip(idx, idx[1:]))
    if ctype == 'UNORDERED_NOREPL':
        return all(a < b for a, b in zip(idx, idx[1:]))
    raise ValueError(ctype)


def index_functions(payload, tier, seed):
    from adsg_core.graph.choice_constraints import (ChoiceConstraintType, ChoiceConstraint, get_valid_idx_combinations,
                                                    get_constraint_removed_options)
    from adsg_core.graph.adsg_nodes import SelectionChoiceNode, NamedNode
    ctx = Ctx(None)
    ctype = payload
    T = getattr(ChoiceConstraintType, ctype)
    # (1) get_valid_idx_combinations on every index matrix row with <=3 columns and values -1..3
    for ncol in (1, 2, 3):
        rows = list(itertools.product(range(-1, 4), repeat=ncol))
        M = np.array(rows, dtype=int).reshape(len(rows), ncol)
        for perm in (False, True):
            got = set(int(i) for i in get_valid_idx_combinations(M, T, is_all_permanent=perm))
            for i, row in enumerate(rows):
                act = [v for v in row if v != -1]
                if ctype == 'UNORDERED_NOREPL' and perm:
                    # all-permanent variant works on indices relative to the pre-removed options:
                    # absolute index = relative index + position, so strictly increasing <=> relative non-decreasing
                    want = all(a <= b for a, b in zip(act, act[1:])) if len(act) > 1 else True
                else:
                    want = rel_ok(ctype, act)
                ctx.check('C13.valid-index-combinations', (i in got) == want, [ctype, 'get_valid_idx_combinations', list(row), perm],
                          f'row {row} (all_permanent={perm}): kept={i in got}, documented relation={want}', (ctype, ncol, row, perm))
    # (2) get_constraint_removed_options: an option of a sibling choice is removed iff it cannot satisfy the relation
    for nch in (2, 3):
        for nopts in itertools.product((2, 3, 4), repeat=nch):
            if ctype != 'LINKED' and len(set(nopts)) > 1 and nch == 3:
                continue
            nodes = [SelectionChoiceNode(f'C{i}') for i in range(nch)]
            options = [[NamedNode(f'c{i}o{j}') for j in range(n)] for i, n in enumerate(nopts)]
            con = ChoiceConstraint(T, nodes, options)
            for it in range(nch):
                for jc in range(nopts[it]):
                    removed = {id(n): opts for n, opts in get_constraint_removed_options(con, it, jc)}
                    for i2 in range(nch):
                        if i2 == it:
                            ctx.check('C13.taken-choice-not-listed', id(nodes[i2]) not in removed,
                                      [ctype, 'get_constraint_removed_options', list(nopts), it, jc], 'taken choice listed', (ctype, nopts, it, jc))
                            continue
                        rem = removed.get(id(nodes[i2]), [])
                        for k in range(nopts[i2]):
                            pair = [jc, k] if it < i2 else [k, jc]
                            want_removed = not rel_ok(ctype, pair)
                            is_removed = any(o is options[i2][k] for o in rem)
                            clause = 'C13.removed-options-iff-relation-violated'
                            if ctype == 'LINKED' and jc >= nopts[i2]:
                                clause = 'C13.linked-with-fewer-options'
                            ctx.check(clause, is_removed == want_removed,
                                      [ctype, 'get_constraint_removed_options', list(nopts), it, jc, i2, k],
                                      f'choice {it} takes option {jc}: option {k} of choice {i2} removed={is_removed}, '
                                      f'relation violated={want_removed}', (ctype, nopts, it, jc, i2, k))
    ctx.samples.append(dict(constraint=ctype))
    return ctx.result()


def offered_member(desc, tier, seed):
    """Architectures offered under constraints = reference set, for both encoders (nothing dropped or duplicated)."""
    ctx = Ctx(desc)
    ref = ref_archs(desc)
    for enc in ('COMPLETE', 'FAST'):
        try:
            b, gp = make_processor(desc, enc)
        except Exception as e:  # noqa
            ctx.check('C13.constructible-unless-unsatisfiable', len(ref) == 0, [enc, 'constructor'],
                      f'{type(e).__name__}: {e}; reference has {len(ref)} architectures', (desc.label, enc))
            continue
        got = []
        if enc == 'COMPLETE':
            X, A = gp.get_all_discrete_x()
            X = [list(x) for x in X]
        else:
            X, _ = all_vectors(gp.des_vars, cap=2048)
        for x in X:
            try:
                inst, xi, ai = gp.get_graph(list(x))
                got.append(obs_arch(b, inst))
            except Exception as e:  # noqa
                ctx.check('C13.decode-total', len(ref) == 0, [enc, list(x)], f'{type(e).__name__}: {e}', (desc.label, enc, tuple(x)))
        gs = set(got)
        nt = (desc.label, enc)
        ctx.check('C13.only-admitted-combinations-offered', gs <= ref, [enc, 'offered'],
                  f'offered but not admitted: {[sorted(m[0]) for m in list(gs - ref)[:3]]}', nt)
        ctx.check('C13.no-admitted-combination-dropped', ref <= gs, [enc, 'offered'],
                  f'admitted but not offered: {[sorted(m[0]) for m in list(ref - gs)[:3]]}', nt)
        if enc == 'COMPLETE':
            ctx.check('C13.no-duplicates', len(gs) == len(got), [enc, 'offered'], f'{len(got)} rows, {len(gs)} architectures', nt)
        # linked DV nodes are not part of this corpus (see C16 driver)
    ctx.samples.append(dict(desc=desc.label, reference=len(ref)))
    return ctx.result()


def sibling_member(desc, tier, seed):
    """Choices that are under no constraint of a graph stay unconstrained in that graph when a *copy* of it gets a
    further constraint over them: the architectures offered by the original are still its reference set."""
    from adsg_core.graph.choice_constraints import ChoiceConstraintType
    from adsg_core.optimization.graph_processor import GraphProcessor
    from adsg_core.optimization.hierarchy import SelChoiceEncoderType
    ctx = Ctx(desc)
    ref = ref_archs(desc)
    try:
        b = gen.Built(desc)
    except Exception:
        return ctx.result()
    constrained = {c for _, cs in desc.constraints for c in cs}
    free = [b.choice[c.cid] for c in desc.choices if c.cid not in constrained and b.choice[c.cid] in b.dsg.graph.nodes]
    free = [c for c in free if len(b.dsg.get_option_nodes(c)) == len(b.dsg.get_option_nodes(free[0]))] if free else []
    if len(free) < 2:
        return ctx.result()
    for ctype in (ChoiceConstraintType.PERMUTATION, ChoiceConstraintType.UNORDERED, ChoiceConstraintType.LINKED):
        wit = ['COMPLETE', 'constraint-on-a-copy', ctype.name]
        nt = (desc.label, 'sibling', ctype.name)
        try:
            b.dsg.copy().constrain_choices(ctype, free[:2])
        except Exception as e:  # noqa
            ctx.check('C13.constraint-on-a-copy-accepted', False, wit, f'{type(e).__name__}: {e}', nt)
            continue
        try:
            gp = GraphProcessor(b.dsg, encoder_type=SelChoiceEncoderType.COMPLETE)
            X, _ = gp.get_all_discrete_x()
            got = set()
            for x in X:
                inst, xi, ai = gp.get_graph(list(x))
                got.add(obs_arch(b, inst))
            ctx.check('C13.unconstrained-choices-stay-unconstrained', got == ref, wit,
                      f'after constraining two free choices on a copy ({ctype.name}) the original offers {len(got)} architectures, reference {len(ref)}; '
                      f'missing {[sorted(m[0]) for m in list(ref - got)[:2]]}', nt)
        except Exception as e:  # noqa
            ctx.check('C13.unconstrained-choices-stay-unconstrained', len(ref) == 0, wit, f'{type(e).__name__}: {e}', nt)
    return ctx.result()
