"""Run-time contracts on the connection-matrix layer (C09) and on the registry of connection encoders (C10),
over enumerated connector settings. Oracle: brute-force enumeration of integer matrices."""
import itertools
import zlib
import math
import random

import numpy as np

from .harness import Ctx

ALPHABET = [('list', (0,)), ('list', (1,)), ('range', 0, 1), ('range', 1, 2), ('min', 0), ('min', 1),
            ('list', (0, 2)), ('list', (2,))]
TYPES = [(d, r) for d in ALPHABET for r in (True, False)]


def mk_node(spec):
    from adsg_core.optimization.assign_enc.matrix import Node
    d, rep = spec
    if d[0] == 'list':
        return Node(list(d[1]), repeated_allowed=rep)
    if d[0] == 'range':
        return Node(min_conn=d[1], max_conn=d[2], repeated_allowed=rep)
    return Node(min_conn=d[1], repeated_allowed=rep)


def allowed(d, n):
    if d[0] == 'list':
        return n in d[1]
    if d[0] == 'range':
        return d[1] <= n <= d[2]
    return n >= d[1]


def finite_max(d):
    if d[0] == 'list':
        return max(d[1])
    if d[0] == 'range':
        return d[2]
    return None


def brute(src, tgt, excluded, src_ex, tgt_ex, par_explicit=None):
    """All valid matrices (as tuples of rows) for the statement's definition."""
    ns, nt = len(src), len(tgt)
    # limit on parallel connections: the largest finite degree among the connectors present in this pattern, at least 2
    # (an absent connector does not influence the others: the same rule as specsem.valid_matrices)
    present = [d for (d, _), e in zip(src, src_ex) if e] + [d for (d, _), e in zip(tgt, tgt_ex) if e]
    fins = [finite_max(d) for d in present if finite_max(d) is not None]
    par = max([2] + fins) if par_explicit is None else par_explicit   # an explicit limit of the settings wins
    lim = np.zeros((ns, nt), dtype=int)
    for i, (ds, rs) in enumerate(src):
        for j, (dt, rt) in enumerate(tgt):
            if (i, j) in excluded or not src_ex[i] or not tgt_ex[j]:
                lim[i, j] = 0
            elif not rs or not rt:
                lim[i, j] = 1
            else:
                m = par
                for f in (finite_max(ds), finite_max(dt)):
                    if f is not None:
                        m = min(m, f)
                lim[i, j] = m
    out = []
    for flat in itertools.product(*[range(lim[i, j] + 1) for i in range(ns) for j in range(nt)]):
        M = np.array(flat, dtype=int).reshape(ns, nt)
        ok = True
        for i in range(ns):
            s = int(M[i, :].sum())
            if src_ex[i]:
                ok = ok and allowed(src[i][0], s)
            else:
                ok = ok and s == 0
        for j in range(nt):
            s = int(M[:, j].sum())
            if tgt_ex[j]:
                ok = ok and allowed(tgt[j][0], s)
            else:
                ok = ok and s == 0
        if ok:
            out.append(tuple(map(tuple, M.tolist())))
    return out, lim


def item_par(item):
    """Explicit limit on parallel connections of a settings item (tag 'par=N' in the optional 4th element)."""
    tag = item[3] if len(item) > 3 else ''
    for part in tag.split(';'):
        if part.startswith('par='):
            return int(part[4:])
    return None


def settings_space(tier, seed):
    rng = random.Random(4242)
    out = []
    for s in TYPES:
        for t in TYPES:
            out.append(([s], [t], ()))
    n12 = 250 if tier == 'quick' else 1500
    for _ in range(n12):
        out.append(([rng.choice(TYPES)], [rng.choice(TYPES), rng.choice(TYPES)], ()))
        out.append(([rng.choice(TYPES), rng.choice(TYPES)], [rng.choice(TYPES)], ()))
    n22 = 250 if tier == 'quick' else 1500
    for k in range(n22):
        ex = ()
        if k % 3 == 1:
            ex = ((rng.randint(0, 1), rng.randint(0, 1)),)
        elif k % 3 == 2:
            ex = ((0, 0), (1, 1)) if rng.random() < 0.5 else ((0, 1),)
        out.append(([rng.choice(TYPES), rng.choice(TYPES)], [rng.choice(TYPES), rng.choice(TYPES)], ex))
    # finite degrees up to 3 (the default limit on parallel connections is the largest finite degree, at least 2):
    # gapped lists, ranges whose minimum is below their maximum
    wide = [(d, r) for d in (('list', (1, 3)), ('range', 0, 3), ('list', (3,)), ('range', 2, 3), ('list', (0, 3))) for r in (True, False)]
    for w in wide:
        for t in TYPES + wide:
            out.append(([w], [t], ()))
            out.append(([t], [w], ()))
    rw = random.Random(4343)
    for _ in range(120 if tier == 'quick' else 600):
        ns, nt = rw.choice([(1, 2), (2, 1), (2, 2)])
        nodes = [rw.choice(wide) if rw.random() < 0.5 else rw.choice(TYPES) for _ in range(ns + nt)]
        out.append((nodes[:ns], nodes[ns:], ()))
    # an explicit limit on parallel connections (1 and 3) instead of the default
    rp = random.Random(4444)
    reps = [t for t in TYPES + wide if t[1]]
    for _ in range(60 if tier == 'quick' else 300):
        ns, nt = rp.choice([(1, 1), (1, 2), (2, 1), (2, 2)])
        nodes = [rp.choice(reps) if rp.random() < 0.8 else rp.choice(TYPES) for _ in range(ns + nt)]
        out.append((nodes[:ns], nodes[ns:], (), f'par={rp.choice([1, 3])}'))
    if tier == 'thorough':
        r2 = random.Random(9000 + seed)
        for _ in range(300):
            ns, nt = r2.randint(1, 3), r2.randint(1, 3)
            ex = tuple({(r2.randrange(ns), r2.randrange(nt)) for _ in range(r2.randint(0, 2))})
            out.append(([r2.choice(TYPES) for _ in range(ns)], [r2.choice(TYPES) for _ in range(nt)], ex))
    return out


def chunk_payloads(tier, seed, size=40):
    sp = settings_space(tier, seed)
    return [sp[i:i + size] for i in range(0, len(sp), size)]


def matrix_chunk(chunk, tier, seed):
    from adsg_core.optimization.assign_enc.matrix import (MatrixGenSettings, AggregateAssignmentMatrixGenerator,
                                                           NodeExistencePatterns)
    ctx = Ctx(None)
    for item in chunk:
        src, tgt, ex = item[:3]
        par = item_par(item)
        label = f'src={src} tgt={tgt} excluded={list(ex)}' + (f' max_conn_parallel={par}' if par is not None else '')
        try:
            patterns = NodeExistencePatterns.get_all_combinations([True] * len(src), [True] * len(tgt))
            settings = MatrixGenSettings([mk_node(s) for s in src], [mk_node(t) for t in tgt],
                                         excluded=list(ex) or None, existence=patterns, max_conn_parallel=par)
            # every third setting: the FIRST thing asked of these settings (cold caches) is one existence pattern
            # only; what is asked afterwards through other generator objects must not depend on that
            filtered_first = None
            if len(patterns.patterns) > 1 and zlib.crc32(label.encode()) % 3 == 0:
                pf = patterns.patterns[zlib.crc32(label.encode()) // 3 % len(patterns.patterns)]
                filtered_first = (pf, [tuple(map(tuple, m.tolist())) for m, _ in
                                       AggregateAssignmentMatrixGenerator(settings).iter_matrices(existence=pf)])
            gen0 = AggregateAssignmentMatrixGenerator(settings)
            counted = {}
            for n_src_conn, n_tgt_conn, existence in gen0.iter_n_sources_targets():
                counted[existence] = counted.get(existence, 0) + gen0.count_matrices(n_src_conn, n_tgt_conn, existence)
            gen_ = AggregateAssignmentMatrixGenerator(settings)
            agg = gen_.get_agg_matrix(cache=False)
        except Exception as e:  # noqa
            ctx.check('C09.enumeration-total', False, [label, 'setup'], f'{type(e).__name__}: {e}', (label,))
            continue
        for existence in patterns.patterns:
            src_ex = [existence.has_src(i) for i in range(len(src))]
            tgt_ex = [existence.has_tgt(j) for j in range(len(tgt))]
            wit = [label, [src_ex, tgt_ex]]
            nt = (label, str(src_ex), str(tgt_ex))
            ref, lim = brute(src, tgt, set(ex), src_ex, tgt_ex, par)
            rows = [tuple(map(tuple, m.tolist())) for m in agg.get(existence, np.zeros((0, len(src), len(tgt))))]
            if filtered_first is not None and filtered_first[0] == existence:
                ctx.check('C09.single-pattern-query-equals-valid-set', set(filtered_first[1]) == set(ref) and len(filtered_first[1]) == len(ref),
                          wit + ['asked-first'], f'iter_matrices(existence=p) as the first query gave {len(filtered_first[1])} matrices, valid {len(ref)}', nt)
            ctx.check('C09.each-matrix-listed-once', len(set(rows)) == len(rows), wit, f'{len(rows)} rows, {len(set(rows))} distinct', nt)
            ctx.check('C09.enumerated-equals-valid-set', set(rows) == set(ref), wit,
                      f'enumerated {len(rows)}, valid {len(ref)}; missing {list(set(ref) - set(rows))[:2]} extra {list(set(rows) - set(ref))[:2]}', nt)
            ctx.check('C09.count-without-generating', counted.get(existence, 0) == len(ref), wit,
                      f'counted {counted.get(existence, 0)}, valid {len(ref)}', nt)
            # validity test on the whole box (one step beyond the limits as well)
            refset = set(ref)
            box = [range(int(lim[i, j]) + 2) for i in range(len(src)) for j in range(len(tgt))]
            n_box = 1
            for b in box:
                n_box *= len(b)
            if n_box <= 300:
                for flat in itertools.product(*box):
                    M = np.array(flat, dtype=int).reshape(len(src), len(tgt))
                    try:
                        v = bool(gen_.validate_matrix(M, existence=existence))
                    except Exception as e:  # noqa
                        ctx.check('C09.validity-test-iff-valid', False, wit + [M.tolist()], f'{type(e).__name__}: {e}', nt)
                        continue
                    ctx.check('C09.validity-test-iff-valid', v == (tuple(map(tuple, M.tolist())) in refset), wit + [M.tolist()],
                              f'validate_matrix={v}, in valid set={tuple(map(tuple, M.tolist())) in refset}', nt)
        if len(ctx.samples) < 1:
            ctx.samples.append(dict(settings=label, existence_patterns=len(patterns.patterns)))
    return ctx.result()


def lookalike_payloads(tier, seed):
    rng = random.Random(4545)
    base = [x for x in settings_space('quick', seed) if len(x[0]) + len(x[1]) >= 3 and len(x) == 3]
    picks = rng.sample(base, 40 if tier == 'quick' else 200)
    return [picks[i:i + 5] for i in range(0, len(picks), 5)]


def _variants(src, tgt, ex, rng):
    """Settings that differ from (src, tgt, ex) in exactly one respect."""
    out = []
    ns, nt = len(src), len(tgt)
    i = rng.randrange(ns + nt)
    nodes = list(src) + list(tgt)
    flipped = list(nodes)
    flipped[i] = (nodes[i][0], not nodes[i][1])
    out.append(('repeat flag of one connector', flipped[:ns], flipped[ns:], ex, None))
    other = [t for t in TYPES if t != nodes[i]]
    deg = list(nodes)
    deg[i] = rng.choice(other)
    out.append(('degrees of one connector', deg[:ns], deg[ns:], ex, None))
    pairs = [(a, b_) for a in range(ns) for b_ in range(nt)]
    if ex:
        a, b_ = ex[0]
        alt = [(a, q) for q in range(nt) if q != b_] + [(q, b_) for q in range(ns) if q != a]
        if alt:
            out.append(('another excluded pair', src, tgt, (rng.choice(alt),) + tuple(ex[1:]), None))
        out.append(('no excluded pair', src, tgt, (), None))
    else:
        out.append(('an excluded pair', src, tgt, (rng.choice(pairs),), None))
    out.append(('explicit limit on parallel connections', src, tgt, ex, rng.choice([1, 3])))
    if ns == nt and src != tgt:
        out.append(('sources and targets swapped', tgt, src, tuple((b_, a) for a, b_ in ex), None))
    return out


def lookalike_chunk(chunk, tier, seed):
    """Settings that look alike are served one after the other with the library's caches switched on (same cache
    directory): what is enumerated / counted for the later one is its own valid set."""
    from adsg_core.optimization.assign_enc.matrix import (MatrixGenSettings, AggregateAssignmentMatrixGenerator,
                                                           NodeExistencePatterns)
    ctx = Ctx(None)
    rng = random.Random(f'lookalike-{seed}-{chunk[0]}')

    def mk(src, tgt, ex, par):
        patterns = NodeExistencePatterns.get_all_combinations([True] * len(src), [True] * len(tgt))
        return patterns, MatrixGenSettings([mk_node(s) for s in src], [mk_node(t) for t in tgt], excluded=list(ex) or None,
                                           existence=patterns, max_conn_parallel=par)
    for src, tgt, ex in chunk:
        try:
            _, s0 = mk(src, tgt, ex, None)
            AggregateAssignmentMatrixGenerator(s0).get_agg_matrix(cache=True)
        except Exception:  # noqa
            continue
        for what, vs, vt, vex, vpar in _variants(src, tgt, tuple(ex), rng):
            label = f'src={vs} tgt={vt} excluded={list(vex)}' + (f' max_conn_parallel={vpar}' if vpar is not None else '')
            wit = [label, f'served after src={src} tgt={tgt} excluded={list(ex)} (differs in: {what})']
            try:
                patterns, sv = mk(vs, vt, vex, vpar)
                gen_ = AggregateAssignmentMatrixGenerator(sv)
                agg = gen_.get_agg_matrix(cache=True)
                n_all = AggregateAssignmentMatrixGenerator(sv).count_all_matrices(max_by_existence=False)
            except Exception as e:  # noqa
                ctx.check('C09.enumeration-independent-of-settings-served-before', False, wit, f'{type(e).__name__}: {e}', (label, what))
                continue
            total = 0
            for existence in patterns.patterns:
                src_ex = [existence.has_src(i) for i in range(len(vs))]
                tgt_ex = [existence.has_tgt(j) for j in range(len(vt))]
                ref, _ = brute(vs, vt, set(vex), src_ex, tgt_ex, vpar)
                total += len(ref)
                rows = {tuple(map(tuple, m.tolist())) for m in agg.get(existence, np.zeros((0, len(vs), len(vt))))}
                ctx.check('C09.enumeration-independent-of-settings-served-before', rows == set(ref), wit + [[src_ex, tgt_ex]],
                          f'enumerated {len(rows)}, valid {len(ref)}; missing {list(set(ref) - rows)[:2]} extra {list(rows - set(ref))[:2]}',
                          (label, what, str(src_ex), str(tgt_ex)))
            ctx.check('C09.count-independent-of-settings-served-before', int(n_all) == total, wit,
                      f'count_all_matrices gives {n_all}, valid matrices over all patterns {total}', (label, what, 'count'))
    return ctx.result()


# ============================================================================================ C10: encoders

def encoder_settings(tier, seed):
    rng = random.Random(5151)
    sp = []
    one = [([s], [t], ()) for s in TYPES for t in TYPES]
    sp += rng.sample(one, 30 if tier == 'quick' else 120)
    full = settings_space('quick', seed)
    rest = [x for x in full if len(x[0]) + len(x[1]) > 2]
    sp += rng.sample(rest, 45 if tier == 'quick' else 300)
    # many valid matrices for one pattern (all nodes present only): encoders whose variables depend on the matrix count
    one_ = (('list', (1,)), False)
    opt_ = (('range', 0, 1), False)
    any_ = (('min', 0), False)
    for n in (range(3, 14) if tier == 'quick' else range(3, 18)):
        sp.append(([one_], [opt_] * n, (), 'present-only'))
    wide = [([any_], [opt_] * 3, ()), ([opt_, opt_], [opt_] * 3, ()), ([any_, any_], [opt_, opt_], ()),
            ([(('range', 0, 2), True)], [(('range', 0, 2), True)] * 2, ()), ([one_, one_], [any_] * 3, ()),
            ([one_, one_, one_], [any_, any_], ()), ([any_, opt_], [opt_, opt_, opt_], ((0, 0),))]
    # three nodes on one side with every existence pattern (conditional nodes): the shapes pattern encoders match,
    # also through their transposed settings
    two_ = (('list', (2,)), False)
    cond3 = [([one_] * 3, [any_] * 2, ()), ([any_] * 2, [one_] * 3, ()), ([one_], [opt_] * 3, ()), ([opt_] * 3, [one_], ()),
             ([two_], [opt_] * 3, ()), ([any_], [opt_] * 3, ())]
    for w in (cond3[:4] if tier == 'quick' else cond3):
        sp.append(w + ('all-patterns',))
    # partitioning / down-selecting shapes whose sources need a minimum number of connections (corrections that take
    # a target away from a source with spare connections), three and four nodes a side
    min1_, min2_ = (('min', 1), False), (('min', 2), False)
    part = [([min1_] * 3, [opt_] * 3, ()), ([min1_] * 3, [one_] * 3, ()), ([min2_] * 2, [opt_] * 4, ()), ([min1_] * 4, [one_] * 4, ())]
    for w in (part if tier == 'thorough' else part[:3]):
        sp.append(w + ('present-only',))
    # a source that needs more connections than one edge can carry (minimum 2 or 3, no parallel connections): every
    # repair has to spread the connections over several targets
    min3_ = (('min', 3), False)
    for w in (([min2_], [any_] * 3, ()), ([min2_, min1_], [any_] * 3, ()), ([min3_], [any_] * 3, ()), ([min2_], [opt_] * 3, ())):
        sp.append(w + ('present-only',))
    for w in (wide if tier == 'quick' else wide + [([any_], [opt_] * 4, ()), ([any_, any_], [opt_] * 3, ()), ([any_, any_], [any_, opt_], ())]):
        sp.append(w + ('present-only',))
    # repeatable connections with an explicit limit on parallel connections (1 and 3), in both orientations (pattern
    # encoders match some of these only through their transposed settings)
    anyr, min2r, opt2r = (('min', 0), True), (('min', 2), True), (('range', 0, 2), True)
    for a, b_ in (([anyr], [min2r]), ([min2r], [anyr]), ([anyr], [anyr, anyr]), ([anyr, anyr], [anyr]), ([anyr], [min2r, min2r]),
                  ([min2r, min2r], [anyr]), ([opt2r], [anyr, anyr]), ([anyr, anyr], [opt2r])):
        for par in (1, 3):
            sp.append((a, b_, (), f'present-only;par={par}'))
    return sp


def factories():
    from adsg_core.optimization.assign_enc import encoder_registry as R
    from adsg_core.optimization.assign_enc.eager.imputation import FirstImputer, AutoModImputer, DeltaImputer, ClosestImputer
    from adsg_core.optimization.assign_enc.lazy.imputation import LazyFirstImputer, LazyDeltaImputer, LazyClosestImputer
    eager_imp = [('AutoMod', AutoModImputer), ('First', FirstImputer), ('Delta', DeltaImputer), ('Closest', ClosestImputer)]
    lazy_imp = [('LazyDelta', LazyDeltaImputer), ('LazyFirst', LazyFirstImputer), ('LazyClosest', LazyClosestImputer)]
    out = []
    for i, f in enumerate(R.EAGER_ENCODERS):
        for n, imp in eager_imp:
            out.append((f'EAGER[{i}]/{n}', f, imp, 'eager'))
    for i, f in enumerate(R.EAGER_ENUM_ENCODERS):
        for n, imp in lazy_imp[:2]:
            out.append((f'ENUM[{i}]/{n}', f, imp, 'lazy'))
    for i, f in enumerate(R.LAZY_ENCODERS):
        for n, imp in lazy_imp:
            out.append((f'LAZY[{i}]/{n}', f, imp, 'lazy'))
    for i, f in enumerate(R.PATTERN_ENCODERS):
        out.append((f'PATTERN[{i}]/LazyDelta', f, LazyDeltaImputer, 'lazy'))
    return out


def encoder_chunk(chunk, tier, seed):
    from adsg_core.optimization.assign_enc.matrix import MatrixGenSettings, NodeExistencePatterns
    from adsg_core.optimization.assign_enc.assignment_manager import AssignmentManager, LazyAssignmentManager
    from adsg_core.optimization.assign_enc.patterns.encoder import InvalidPatternEncoder
    from adsg_core.optimization.assign_enc.encoding import Encoder
    ctx = Ctx(None)
    facs = factories()
    for item in chunk:
        src, tgt, ex = item[:3]
        label = f'src={src} tgt={tgt} excluded={list(ex)}'
        par = item_par(item)
        if par is not None:
            label += f' max_conn_parallel={par}'
        if len(item) > 3 and 'present-only' in item[3]:
            patterns = NodeExistencePatterns.always_exists()
            label += ' (all nodes present)'
        else:
            patterns = NodeExistencePatterns.get_all_combinations([True] * len(src), [True] * len(tgt))

        def mk_settings():
            return MatrixGenSettings([mk_node(s) for s in src], [mk_node(t) for t in tgt],
                                     excluded=list(ex) or None, existence=patterns, max_conn_parallel=par)
        valid = {}
        for existence in patterns.patterns:
            src_ex = [existence.has_src(i) for i in range(len(src))]
            tgt_ex = [existence.has_tgt(j) for j in range(len(tgt))]
            valid[existence] = set(brute(src, tgt, set(ex), src_ex, tgt_ex, par)[0])
        if sum(len(v) for v in valid.values()) == 0:
            continue
        for fname, fac, imp, kind in facs:
            # class of a failing situation: encoder factory / imputer and the shape of the connection problem
            fshape = f'{fname}|{len(src)}x{len(tgt)}'
            wit0 = [fshape, label, 'setup']
            try:
                enc = fac(imp())
                from adsg_core.optimization.assign_enc.lazy_encoding import LazyEncoder
                mgr = (LazyAssignmentManager if isinstance(enc, LazyEncoder) else AssignmentManager)(mk_settings(), enc)
                dvs = list(mgr.design_vars or [])
            except InvalidPatternEncoder:
                continue   # a pattern encoder that rejects the settings is skipped by the selection
            except Exception as e:  # noqa
                ctx.check('C10.set-settings-total', False, wit0, f'{type(e).__name__}: {e}', (fname, label))
                continue
            n_space = 1
            for dv in dvs:
                n_space *= dv.n_opts + 2
            if n_space > 4000:
                continue
            used = [set() for _ in dvs]
            try:
                all_dv = mgr.get_all_design_vectors()
            except Exception as e:  # noqa
                all_dv = None
                ctx.check('C10.all-design-vectors-total', False, wit0, f'{type(e).__name__}: {e}', (fname, label))
            for existence in patterns.patterns:
                if not valid[existence]:
                    continue
                src_ex = [existence.has_src(i) for i in range(len(src))]
                tgt_ex = [existence.has_tgt(j) for j in range(len(tgt))]
                wclass = fshape
                nt = (fname, label, str(src_ex), str(tgt_ex))
                reached = set()
                vec2mat = {}
                corrected = set()
                vectors = [list(v) for v in itertools.product(*[range(-1, dv.n_opts + 1) for dv in dvs])]
                vectors.append([0] * (len(dvs) + 2))
                for v in vectors:
                    wit = [wclass, label, [src_ex, tgt_ex], v]
                    try:
                        xi, act, M = mgr.get_matrix(list(v), existence=existence)
                    except Exception as e:  # noqa
                        ctx.check('C10.decode-total', False, wit, f'{type(e).__name__}: {e}', nt)
                        continue
                    xi = [int(a) for a in xi]
                    act = [bool(a) for a in act]
                    Mt = tuple(map(tuple, np.array(M).tolist()))
                    ctx.check('C10.decoded-matrix-valid', Mt in valid[existence], wit,
                              f'decoded {Mt} is not a valid matrix of the pattern', nt)
                    n = len(dvs)
                    ctx.check('C10.corrected-in-range', len(xi) >= n and all(0 <= xi[k] < dvs[k].n_opts for k in range(n)),
                              wit, f'corrected {xi} for n_opts {[d.n_opts for d in dvs]}', nt)
                    ctx.check('C10.extra-entries-inactive', all(not a for a in act[n:]) and all(x == 0 for x in xi[n:]), wit,
                              f'entries beyond the declared variables: {xi[n:]} active {act[n:]}', nt)
                    key = tuple(xi[:n])
                    try:
                        xi2, act2, M2 = mgr.get_matrix(list(xi[:n]), existence=existence)
                        ctx.check('C10.fixed-point', [int(a) for a in xi2][:n] == xi[:n] and
                                  tuple(map(tuple, np.array(M2).tolist())) == Mt and [bool(a) for a in act2][:n] == act[:n], wit,
                                  f'decode(corrected {xi[:n]}, active {act[:n]}) gives {[int(a) for a in xi2]} active '
                                  f'{[bool(a) for a in act2]} matrix equal: {tuple(map(tuple, np.array(M2).tolist())) == Mt}', nt)
                    except Exception as e:  # noqa
                        ctx.check('C10.fixed-point', False, wit, f're-decode raised {type(e).__name__}: {e}', nt)
                    if key in vec2mat:
                        ctx.check('C10.equal-vectors-equal-matrices', vec2mat[key] == Mt, wit,
                                  f'corrected vector {key} denotes {vec2mat[key]} and {Mt}', nt)
                    vec2mat[key] = Mt
                    reached.add(Mt)
                    corrected.add(tuple(-1 if not act[k] else xi[k] for k in range(n)))
                    for k in range(n):
                        if act[k]:
                            used[k].add(xi[k])
                ctx.check('C10.onto', reached == valid[existence], [wclass, label, [src_ex, tgt_ex], 'all-vectors'],
                          f'{len(reached)} matrices reached, {len(valid[existence])} valid; unreachable '
                          f'{list(valid[existence] - reached)[:2]}', nt)
                if all_dv is not None and existence in all_dv:
                    listed = set(tuple(int(a) for a in row[:len(dvs)]) for row in np.array(all_dv[existence]).tolist())
                    ctx.check('C10.listed-design-vectors-are-the-corrected-vectors', listed == corrected,
                              [wclass, label, [src_ex, tgt_ex], 'all-design-vectors'],
                              f'listed {sorted(listed)[:5]} ({len(listed)}), corrected {sorted(corrected)[:5]} ({len(corrected)})', nt)
            for k, u in enumerate(used):
                if max(len(v) for v in valid.values()) < 2:
                    break   # settings with at most one connection set per pattern: no variable is needed (C12's clause)
                ctx.check('C10.every-variable-has-two-used-values', len(u) >= 2, [fshape, label, 'used-values', k],
                          f'variable {k} ({dvs[k].n_opts} options) only takes {sorted(u)}', (fname, label, 'used', k))
        if len(ctx.samples) < 1:
            ctx.samples.append(dict(settings=label, encoders=len(facs)))
    return ctx.result()
