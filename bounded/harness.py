"""Bounded layer harness: runs a per-Desc contract checker over a corpus on a process pool and aggregates.

Everything here is *bounded* evidence (enumerated inputs, contracts evaluated at run time on the real code);
it is reported separately from the deductive obligations and never counted as proved."""
import hashlib
import json
import os
import sys
import time
import traceback
from concurrent.futures import ProcessPoolExecutor

HERE = os.path.dirname(os.path.dirname(os.path.abspath(__file__)))


def digest(obj):
    return hashlib.sha256(json.dumps(obj, sort_keys=True, default=str).encode()).hexdigest()[:12]


class Ctx:
    """Collects contract evaluations / violations for one corpus member."""

    def __init__(self, desc):
        self.desc = desc
        self.evals = 0
        self.nontrivial = set()
        self.violations = []
        self.samples = []
        self.counts = {}

    def check(self, clause, ok, witness=None, detail='', nontrivial_key=None, wclass=None):
        self.evals += 1
        self.counts[clause] = self.counts.get(clause, 0) + 1
        if nontrivial_key is not None:
            self.nontrivial.add(str(nontrivial_key))
        if not ok:
            wid = digest([self.desc.to_json() if self.desc is not None else None, clause, witness])
            # witness class: corpus member | encoder, unless the caller names the failing situation itself
            wclass = wclass or f'{self.desc.label if self.desc is not None else ""}|{witness[0] if isinstance(witness, (list, tuple)) and witness else ""}'
            per_class = sum(1 for v in self.violations if v['clause'] == clause and v['witness_class'] == wclass)
            # at most 3 witnesses are kept per (clause, witness class); classes themselves are never dropped
            if not any(v['witness_id'] == wid for v in self.violations) and per_class < 3:
                self.violations.append(dict(clause=clause, witness_id=wid, witness_class=wclass, witness=witness,
                                            detail=str(detail)[:1500],
                                            desc=self.desc.to_json() if self.desc is not None else None,
                                            label=self.desc.label if self.desc is not None else None))
        return ok

    def result(self):
        return dict(evals=self.evals, nontrivial=sorted(self.nontrivial), violations=self.violations,
                    samples=self.samples[:3], counts=self.counts)


def _run_one(args):
    modname, funcname, payload, tier, seed = args
    import importlib
    import tempfile
    import shutil
    tmp = tempfile.mkdtemp(prefix='verif_b_', dir=os.environ.get('VERIF_TMP') or None)
    os.environ['XDG_CACHE_HOME'] = tmp
    try:
        mod = importlib.import_module(modname)
        return getattr(mod, funcname)(payload, tier, seed)
    except Exception as e:
        return dict(evals=0, nontrivial=[], violations=[], samples=[], counts={},
                    crash=f'{type(e).__name__}: {e}\n{traceback.format_exc()[-2500:]}',
                    label=getattr(payload, 'label', str(payload)[:80]))
    finally:
        shutil.rmtree(tmp, ignore_errors=True)


def run_pool(modname, funcname, payloads, tier, seed, jobs=16):
    t0 = time.time()
    results = []
    if not payloads:
        return results
    with ProcessPoolExecutor(max_workers=min(jobs, len(payloads))) as ex:
        results = list(ex.map(_run_one, [(modname, funcname, p, tier, seed) for p in payloads], chunksize=1))
    return results


def aggregate(results, rule, bound, assumptions=(), exhaustive=True):
    evals = sum(r['evals'] for r in results)
    nontrivial = set()
    for r in results:
        nontrivial.update(r['nontrivial'])
    viol = []
    samples = []
    counts = {}
    crashes = []
    for r in results:
        viol += r['violations']
        samples += r['samples'][:1]
        for k, v in r['counts'].items():
            counts[k] = counts.get(k, 0) + v
        if r.get('crash'):
            crashes.append(f'{r.get("label")}: {r["crash"]}')
    if crashes:
        raise RuntimeError('bounded worker crashed: ' + crashes[0])
    return dict(evaluations=evals, distinct_nontrivial=len(nontrivial), rule=rule, bound=bound,
                samples=samples[:6], violations=viol, contract_evaluations=counts, members=len(results),
                assumptions=list(assumptions), exhaustive=exhaustive)


def all_vectors(des_vars, cap=4096, rng=None):
    """Every vector of the declared discrete space (continuous variables at three representative values), or `cap`
    seeded samples when larger."""
    import itertools
    axes = []
    for dv in des_vars:
        if dv.is_discrete:
            axes.append(list(range(dv.n_opts)))
        else:
            lo, hi = dv.bounds
            axes.append([lo, (lo + hi) / 2, hi])
    n = 1
    for a in axes:
        n *= len(a)
    if n <= cap:
        return [list(x) for x in itertools.product(*axes)], True
    import random
    rng = rng or random.Random(0)
    return [[rng.choice(a) for a in axes] for _ in range(cap)], False
