"""Named corpora of the bounded layer (DESIGN.md Appendix C)."""
from . import gen


def corpus(names, tier):
    out = []
    for n in names:
        out += getattr(gen, 'family_' + n)(tier)
    return out


BOUND_TEXT = {
    'sel': 'SEL: selection-only templates (single/independent/nested/shared-activation/diamond/cycles/two start nodes/floating parts/theory example; thorough: +200 seeded layered random graphs)',
    'inc': 'INC: 4 base graphs x 0-3 incompatibility pairs on option/derived/permanent nodes',
    'con': 'CON: constraint type x 2-3 choices x 2-3(4) options, all-permanent and hierarchical placements',
    'conn': 'CONN: 1-2 sources x 1-2 targets over 8 degree specs x repeat flag, conditional connectors, exclusions, grouping node with a conditional member',
    'conn2': 'CONN2: two connection choices active together (permanent; infeasible existence pattern in the first / last; second one conditional)',
    'forced': 'FORCED: choices without a design variable (LINKED members, forced by incompatibilities) before free/conditional choices',
    'conx': 'CONX: constrained choices mutually exclusive or with the first constrained choice inactive while later ones are active, 4 constraint types',
    'conpart': 'CONPART: 4 choices of which 2 are constrained (LINKED / UNORDERED), 2 free',
    'mix': 'MIX: 14 seeded random graphs combining 3-5 selection choices nested up to three levels, shared derived nodes, 0-2 incompatibility pairs, an optional choice constraint, design-variable / metric nodes and an optional connection choice below random nodes',
    'dvmet': 'DV/MET: continuous/discrete design-variable nodes and metric nodes (dir x ref x type) under permanent and conditional nodes',
}


def bound_text(names, extra=''):
    return '; '.join(BOUND_TEXT[n] for n in names) + '; every vector of the declared design space (<=1024 quick / 4096 thorough, else seeded samples)' + extra
