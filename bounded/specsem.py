"""Reference semantics of design space graphs (ghost spec functions of the bounded layer).

Pure Python over names; imports nothing from adsg_core. Written from docs/theory.md and the property statements
(see DESIGN.md Appendix B).
"""
import itertools
from collections import namedtuple

Choice = namedtuple('Choice', 'cid origin options')
Conn = namedtuple('Conn', 'name deg rep parent')           # deg: ('list', (..)) | ('range', lo, hi) | ('min', lo)
Group = namedtuple('Group', 'name members')                 # grouping node over member connector names
ConnChoice = namedtuple('ConnChoice', 'cid srcs tgts exclude')   # srcs/tgts: connector or group names
DV = namedtuple('DV', 'name parent bounds options')
Metric = namedtuple('Metric', 'name parent dir ref type')


class Desc:
    def __init__(self, nodes, edges, start, choices=(), incompat=(), constraints=(), conns=(), groups=(),
                 conn_choices=(), dvs=(), metrics=(), label='', choices_first=False):
        self.choices_first = choices_first   # build order only: choice nodes are added before the derivation edges
        self.nodes = list(nodes)
        self.edges = list(edges)
        self.start = list(start)
        self.choices = [Choice(*c) for c in choices]
        self.incompat = [tuple(p) for p in incompat]
        self.constraints = [(t, list(cs)) for t, cs in constraints]
        self.conns = [Conn(*c) for c in conns]
        self.groups = [Group(*g) for g in groups]
        self.conn_choices = [ConnChoice(*c) for c in conn_choices]
        self.dvs = [DV(*d) for d in dvs]
        self.metrics = [Metric(*m) for m in metrics]
        self.label = label

    def to_json(self):
        return dict(label=self.label, nodes=self.nodes, edges=self.edges, start=self.start,
                    choices=[list(c) for c in self.choices], incompat=self.incompat, constraints=self.constraints,
                    conns=[list(c) for c in self.conns], groups=[list(g) for g in self.groups],
                    conn_choices=[list(c) for c in self.conn_choices], dvs=[list(d) for d in self.dvs],
                    metrics=[list(m) for m in self.metrics])

    # all derivation-like edges between element nodes (connector / dv / metric nodes hang below their parent;
    # grouping nodes are derived by their members)
    def all_edges(self):
        e = list(self.edges)
        e += [(c.parent, c.name) for c in self.conns if c.parent is not None]
        for g in self.groups:
            e += [(m, g.name) for m in g.members]
        e += [(d.parent, d.name) for d in self.dvs if d.parent is not None]
        e += [(m.parent, m.name) for m in self.metrics if m.parent is not None]
        return e

    def choice(self, cid):
        for c in self.choices:
            if c.cid == cid:
                return c
        raise KeyError(cid)


def closure(desc, assignment):
    """Least node set containing the start nodes, closed under derivation edges and origin -> assigned option."""
    succ = {}
    for u, v in desc.all_edges():
        succ.setdefault(u, []).append(v)
    by_origin = {}
    for c in desc.choices:
        by_origin.setdefault(c.origin, []).append(c)
    seen = set()
    todo = list(desc.start)
    while todo:
        n = todo.pop()
        if n in seen:
            continue
        seen.add(n)
        todo += succ.get(n, [])
        for c in by_origin.get(n, []):
            if c.cid in assignment:
                todo.append(assignment[c.cid])
    return frozenset(seen)


def active_choices(desc, nodes):
    return [c for c in desc.choices if c.origin in nodes]


def assignments(desc):
    """All assignments defined exactly on the choices active in their own closure, built level by level
    (cyclic self-activation is therefore excluded). Zero-option active choices make the branch infeasible."""
    out = []

    def rec(a):
        nodes = closure(desc, a)
        pending = [c for c in active_choices(desc, nodes) if c.cid not in a]
        if not pending:
            out.append(dict(a))
            return
        c = pending[0]
        for o in c.options:
            a2 = dict(a)
            a2[c.cid] = o
            rec(a2)
    rec({})
    # different orders give the same assignment: dedupe
    uniq = {}
    for a in out:
        uniq[frozenset(a.items())] = a
    return list(uniq.values())


def constraint_ok(desc, a):
    for ctype, cids in desc.constraints:
        idx = [(desc.choice(cid).options.index(a[cid])) for cid in cids if cid in a]   # DV names are never in `a`
        if len(idx) < 2:
            continue
        if ctype == 'LINKED' and len(set(idx)) != 1:
            return False
        if ctype == 'PERMUTATION' and len(set(idx)) != len(idx):
            return False
        if ctype == 'UNORDERED' and any(x > y for x, y in zip(idx, idx[1:])):
            return False
        if ctype == 'UNORDERED_NOREPL' and any(x >= y for x, y in zip(idx, idx[1:])):
            return False
    return True


def conflict_free(desc, nodes):
    return not any(a in nodes and b in nodes for a, b in desc.incompat)


def admissible_assignments(desc):
    res = []
    for a in assignments(desc):
        nodes = closure(desc, a)
        if conflict_free(desc, nodes) and constraint_ok(desc, a):
            res.append(a)
    return res


# ------------------------------------------------------------------------------------------- connections

def allowed(deg, n, cap):
    if deg[0] == 'list':
        return n in deg[1]
    if deg[0] == 'range':
        return deg[1] <= n <= deg[2]
    return n >= deg[1]


def finite_max(deg):
    if deg[0] == 'list':
        return max(deg[1])
    if deg[0] == 'range':
        return deg[2]
    return None


def eff_connector(desc, name, nodes):
    """(allowed-predicate, repeated flag, finite max or None) of a connector or grouping node among present nodes."""
    for c in desc.conns:
        if c.name == name:
            return (lambda n, c=c: allowed(c.deg, n, None)), c.rep, finite_max(c.deg)
    for g in desc.groups:
        if g.name == name:
            members = [c for c in desc.conns if c.name in g.members and c.name in nodes]
            rep = any(m.rep for m in members)
            fm = [finite_max(m.deg) for m in members]
            fmax = None if any(f is None for f in fm) else sum(fm)

            def ok(n, members=members):
                # sumset of the present members' allowed sets
                def rec(i, rest):
                    if i == len(members):
                        return rest == 0
                    m = members[i]
                    return any(allowed(m.deg, d, None) and rec(i + 1, rest - d) for d in range(0, rest + 1))
                return rec(0, n)
            return ok, rep, fmax
    raise KeyError(name)


def valid_matrices(desc, cc, nodes):
    """All connection matrices (as sorted tuples of (src, tgt) pairs with multiplicity) valid for the connectors of
    connection choice `cc` present in `nodes`."""
    srcs = [s for s in cc.srcs if s in nodes]
    tgts = [t for t in cc.tgts if t in nodes]
    info = {n: eff_connector(desc, n, nodes) for n in srcs + tgts}
    fins = [info[n][2] for n in srcs + tgts if info[n][2] is not None]
    par = max([2] + fins)
    lim = {}
    for s in srcs:
        for t in tgts:
            if (s, t) in cc.exclude:
                lim[s, t] = 0
            elif not info[s][1] or not info[t][1]:
                lim[s, t] = 1
            else:
                m = par
                for f in (info[s][2], info[t][2]):
                    if f is not None:
                        m = min(m, f)
                lim[s, t] = m
    pairs = [(s, t) for s in srcs for t in tgts]
    res = []
    for counts in itertools.product(*[range(lim[p] + 1) for p in pairs]):
        m = dict(zip(pairs, counts))
        if all(info[s][0](sum(m[s, t] for t in tgts)) for s in srcs) and \
                all(info[t][0](sum(m[s, t] for s in srcs)) for t in tgts):
            res.append(tuple(sorted(p for p in pairs for _ in range(m[p]))))
    return res


def architectures(desc, with_dv=False):
    """Set of architectures: (frozenset(nodes), frozenset(assignment items), tuple of per-connection-choice edge
    tuples). Discrete DV values are handled by the callers that need them."""
    out = []
    for a in admissible_assignments(desc):
        nodes = closure(desc, a)
        per_cc = []
        ok = True
        for cc in desc.conn_choices:
            present = any(s in nodes for s in cc.srcs) or any(t in nodes for t in cc.tgts)
            if not present:
                per_cc.append([()])
                continue
            ms = valid_matrices(desc, cc, nodes)
            if not ms:
                ok = False
                break
            per_cc.append(ms)
        if not ok:
            continue
        for combo in itertools.product(*per_cc):
            out.append((nodes, frozenset(a.items()), tuple(combo)))
    return out
