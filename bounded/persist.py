"""Run-time contracts for C08 (graphs are persistent values) and C11 (connection sets per existence scenario)."""
import itertools

from . import gen, specsem
from .harness import Ctx
from .decode import make_processor


def observe_all(b, dsg, feasible_first=False):
    """Everything an existing graph object reports (through its public API), in names. Connector grouping nodes are
    shared between graphs and refreshed by some calls: the order of the queries decides which stale value would be
    seen, so every graph is observed in two orders (connection sets first / feasibility first)."""
    from adsg_core.graph.adsg_nodes import SelectionChoiceNode, ConnectionChoiceNode
    nodes, choices, conn, der = b.observe(dsg)
    out = dict(nodes=nodes, choices=choices, conn=conn, der=der)
    if feasible_first:
        try:
            out['feasible_first'] = bool(dsg.feasible)
        except Exception as e:  # noqa
            out['feasible_first'] = f'raise {type(e).__name__}'
        try:
            out['unconnected_first'] = tuple(sorted(b.name_of.get(n, '?') for n in dsg.unconnected_connectors))
        except Exception as e:  # noqa
            out['unconnected_first'] = f'raise {type(e).__name__}'
    # valid connection sets of every connection choice in the graph -- queried first, before any other call that
    # might refresh shared connector state
    cs = []
    for cn in sorted((n for n in dsg.choice_nodes if isinstance(n, ConnectionChoiceNode)), key=lambda n: str(n.decision_id)):
        try:
            sets = sorted(tuple(sorted((b.name_of.get(s), b.name_of.get(t)) for s, t in edges))
                          for edges in dsg.iter_possible_connection_edges(cn))
            cs.append((str(cn.decision_id), tuple(sets), dsg.n_options(cn)))
        except Exception as e:  # noqa
            cs.append((str(cn.decision_id), 'raise', type(e).__name__))
    out['connection_sets'] = tuple(cs)
    try:
        out['feasible'] = bool(dsg.feasible)
    except Exception as e:  # noqa
        out['feasible'] = f'raise {type(e).__name__}'
    out['final'] = bool(dsg.final)
    nxt = []
    try:
        for cn in dsg.get_ordered_next_choice_nodes():
            if isinstance(cn, SelectionChoiceNode):
                nxt.append((str(cn.decision_id), tuple(b.name_of.get(o) for o in dsg.get_option_nodes(cn))))
            elif isinstance(cn, ConnectionChoiceNode):
                sets = []
                for edges in dsg.iter_possible_connection_edges(cn):
                    sets.append(tuple(sorted((b.name_of.get(s), b.name_of.get(t)) for s, t in edges)))
                nxt.append((str(cn.decision_id), tuple(sorted(sets))))
    except Exception as e:  # noqa
        nxt.append(('raise', type(e).__name__, str(e)[:80]))
    out['next'] = tuple(nxt)
    try:
        out['unconnected'] = tuple(sorted(b.name_of.get(n, '?') for n in dsg.unconnected_connectors))
    except Exception as e:  # noqa
        out['unconnected'] = f'raise {type(e).__name__}'
    try:
        out['constraints'] = tuple((c.type.name, tuple(str(n) for n in c.nodes)) for c in dsg.get_choice_constraints())
    except Exception as e:  # noqa
        out['constraints'] = f'raise {type(e).__name__}'
    out['dv_values'] = tuple(sorted((b.name_of.get(k, '?'), v) for k, v in dsg.des_var_values.items()))
    out['metric_values'] = tuple(sorted((b.name_of.get(k, '?'), v) for k, v in dsg.metric_values.items()))
    return out


def persist_member(desc, tier, seed):
    from adsg_core.graph.adsg_nodes import SelectionChoiceNode, ConnectionChoiceNode
    from adsg_core.graph.choice_constraints import ChoiceConstraintType
    ctx = Ctx(desc)
    try:
        b = gen.Built(desc)
    except Exception:
        return ctx.result()
    live = [('base', b.dsg)]

    def snap(g):
        a = observe_all(b, g)
        a.update(observe_all(b, g, feasible_first=True))
        return a
    snaps = {'base': snap(b.dsg)}

    def recheck(op):
        # pass 1: connection sets first; pass 2 (reverse order, so that the shared state was last refreshed by another
        # graph): feasibility first
        for first, seq in ((False, live), (True, list(reversed(live)))):
            for name, g in seq:
                now = observe_all(b, g, feasible_first=first)
                was = snaps[name]
                diff = [k for k in now if was.get(k) != now[k]]
                ctx.check('C08.existing-graph-unchanged', not diff, ['graph-api', op, name],
                          f'after {op} the live graph {name!r} reports different {diff}: '
                          f'{[(k, was.get(k), now[k]) for k in diff][:2]}', (desc.label, op, name, first))

    def derive(name, g, depth):
        if depth > (2 if tier == 'quick' else 3):
            return
        try:
            infeasible = not g.feasible
        except Exception:
            return
        # copy
        c = g.copy()
        add(f'{name}.copy', c, f'copy({name})')
        for cn in list(g.get_ordered_next_choice_nodes()):
            if cn not in g.graph.nodes:
                continue     # a graph reported infeasible can still list choices that it has already lost
            if isinstance(cn, SelectionChoiceNode):
                for o in g.get_option_nodes(cn):
                    op = f'{name}.sel({cn.decision_id}={b.name_of.get(o)})'
                    try:
                        d = g.get_for_apply_selection_choice(cn, o)
                    except Exception as e:  # noqa
                        continue
                    add(op, d, op)
                    derive(op, d, depth + 1)
            elif isinstance(cn, ConnectionChoiceNode):
                sets = list(g.iter_possible_connection_edges(cn))[:3]
                recheck(f'{name}.iter_conn({cn.decision_id})')
                for i, edges in enumerate(sets):
                    op = f'{name}.conn({cn.decision_id}#{i})'
                    try:
                        d = g.get_for_apply_connection_choice(cn, edges)
                    except Exception:
                        continue
                    add(op, d, op)
                    derive(op, d, depth + 1)
        # constrain choices on a copy
        sel = [cn for cn in g.choice_nodes if isinstance(cn, SelectionChoiceNode)]
        free = [cn for cn in sel if g.is_constrained_choice(cn) is None]
        if len(free) >= 2 and depth == 0:
            # every constraint type, over two and over all free choices (more choices than options empties every option
            # list up front for PERMUTATION / UNORDERED_NOREPL: choices without options are then resolved on the copy)
            for ctype in (ChoiceConstraintType.LINKED, ChoiceConstraintType.PERMUTATION, ChoiceConstraintType.UNORDERED,
                          ChoiceConstraintType.UNORDERED_NOREPL):
                for k in sorted({2, len(free)}):
                    try:
                        d = g.copy().constrain_choices(ctype, free[:k])
                        add(f'{name}.constrain({ctype.name},{k})', d, f'constrain({name},{ctype.name},{k})')
                    except Exception:
                        recheck(f'constrain({name},{ctype.name},{k}) raised')

    def add(name, g, op):
        if len(live) > 90:
            return
        snaps[name] = snap(g)
        recheck(op)
        live.append((name, g))

    derive('base', b.dsg, 0)
    # graphs that already hold stored values: values stored on a graph derived from them must not show up in them
    dvn = list(b.dsg.des_var_nodes)
    mets = list(b.dsg.metric_nodes)
    valued = None
    if dvn or mets:
        def store(g, k):
            for n in g.des_var_nodes:
                g.set_des_var_value(n, k if n.is_discrete else n.bounds[0] + (n.bounds[1] - n.bounds[0]) * (0.25 * (k + 1)))
            for m in g.metric_nodes:
                g.set_metric_value(m, 1.5 + k)
        try:
            valued = b.dsg.copy()
            store(valued, 0)
            add('base.valued', valued, 'copy(base)+store values')
            c2 = valued.copy()
            add('base.valued.copy', c2, 'copy(base.valued)')
            store(c2, 1)
            snaps['base.valued.copy'] = snap(c2)      # its own values were changed on purpose
            recheck('store values on base.valued.copy')
            for cn in list(valued.get_ordered_next_choice_nodes())[:1]:
                if isinstance(cn, SelectionChoiceNode):
                    for o in valued.get_option_nodes(cn)[:2]:
                        d = valued.get_for_apply_selection_choice(cn, o)
                        nm = f'base.valued.sel({cn.decision_id}={b.name_of.get(o)})'
                        add(nm, d, nm)
                        store(d, 2)
                        snaps[nm] = snap(d)
                        recheck(f'store values on {nm}')
        except Exception as e:  # noqa
            ctx.check('C08.stored-values-api-total', False, ['graph-api', 'store-values'], f'{type(e).__name__}: {e}',
                      (desc.label, 'store-values'))
    # decoding further instances from a processor built on the base graph (and on the graph holding stored values)
    for enc, root in (('COMPLETE', b.dsg),) + ((('COMPLETE', valued),) if valued is not None else ()):
        try:
            from adsg_core.optimization.graph_processor import GraphProcessor
            from adsg_core.optimization.hierarchy import SelChoiceEncoderType
            gp = GraphProcessor(root, encoder_type=getattr(SelChoiceEncoderType, enc))
            from .harness import all_vectors
            X, _ = all_vectors(gp.des_vars, cap=24)
            insts = []
            for x in X:
                inst, xi, ai = gp.get_graph(list(x))
                insts.append(inst)
                for m in inst.metric_nodes:
                    inst.set_metric_value(m, 7.0)
            recheck(f'decode-all({enc})')
        except Exception:
            pass
    ctx.samples.append(dict(desc=desc.label, live_graphs=len(live)))
    return ctx.result()


def conn_member(desc, tier, seed):
    """C11: for every selection scenario, the connection sets offered on the resolved graph are exactly the valid
    ones for the connectors present; infeasible scenarios are excluded from the valid designs; applying a set yields
    precisely those edges."""
    from adsg_core.graph.adsg_nodes import SelectionChoiceNode, ConnectionChoiceNode
    ctx = Ctx(desc)
    try:
        b = gen.Built(desc)
    except Exception:
        return ctx.result()
    adm = specsem.admissible_assignments(desc)

    def resolve(g, a):
        while True:
            nxt = [cn for cn in g.get_ordered_next_choice_nodes() if isinstance(cn, SelectionChoiceNode)]
            if not nxt:
                return g
            cn = nxt[0]
            g = g.get_for_apply_selection_choice(cn, b.node[a[str(cn.decision_id)]])

    resolved = []
    for a in adm:
        nodes = specsem.closure(desc, a)
        wit = ['graph-api', sorted(a.items())]
        nt = (desc.label, tuple(sorted(a.items())))
        try:
            g = resolve(b.dsg, a)
        except Exception as e:  # noqa
            ctx.check('C11.scenario-resolves', False, wit, f'{type(e).__name__}: {e}', nt)
            continue
        resolved.append((a, g, nodes))
        for cc in desc.conn_choices:
            cn = b.conn_choice[cc.cid]
            present = cn in g.graph.nodes
            ref = sorted(set(specsem.valid_matrices(desc, cc, nodes))) if any(s in nodes for s in cc.srcs) else None
            if not present:
                continue
            if ref is None:
                continue
            try:
                offered = sorted(tuple(sorted((b.name_of.get(s), b.name_of.get(t)) for s, t in edges))
                                 for edges in g.iter_possible_connection_edges(cn))
            except Exception as e:  # noqa
                ctx.check('C11.offered-sets-are-the-valid-ones', False, wit + [cc.cid], f'{type(e).__name__}: {e}', nt)
                continue
            ctx.check('C11.offered-sets-are-the-valid-ones', offered == ref, wit + [cc.cid],
                      f'offered {offered[:4]} ({len(offered)}), valid {ref[:4]} ({len(ref)})', nt + (cc.cid,))
            ctx.check('C11.offered-sets-listed-once', len(set(offered)) == len(offered), wit + [cc.cid],
                      f'{len(offered)} offered, {len(set(offered))} distinct', nt + (cc.cid,))
            for edges in ref[:4]:
                try:
                    d = g.get_for_apply_connection_choice(cn, [(b.node[s], b.node[t]) for s, t in edges])
                    n2, ch2, conn2, der2 = b.observe(d)
                    mine = tuple(sorted(e for e in conn2 if e[0] in cc.srcs or any(
                        e[0] in gg.members for gg in desc.groups if gg.name in cc.srcs)))
                    ctx.check('C11.applied-set-yields-precisely-those-edges', mine == tuple(sorted(edges)) and cc.cid not in ch2,
                              wit + [cc.cid, list(edges)], f'instance has connection edges {mine}, choice left: {cc.cid in ch2}', nt + (cc.cid, edges))
                except Exception as e:  # noqa
                    ctx.check('C11.applied-set-yields-precisely-those-edges', False, wit + [cc.cid, list(edges)],
                              f'{type(e).__name__}: {e}', nt + (cc.cid, edges))
            # validate_conn_edges accepts exactly the valid sets (tested on the valid ones and on one-edge perturbations)
            for edges in ref[:3]:
                ok = cn.validate_conn_edges(g, [(b.node[s], b.node[t]) for s, t in edges])
                ctx.check('C11.validate-accepts-valid-set', bool(ok), wit + [cc.cid, list(edges)], 'valid set rejected', nt + (cc.cid, edges, 'v'))
    # the graphs of all scenarios exist side by side now (they share connector and grouping node objects): each one
    # still offers, and accepts, the sets of its own connectors -- asked in reverse order of creation
    for a, g, nodes in reversed(resolved):
        wit = ['graph-api', sorted(a.items()), 'asked-after-all-scenarios-were-derived']
        nt = (desc.label, tuple(sorted(a.items())), 'later')
        for cc in desc.conn_choices:
            cn = b.conn_choice[cc.cid]
            if cn not in g.graph.nodes or not any(s_ in nodes for s_ in cc.srcs):
                continue
            ref = sorted(set(specsem.valid_matrices(desc, cc, nodes)))
            try:
                offered = sorted(tuple(sorted((b.name_of.get(s_), b.name_of.get(t_)) for s_, t_ in edges))
                                 for edges in g.iter_possible_connection_edges(cn))
                ctx.check('C11.offered-sets-are-the-valid-ones', offered == ref, wit + [cc.cid],
                          f'offered {offered[:4]} ({len(offered)}), valid {ref[:4]} ({len(ref)})', nt + (cc.cid,))
                for edges in ref[:3]:
                    ok = cn.validate_conn_edges(g, [(b.node[s_], b.node[t_]) for s_, t_ in edges])
                    ctx.check('C11.validate-accepts-valid-set', bool(ok), wit + [cc.cid, list(edges)], 'valid set rejected', nt + (cc.cid, edges, 'v'))
            except Exception as e:  # noqa
                ctx.check('C11.offered-sets-are-the-valid-ones', False, wit + [cc.cid], f'{type(e).__name__}: {e}', nt + (cc.cid,))
    # scenarios without any valid connection set never appear among the valid designs; others are never lost
    try:
        from .decode import ref_archs, obs_arch
        b2, gp = make_processor(desc, 'COMPLETE')
        X, A = gp.get_all_discrete_x()
        got = set()
        got_full = set()
        ref_full = ref_archs(desc)
        for x in X:
            inst, xi, ai = gp.get_graph(list(x))
            arch = obs_arch(b2, inst)
            got.add(arch[0])
            got_full.add(arch)
            ctx.check('C11.decoded-connection-set-valid-for-present-connectors', arch in ref_full, ['COMPLETE', list(map(float, x))],
                      f'decoded connection edges {arch[1]} are not a valid set for the connectors present in {sorted(arch[0])}',
                      (desc.label, 'decode', tuple(x)))
        ctx.check('C11.every-valid-connection-set-offered-by-the-encoding', ref_full <= got_full, ['COMPLETE', 'enumeration'],
                  f'{len(ref_full - got_full)} valid (scenario, connection set) pairs are never decoded, e.g. {list(ref_full - got_full)[:1]}',
                  (desc.label, 'onto'))
        want = {n for n, _ in ref_archs(desc)}
        ctx.check('C11.scenarios-with-valid-sets-kept-others-excluded', got == want, ['COMPLETE', 'enumeration'],
                  f'node scenarios decoded {len(got)}, reference {len(want)}; lost {[sorted(m) for m in list(want - got)[:2]]} '
                  f'spurious {[sorted(m) for m in list(got - want)[:2]]}', (desc.label, 'scenarios'))
    except Exception:
        pass
    ctx.samples.append(dict(desc=desc.label, scenarios=len(adm)))
    return ctx.result()
