"""Run-time contracts for C17 on generated graphs (corroborates the assumed link 'permanent node => exists in every
architecture' and exercises evaluate with complete / partial / NaN / all-zero evaluators)."""
import math

from . import gen, specsem
from .harness import Ctx, all_vectors
from .decode import obs_arch


def metric_member(desc, tier, seed):
    from adsg_core.optimization.evaluator import DSGEvaluator
    from adsg_core.optimization.hierarchy import SelChoiceEncoderType
    ctx = Ctx(desc)
    b = gen.Built(desc)
    adm = specsem.admissible_assignments(desc)
    closures = [specsem.closure(desc, a) for a in adm]
    always = set.intersection(*[set(c) for c in closures]) if closures else set()

    def mk(mode):
        nonlocal b
        if mode == 'prestored':
            # values recorded on the design-space graph itself before any architecture is derived (derived graphs
            # inherit them): an absent constraint must still report exactly its reference value
            b = gen.Built(desc)
            for mnode in b.dsg.metric_nodes:
                b.dsg.set_metric_value(mnode, -0.5)

        class Ev(DSGEvaluator):
            def _evaluate(self, dsg, metric_nodes):
                out = {}
                for i, m in enumerate(sorted(metric_nodes, key=lambda n: n.name)):
                    if mode in ('complete', 'prestored') or (mode == 'partial' and i % 2 == 0):
                        out[m] = 10.0 + i
                    elif mode == 'nan':
                        out[m] = math.nan
                    elif mode == 'zero':
                        out[m] = 0.0
                return out
        return Ev(b.dsg, encoder_type=SelChoiceEncoderType.COMPLETE)

    # "exists in every architecture": a metric below the confirmed initial graph certainly does (it has to be eligible
    # as objective); a metric outside some admissible closure certainly does not (it must not be an objective); for a
    # metric that every architecture reaches only through options the statement ("only if") allows both readings
    perm0 = set(specsem.closure(desc, {}))

    def role_of(m, can_obj):
        can_con = m.dir is not None and m.ref is not None
        if m.type == 'NONE':
            return None
        if can_obj and can_con:
            return m.type if m.type in ('OBJECTIVE', 'CONSTRAINT') else 'AMBIGUOUS'
        if can_obj:
            return 'OBJECTIVE'
        if can_con:
            return 'CONSTRAINT'
        return None
    allowed = {}
    for m in desc.metrics:
        if m.dir is None or m.name not in always:
            opts = [False]
        elif m.name in perm0:
            opts = [True]
        else:
            opts = [False, True]
        allowed[m.name] = {role_of(m, c) for c in opts}
    must_reject = [n for n, r in allowed.items() if r == {'AMBIGUOUS'}]
    may_reject = [n for n, r in allowed.items() if 'AMBIGUOUS' in r]
    spec = {n: r for n, r in allowed.items()}
    for mode in ('complete', 'partial', 'nan', 'zero', 'prestored'):
        wit = ['COMPLETE', mode]
        nt = (desc.label, mode)
        try:
            ev = mk(mode)
            objs = ev.objectives
            cons = ev.constraints
        except RuntimeError as e:
            ctx.check('C17.ambiguous-undeclared-rejected', bool(may_reject), wit, f'classification raised {e} but no metric is ambiguous', nt)
            continue
        ctx.check('C17.ambiguous-undeclared-rejected', not must_reject, wit, f'metrics {must_reject} are ambiguous and undeclared but no error was raised', nt)
        on = [b.name_of[o.node] for o in objs]
        cn = [b.name_of[c.node] for c in cons]
        # per metric: the observed role has to be one the statement allows
        observed = {k: ('OBJECTIVE' if k in on else 'CONSTRAINT' if k in cn else None) for k in spec}
        wrong = [k for k, r in spec.items() if observed[k] not in r]
        wrong_o = sorted(k for k in wrong if observed[k] == 'OBJECTIVE' or 'OBJECTIVE' in spec[k])
        wrong_c = sorted(k for k in wrong if k not in wrong_o)
        ctx.check('C17.objectives-per-contract', not wrong_o and on == sorted(on), wit,
                  f'objectives {on}; roles allowed by the contract {dict((k, sorted(map(str, r))) for k, r in spec.items())}; wrong: {wrong_o}', nt)
        ctx.check('C17.constraints-per-contract', not wrong_c and cn == sorted(cn), wit,
                  f'constraints {cn}; roles allowed by the contract {dict((k, sorted(map(str, r))) for k, r in spec.items())}; wrong: {wrong_c}', nt)
        X, _ = all_vectors(ev.des_vars, cap=64)
        for x in X:
            inst, xi, ai = ev.get_graph(list(x))
            nodes = obs_arch(b, inst)[0]
            # assumption A17-perm: every objective's node exists in every decoded architecture
            for o in objs:
                ctx.check('C17.objective-node-in-every-architecture', b.name_of[o.node] in nodes, wit + [x],
                          f'objective node {b.name_of[o.node]} missing from the architecture {sorted(nodes)}', nt + (tuple(x),))
            ov, cv = ev.evaluate(inst)
            ctx.check('C17.one-value-per-output', len(ov) == len(objs) and len(cv) == len(cons), wit + [x], f'{len(ov)}/{len(cv)} values', nt + (tuple(x),))
            present = sorted(n for n in nodes if n in spec)
            idx = {n: i for i, n in enumerate(present)}

            def expected(name):
                i = idx[name]
                if mode in ('complete', 'prestored') or (mode == 'partial' and i % 2 == 0):
                    return 10.0 + i
                if mode == 'zero':
                    return 0.0
                return math.nan

            def same(a, e):
                return (math.isnan(a) and math.isnan(e)) or a == e
            for o, v in zip(objs, ov):
                n = b.name_of[o.node]
                if n in idx:
                    ctx.check('C17.objective-value-or-nan', same(v, expected(n)), wit + [x, n], f'got {v}, expected {expected(n)}', nt + (tuple(x), n))
            for c, v in zip(cons, cv):
                n = b.name_of[c.node]
                if n in idx:
                    ctx.check('C17.constraint-value-or-nan', same(v, expected(n)), wit + [x, n], f'got {v}, expected {expected(n)}', nt + (tuple(x), n))
                else:
                    ctx.check('C17.absent-constraint-reports-reference', v == c.ref, wit + [x, n], f'got {v}, reference {c.ref}', nt + (tuple(x), n))
    ctx.samples.append(dict(desc=desc.label, metrics=[list(m) for m in desc.metrics][:3]))
    return ctx.result()
