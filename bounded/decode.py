"""Run-time contracts on GraphProcessor decoding / enumeration (C01, C03, C04, C07, C14, C16), evaluated over the
full declared design space of every corpus member. Postconditions are taken from the property statements and refer
to the reference semantics (`specsem`) as ghost functions."""
import itertools
import math

from . import gen, specsem
from .harness import Ctx, all_vectors


def ref_archs(desc):
    """Reference architectures as a set of (nodes, connection edges per connection choice)."""
    out = set()
    for nodes, a, cc in specsem.architectures(desc):
        out.add((nodes, tuple(cc) if desc.conn_choices else ()))
    return out


def closures_identify(desc):
    """True when different admissible assignments never have the same (node set, connection edges): only then is
    "the architecture" of an instance readable from its nodes (templates in which unselected options derive each
    other in a loop give the same node set for several options)."""
    return len(ref_archs(desc)) == len(specsem.architectures(desc))


def ref_archs_dv(desc):
    """... extended with all index combinations of the discrete design-variable nodes that exist."""
    out = set()
    for nodes, cc in ref_archs(desc):
        dvs = [d for d in desc.dvs if d.name in nodes and d.options and d.name in identity_dvs(desc, nodes)]
        for combo in itertools.product(*[range(len(d.options)) for d in dvs]):
            out.add((nodes, cc, tuple(sorted((d.name, i) for d, i in zip(dvs, combo)))))
    return out


def identity_dvs(desc, nodes):
    """Discrete DV nodes whose index is part of the architecture identity: of each LINKED set only the first node
    that is present (the others carry the same index by C13/C16)."""
    names = [d.name for d in desc.dvs if d.name in nodes]
    drop = set()
    for t, cs in desc.constraints:
        if t == 'LINKED':
            present = [c for c in cs if c in names]
            drop.update(present[1:])
    return [n for n in names if n not in drop]


def obs_arch(b, inst, with_dv=False):
    nodes, choices, conn, der = b.observe(inst)
    cc = (conn,) if b.desc.conn_choices else ()
    if len(b.desc.conn_choices) > 1:
        # split the connection edges per connection choice (by source membership)
        per = []
        for c in b.desc.conn_choices:
            per.append(tuple(e for e in conn if e[0] in c.srcs))
        cc = tuple(per)
    if not with_dv:
        return nodes, cc
    vals = inst.des_var_values
    dv = []
    keep = identity_dvs(b.desc, nodes)
    for d in b.desc.dvs:
        if d.options and d.name in nodes and d.name in keep:
            v = vals.get(b.node[d.name])
            dv.append((d.name, v if v is None else int(v)))
    return nodes, cc, tuple(sorted(dv))


def make_processor(desc, encoder):
    from adsg_core.optimization.graph_processor import GraphProcessor
    from adsg_core.optimization.hierarchy import SelChoiceEncoderType
    b = gen.Built(desc)
    gp = GraphProcessor(b.dsg, encoder_type=getattr(SelChoiceEncoderType, encoder))
    return b, gp


def in_range(gp, x):
    for dv, v in zip(gp.des_vars, x):
        if dv.is_discrete:
            if not (0 <= v < dv.n_opts) or int(v) != v:
                return False
        elif not (dv.bounds[0] <= v <= dv.bounds[1]):
            return False
    return True


def canonical(dv):
    return 0 if dv.is_discrete else (dv.bounds[0] + dv.bounds[1]) / 2


def veq(a, b):
    return len(a) == len(b) and all(abs(float(p) - float(q)) < 1e-9 for p, q in zip(a, b))


def forced_choice_class(b, desc, inst, node, enc):
    """Names the situation 'the variable belongs to a selection choice that is active in the instance and whose
    taken option is the only one the other choices of the instance leave admissible' (the choice was resolved
    automatically); None for anything else (the default class, corpus member | encoder, is used then)."""
    if node not in b.choice.values():
        return None
    cid = [c for c, n in b.choice.items() if n == node][0]
    nodes, _, _, der = b.observe(inst)
    a = {}
    for c in desc.choices:
        tk = [o for o in c.options if (c.origin, o) in der]
        if c.origin in nodes and len(tk) == 1:
            a[c.cid] = tk[0]
    if cid not in a:
        return None
    alts = set()
    for adm in specsem.admissible_assignments(desc):
        if cid in adm and all(adm.get(c, o) == o for c, o in a.items() if c != cid):
            alts.add(adm[cid])
    return f'forced-active-choice|{enc}' if alts == {a[cid]} else None


def decode_member(desc, tier, seed, props=('C01', 'C03', 'C07', 'C16'), encoders=('COMPLETE', 'FAST')):
    """Contracts on get_graph for every vector of the declared space of one corpus member."""
    ctx = Ctx(desc)
    ref = ref_archs(desc)
    ident = closures_identify(desc)
    refnodes = {n for n, _ in ref}
    for enc in encoders:
        try:
            b, gp = make_processor(desc, enc)
            dvs = gp.des_vars
        except Exception as e:  # noqa
            if 'C01' not in props:
                continue   # totality of decoding is C01's clause; other properties are evaluated where decoding works
            # C01: construction may only fail when there is no feasible architecture at all
            ctx.check('C01.decode-total', len(ref) == 0, witness=[enc, 'constructor'],
                      detail=f'{type(e).__name__}: {e} while the reference admits {len(ref)} architectures',
                      nontrivial_key=(desc.label, enc, 'ctor'))
            continue
        X, exhaustive = all_vectors(dvs, cap=4096 if tier == 'thorough' else 1024)
        seen = {}
        by_arch = {}
        reached = set()
        for x in X:
            wit = [enc, x]
            try:
                inst, xi, act = gp.get_graph(list(x))
            except Exception as e:  # noqa
                if 'C01' not in props:
                    continue
                ctx.check('C01.decode-total', len(ref) == 0, witness=wit,
                          detail=f'{type(e).__name__}: {e} while the reference admits {len(ref)} architectures',
                          nontrivial_key=(desc.label, enc, tuple(x)))
                continue
            xi = [float(v) for v in xi]
            nt = (desc.label, enc, tuple(xi))
            arch = obs_arch(b, inst)
            reached.add(arch)
            if 'C01' in props:
                ctx.check('C01.final', bool(inst.final), wit, 'instance has choices left', nt)
                ctx.check('C01.feasible', bool(inst.feasible), wit, 'instance reported infeasible', nt)
                ctx.check('C01.admitted-architecture', arch in ref, wit,
                          f'decoded nodes {sorted(arch[0])} conn {arch[1]} is not one of the {len(ref)} reference '
                          f'architectures', nt)
            if 'C03' in props or 'C07' in props:
                ctx.check('C03.corrected-in-range', in_range(gp, xi), wit, f'corrected vector {xi} out of range', nt)
                try:
                    inst2, xi2, act2 = gp.get_graph(list(xi))
                    ctx.check('C03.fixed-point-vector', veq(xi2, xi), wit, f'decode({xi}) returned {list(xi2)}', nt)
                    ctx.check('C03.fixed-point-activeness', list(act2) == list(act), wit,
                              f'activeness {list(act)} then {list(act2)}', nt)
                    ctx.check('C03.fixed-point-architecture', obs_arch(b, inst2, True) == obs_arch(b, inst, True),
                              wit, 're-decoding the corrected vector gives another architecture', nt)
                except Exception as e:  # noqa
                    ctx.check('C03.fixed-point-vector', False, wit, f're-decode raised {type(e).__name__}: {e}', nt)
                key = (tuple(round(v, 9) for v in xi))
                a_dv = obs_arch(b, inst, True)
                if key in seen and 'C03' in props:
                    ctx.check('C03.vector-determines-architecture', seen[key] == a_dv, wit,
                              'same corrected vector, different architectures', nt)
                seen[key] = a_dv
                if 'C03' in props and all(dv.is_discrete for dv in dvs) and ident:   # continuous values are not part of a_dv
                    prev = by_arch.setdefault(a_dv, key)
                    ctx.check('C03.distinct-vectors-distinct-architectures', prev == key, wit,
                              f'corrected vectors {list(prev)} and {list(key)} denote the same architecture', nt)
                # selection variables describe the instance: option at index is wired to the originating node
                for k, dv in enumerate(dvs):
                    node = dv.node
                    if node in b.choice.values() and act[k]:
                        cid = [c for c, n in b.choice.items() if n == node][0]
                        ch = desc.choice(cid)
                        nodes, _, _, der = b.observe(inst)
                        opts = list(dv.options)   # the option nodes the design variable declares, in index order
                        opt_name = b.name_of.get(opts[int(xi[k])])
                        ctx.check('C03.selection-variable-describes-instance',
                                  ch.origin in nodes and (ch.origin, opt_name) in der, wit,
                                  f'variable {k} = {xi[k]} but {ch.origin}->{opt_name} not in instance', nt)
            if 'C03' in props and desc.dvs:
                # design-variable nodes of the instance carry the reported values
                vals3 = inst.des_var_values
                for d in desc.dvs:
                    n3 = b.node[d.name]
                    k3 = [i for i, dv in enumerate(dvs) if dv.node == n3]
                    if d.name in arch[0] and k3:
                        v3 = vals3.get(n3)
                        ctx.check('C03.design-variable-node-carries-reported-value',
                                  bool(act[k3[0]]) and v3 is not None and abs(float(v3) - float(xi[k3[0]])) < 1e-9, wit,
                                  f'{d.name} is in the instance with value {v3}; variable {k3[0]} reports {xi[k3[0]]} active={act[k3[0]]}', nt)
            if 'C07' in props:
                nodes = arch[0]
                for k, dv in enumerate(dvs):
                    if not act[k]:
                        ctx.check('C07.inactive-canonical', abs(float(xi[k]) - canonical(dv)) < 1e-9, wit,
                                  f'inactive variable {k} reported {xi[k]}', nt)
                    node = dv.node
                    if act[k] and node in b.name_of:
                        ctx.check('C07.active-node-exists', b.name_of[node] in nodes, wit,
                                  f'variable {k} active but node {b.name_of[node]} not in the instance', nt)
                    if act[k] and node in b.choice.values():
                        cid = [c for c, n in b.choice.items() if n == node][0]
                        ctx.check('C07.active-choice-exists', desc.choice(cid).origin in nodes, wit,
                                  f'variable {k} active but choice {cid} inactive', nt)
                    if not dv.conditionally_active:
                        ctx.check('C07.unconditional-always-active', bool(act[k]), wit,
                                  f'variable {k} not conditionally active but inactive', nt,
                                  wclass=None if act[k] else forced_choice_class(b, desc, inst, node, enc))
                try:
                    _, xn, an = gp.get_graph(list(x), create=False)
                    agree = veq(xn, xi) and list(an) == list(act)
                    # names the situation "fast encoder, the raw vector is not valid itself (both decodes correct it, to
                    # different neighbours)": the same defect as C05's imputation-cache finding
                    wc = None
                    if not agree and enc == 'FAST' and not veq([float(v) for v in x], xi) and not veq([float(v) for v in x], xn):
                        wc = 'imputed-vector-depends-on-imputation-cache|FAST'
                    ctx.check('C07.create-flag-agreement', agree, wit,
                              f'create=False gives {list(xn)} {list(an)}; create=True gives {xi} {list(act)}', nt, wclass=wc)
                except Exception as e:  # noqa
                    ctx.check('C07.create-flag-agreement', False, wit, f'create=False raised {type(e).__name__}: {e}', nt)
            if 'C16' in props and desc.dvs:
                vals = inst.des_var_values
                nodes = arch[0]
                for d in desc.dvs:
                    n = b.node[d.name]
                    k = [i for i, dv in enumerate(dvs) if dv.node == n]
                    if d.name in nodes:
                        v = vals.get(n)
                        ok = v is not None and ((0 <= v < len(d.options) and int(v) == v) if d.options else
                                                (d.bounds[0] <= v <= d.bounds[1]))
                        ctx.check('C16.existing-node-has-in-domain-value', ok, wit, f'{d.name} has value {v}', nt)
                        if k and v is not None:
                            ctx.check('C16.reported-equals-stored', abs(float(xi[k[0]]) - float(v)) < 1e-9 and act[k[0]],
                                      wit, f'{d.name}: stored {v}, reported {xi[k[0]]} active={act[k[0]]}', nt)
                        if k and v is not None and len(reached) <= 6:
                            # the instance keeps the value its vector reported when a COPY of it is given another one
                            try:
                                other = (int(v) + 1) % len(d.options) if d.options else (d.bounds[0] if abs(v - d.bounds[0]) > 1e-9 else d.bounds[1])
                                cpy = inst.copy()
                                cpy.set_des_var_value(n, other)
                                v_after = inst.des_var_values.get(n)
                                ctx.check('C16.instance-keeps-reported-value-when-a-copy-is-edited',
                                          v_after is not None and abs(float(v_after) - float(v)) < 1e-9, wit,
                                          f'{d.name}: instance held {v}; after set_des_var_value({other}) on a copy it holds {v_after}', nt)
                            except Exception as e:  # noqa
                                ctx.check('C16.instance-keeps-reported-value-when-a-copy-is-edited', False, wit, f'{type(e).__name__}: {e}', nt)
                    elif k:
                        ctx.check('C16.absent-node-inactive', (not act[k[0]]) and
                                  abs(float(xi[k[0]]) - canonical(dvs[k[0]])) < 1e-9, wit,
                                  f'{d.name} absent but variable active={act[k[0]]} value {xi[k[0]]}', nt)
        if len(ctx.samples) < 2 and X:
            ctx.samples.append(dict(desc=desc.label, encoder=enc, n_vectors=len(X), exhaustive=exhaustive,
                                    example_vector=X[len(X) // 2]))
        if 'C14' in props and enc == 'FAST':
            got = reached
            ctx.check('C14.onto', got == ref, [enc, 'all-vectors'],
                      f'fast encoder reaches {len(got)} architectures, reference has {len(ref)}; missing '
                      f'{[sorted(m[0]) for m in list(ref - got)[:2]]} extra {[sorted(m[0]) for m in list(got - ref)[:2]]}',
                      (desc.label, 'onto'))
    if 'C16' in props and desc.dvs:
        set_value_contract(desc, ctx)
    return ctx.result()


def set_value_contract(desc, ctx):
    """C16: setting a value directly on a graph clamps into the declared domain; linked nodes carry the same option
    index / the same relative position, each inside its own domain."""
    b = gen.Built(desc)
    g0 = b.dsg
    linked = [set(cs) for t, cs in desc.constraints if t == 'LINKED' and all(c in b.node for c in cs)]
    for d in desc.dvs:
        n = b.node[d.name]
        if n not in g0.graph.nodes:
            continue
        if d.options:
            vals = [-3, -1, 0, 1, len(d.options) - 1, len(d.options), len(d.options) + 5, 0.5, 1.5]
        else:
            lo, hi = d.bounds
            vals = [lo - 10, lo, lo + (hi - lo) / 3, hi, hi + 10]
        for v in vals:
            g = g0.copy()
            wit = ['graph-api', 'set_des_var_value', d.name, v]
            nt = (desc.label, 'set', d.name, v)
            try:
                g.set_des_var_value(n, v)
            except Exception as e:  # noqa
                ctx.check('C16.set-value-total', False, wit, f'{type(e).__name__}: {e}', nt)
                continue
            got = g.des_var_value(n)
            if d.options:
                ok = got is not None and float(got) == int(got) and 0 <= got <= len(d.options) - 1
                exp = min(max(int(v), 0), len(d.options) - 1)
                ctx.check('C16.set-value-in-domain', ok, wit, f'stored {got}', nt)
                ctx.check('C16.set-value-clamps', ok and int(got) == exp, wit, f'stored {got}, clamp gives {exp}', nt)
            else:
                lo, hi = d.bounds
                ctx.check('C16.set-value-in-domain', got is not None and lo <= got <= hi, wit, f'stored {got}', nt)
                ctx.check('C16.set-value-clamps', got == min(max(v, lo), hi), wit, f'stored {got}', nt)
            for grp in linked:
                if d.name not in grp:
                    continue
                for other in grp - {d.name}:
                    od = [x for x in desc.dvs if x.name == other][0]
                    ov = g.des_var_value(b.node[other])
                    if od.options:
                        ctx.check('C13.linked-dv-same-index', ov == got or len(od.options) != len(d.options), wit + [other],
                                  f'{d.name}={got} but linked {other}={ov}', nt + (other,))
                        ctx.check('C16.linked-value-in-own-domain', ov is not None and 0 <= ov <= len(od.options) - 1,
                                  wit + [other], f'linked node {other} ({len(od.options)} options) got index {ov}', nt + (other,))
                    else:
                        lo, hi = d.bounds
                        olo, ohi = od.bounds
                        frac = (got - lo) / (hi - lo)
                        ctx.check('C13.linked-dv-same-relative-position', ov is not None and abs((ov - olo) / (ohi - olo) - frac) < 1e-9,
                                  wit + [other], f'{d.name} at fraction {frac}, linked {other}={ov} in [{olo},{ohi}]', nt + (other,))
                        ctx.check('C16.linked-value-in-own-domain', ov is not None and olo <= ov <= ohi, wit + [other], f'{other}={ov}', nt + (other,))
