"""Builds real adsg_core graphs from `specsem.Desc` values, and observes real instances in the vocabulary of the
reference semantics (names). Also: the template families (bounded corpora of DESIGN.md Appendix C)."""
import itertools
import math
import random

from .specsem import Desc


def deg_kwargs(deg):
    if deg[0] == 'list':
        return dict(deg_list=list(deg[1]))
    if deg[0] == 'range':
        return dict(deg_min=deg[1], deg_max=deg[2])
    return dict(deg_min=deg[1], deg_max=math.inf)


class Built:
    """A freshly built DSG together with the name -> node maps."""

    def __init__(self, desc, initialize=True):
        from adsg_core.graph.adsg_basic import BasicDSG
        from adsg_core.graph.adsg_nodes import (NamedNode, ConnectorNode, ConnectorDegreeGroupingNode,
                                                DesignVariableNode, MetricNode, MetricType)
        from adsg_core.graph.choice_constraints import ChoiceConstraintType
        self.desc = desc
        self.node = {}
        self.choice = {}
        self.conn_choice = {}
        for n in desc.nodes:
            self.node[n] = NamedNode(n)
        for c in desc.conns:
            self.node[c.name] = ConnectorNode(c.name, repeated_allowed=c.rep, **deg_kwargs(c.deg))
        for g in desc.groups:
            self.node[g.name] = ConnectorDegreeGroupingNode(g.name)
        for d in desc.dvs:
            # 'span#2': a second node that is DISPLAYED as 'span' (two nodes of one graph may carry the same name)
            self.node[d.name] = DesignVariableNode(d.name.split('#')[0], bounds=tuple(d.bounds) if d.bounds else None,
                                                   options=list(d.options) if d.options else None)
        for m in desc.metrics:
            t = getattr(MetricType, m.type) if m.type else None
            self.node[m.name] = MetricNode(m.name, direction=m.dir, ref=m.ref, type_=t)
        dsg = BasicDSG()
        for n in desc.nodes:
            dsg.add_node(self.node[n])
        if getattr(desc, 'choices_first', False):
            for c in desc.choices:
                self.choice[c.cid] = dsg.add_selection_choice(c.cid, self.node[c.origin], [self.node[o] for o in c.options])
        dsg.add_edges([(self.node[u], self.node[v]) for u, v in desc.edges])
        for c in desc.conns:
            if c.parent is not None:
                dsg.add_edge(self.node[c.parent], self.node[c.name])
        for d in desc.dvs:
            if d.parent is not None:
                dsg.add_edge(self.node[d.parent], self.node[d.name])
        for m in desc.metrics:
            if m.parent is not None:
                dsg.add_edge(self.node[m.parent], self.node[m.name])
        for c in desc.choices:
            if c.cid not in self.choice:
                self.choice[c.cid] = dsg.add_selection_choice(c.cid, self.node[c.origin], [self.node[o] for o in c.options])
        groups = {g.name: g for g in desc.groups}

        def conn_arg(names):
            out = []
            for n in names:
                if n in groups:
                    out.append((self.node[n], [self.node[m] for m in groups[n].members]))
                else:
                    out.append(self.node[n])
            return out
        for cc in desc.conn_choices:
            self.conn_choice[cc.cid] = dsg.add_connection_choice(
                cc.cid, conn_arg(cc.srcs), conn_arg(cc.tgts),
                exclude=[(self.node[s], self.node[t]) for s, t in cc.exclude] or None)
        for a, b in desc.incompat:
            dsg.add_incompatibility_constraint([self.node[a], self.node[b]])
        self.raw = dsg
        self.name_of = {v: k for k, v in self.node.items()}
        if initialize:
            dsg = dsg.set_start_nodes({self.node[s] for s in desc.start})
            for ctype, cids in desc.constraints:
                dsg = dsg.constrain_choices(getattr(ChoiceConstraintType, ctype),
                                            [self.choice[c] if c in self.choice else self.node[c] for c in cids])
        self.dsg = dsg

    # -- observation -------------------------------------------------------------------------------
    def names(self, nodes):
        return frozenset(self.name_of[n] for n in nodes if n in self.name_of)

    def observe(self, inst):
        """(node names, remaining choice ids, sorted connection edges by name, derivation edges by name)."""
        from adsg_core.graph.graph_edges import EdgeType, get_edge_type
        from adsg_core.graph.adsg_nodes import ChoiceNode
        g = inst.graph
        nodes = self.names(g.nodes)
        choices = sorted(str(n.decision_id) for n in g.nodes if isinstance(n, ChoiceNode))
        conn, der = [], []
        for e in g.edges(keys=True, data=True):
            u, v = e[0], e[1]
            if u in self.name_of and v in self.name_of:
                t = get_edge_type(e)
                if t == EdgeType.CONNECTS:
                    conn.append((self.name_of[u], self.name_of[v]))
                elif t == EdgeType.DERIVES:
                    der.append((self.name_of[u], self.name_of[v]))
        return nodes, tuple(choices), tuple(sorted(conn)), frozenset(der)


# ================================================================================================ families

def _sel(label, nodes, edges, start, choices, **kw):
    return Desc(nodes, edges, start, choices=choices, label=label, **kw)


def family_sel(tier='quick'):
    """SEL: selection-only templates (chains, diamonds, cycles, nesting, several start nodes, floating parts)."""
    out = []
    # single choice, k options, each option derives a private node
    for k in (1, 2, 3, 4):
        opts = [f'O{i}' for i in range(k)]
        out.append(_sel(f'single-{k}', ['A'] + opts + [f'D{i}' for i in range(k)],
                        [(f'O{i}', f'D{i}') for i in range(k)], ['A'], [('C1', 'A', opts)]))
    # two independent choices on one node / on two nodes
    for k1, k2 in ((2, 2), (2, 3), (3, 3)):
        o1 = [f'P{i}' for i in range(k1)]
        o2 = [f'Q{i}' for i in range(k2)]
        out.append(_sel(f'indep-same-node-{k1}x{k2}', ['A'] + o1 + o2, [], ['A'], [('C1', 'A', o1), ('C2', 'A', o2)]))
        out.append(_sel(f'indep-two-nodes-{k1}x{k2}', ['A', 'B', 'X'] + o1 + o2, [('X', 'A'), ('X', 'B')], ['X'],
                        [('C1', 'A', o1), ('C2', 'B', o2)]))
    out.append(_sel('indep-three-2x2x2', ['A', 'P0', 'P1', 'Q0', 'Q1', 'R0', 'R1'], [], ['A'],
                    [('C1', 'A', ['P0', 'P1']), ('C2', 'A', ['Q0', 'Q1']), ('C3', 'A', ['R0', 'R1'])]))
    # nested: option of C1 activates C2 (depth 2 and 3)
    out.append(_sel('nested-2', ['A', 'P0', 'P1', 'Q0', 'Q1'], [], ['A'],
                    [('C1', 'A', ['P0', 'P1']), ('C2', 'P1', ['Q0', 'Q1'])]))
    out.append(_sel('nested-3', ['A', 'P0', 'P1', 'Q0', 'Q1', 'R0', 'R1', 'R2'], [], ['A'],
                    [('C1', 'A', ['P0', 'P1']), ('C2', 'P1', ['Q0', 'Q1']), ('C3', 'Q0', ['R0', 'R1', 'R2'])]))
    out.append(_sel('nested-via-derived', ['A', 'P0', 'P1', 'M', 'Q0', 'Q1'], [('P0', 'M')], ['A'],
                    [('C1', 'A', ['P0', 'P1']), ('C2', 'M', ['Q0', 'Q1'])]))
    # both options activate the same sub-choice (shared activation), one directly one via derived node
    out.append(_sel('shared-activation', ['A', 'P0', 'P1', 'P2', 'M', 'Q0', 'Q1'], [('P0', 'M'), ('P1', 'M')], ['A'],
                    [('C1', 'A', ['P0', 'P1', 'P2']), ('C2', 'M', ['Q0', 'Q1'])]))
    # diamond: two options derive a common node
    out.append(_sel('diamond', ['A', 'P0', 'P1', 'M', 'N'], [('P0', 'M'), ('P1', 'M'), ('M', 'N')], ['A'],
                    [('C1', 'A', ['P0', 'P1'])]))
    # derivation cycle below an option; cycle containing the originating node
    out.append(_sel('cycle-below-option', ['A', 'P0', 'P1', 'X', 'Y', 'Z'],
                    [('P0', 'X'), ('X', 'Y'), ('Y', 'Z'), ('Z', 'X')], ['A'], [('C1', 'A', ['P0', 'P1'])]))
    out.append(_sel('cycle-through-origin', ['S', 'A', 'B', 'P0', 'P1'],
                    [('S', 'A'), ('A', 'B'), ('B', 'A'), ('P0', 'B')], ['S'], [('C1', 'B', ['P0', 'P1'])]))
    # option derives a permanent node (already confirmed)
    out.append(_sel('option-derives-permanent', ['A', 'B', 'P0', 'P1'], [('A', 'B'), ('P0', 'B')], ['A'],
                    [('C1', 'A', ['P0', 'P1'])]))
    # two start nodes, choice below each, one shared derived node
    out.append(_sel('two-starts', ['S1', 'S2', 'P0', 'P1', 'Q0', 'Q1', 'M'], [('P0', 'M'), ('Q1', 'M')], ['S1', 'S2'],
                    [('C1', 'S1', ['P0', 'P1']), ('C2', 'S2', ['Q0', 'Q1'])]))
    # floating node / floating chain (not derivable from the start node): must be absent
    out.append(_sel('floating-node', ['A', 'P0', 'P1', 'F'], [], ['A'], [('C1', 'A', ['P0', 'P1'])]))
    out.append(_sel('floating-chain', ['A', 'P0', 'P1', 'F', 'G'], [('F', 'G'), ('G', 'P1')], ['A'],
                    [('C1', 'A', ['P0', 'P1'])]))
    # four / five options of which the unselected ones derive each other (in a loop; in a chain)
    out.append(_sel('four-options-deriving-loop', ['S', 'A', 'B', 'C', 'D', 'XA', 'XB', 'XC', 'XD'],
                    [('B', 'C'), ('C', 'D'), ('D', 'B'), ('A', 'XA'), ('B', 'XB'), ('C', 'XC'), ('D', 'XD')], ['S'],
                    [('C1', 'S', ['A', 'B', 'C', 'D'])]))
    out.append(_sel('five-options-deriving-chain', ['S', 'K1', 'K2', 'K3', 'K4', 'K5', 'I1', 'I2', 'I3', 'I4', 'I5'],
                    [('K5', 'K4'), ('K4', 'K3'), ('K3', 'K2'), ('K2', 'K1')] + [(f'K{i}', f'I{i}') for i in range(1, 6)], ['S'],
                    [('C1', 'S', ['K1', 'K2', 'K3', 'K4', 'K5'])]))
    # stand-alone start nodes (no edges at all) next to a chain and a choice
    out.append(_sel('standalone-starts', ['A', 'B', 'P0', 'P1', 'L0', 'L1', 'L2'], [('A', 'B')], ['A', 'L0', 'L1', 'L2'],
                    [('C1', 'B', ['P0', 'P1'])]))
    # two roots that are not start nodes and share a descendant (the whole floating part has to be absent)
    out.append(_sel('floating-two-roots-shared', ['A', 'P0', 'P1', 'F1', 'F2', 'FA', 'FB', 'X', 'Z'],
                    [('F1', 'FA'), ('FA', 'X'), ('F2', 'FB'), ('FB', 'X'), ('X', 'Z')], ['A'], [('C1', 'A', ['P0', 'P1'])]))
    # a choice that options of two different choices activate (merged scenario), next to an independent choice
    out.append(_sel('activated-by-two-choices', ['S', 'A', 'B', 'C', 'P0', 'P1', 'Q0', 'Q1', 'M', 'R0', 'R1', 'T0', 'T1'],
                    [('S', 'A'), ('S', 'B'), ('S', 'C'), ('P0', 'M'), ('Q0', 'M')], ['S'],
                    [('C1', 'A', ['P0', 'P1']), ('C2', 'B', ['Q0', 'Q1']), ('C5', 'M', ['R0', 'R1']), ('C3', 'C', ['T0', 'T1'])]))
    # ... and the nested variant: C5 is activated by option P0 of C1 or by option Q0 of C2, which itself sits below P1
    out.append(_sel('activated-by-two-nested-choices', ['S1', 'S3', 'P0', 'P1', 'B', 'Q0', 'Q1', 'M', 'R0', 'R1', 'T0', 'T1'],
                    [('P1', 'B'), ('P0', 'M'), ('Q0', 'M')], ['S1', 'S3'],
                    [('C1', 'S1', ['P0', 'P1']), ('C2', 'B', ['Q0', 'Q1']), ('C5', 'M', ['R0', 'R1']), ('C3', 'S3', ['T0', 'T1'])]))
    # a derivation cycle (R <-> P) below an option, with a cross edge from the cycle to a node that carries a nested
    # choice; the other option enters the cycle: whatever C1 takes, Q is derived and C2 has to become active
    for with_w in (True, False):
        e = [('X', 'W'), ('W', 'Q'), ('W', 'R')] if with_w else [('X', 'Q'), ('X', 'R')]
        out.append(_sel(f'cycle-cross-edge-to-nested-choice-{int(with_w)}', ['S', 'X', 'Y', 'Q', 'R', 'P', 'U', 'V'] + (['W'] if with_w else []),
                        e + [('R', 'P'), ('P', 'R'), ('R', 'Q'), ('Y', 'P')], ['S'],
                        [('C1', 'S', ['X', 'Y']), ('C2', 'Q', ['U', 'V'])]))
    # a node that derives itself (cycle of length one) below an option, next to a cycle of length two
    out.append(_sel('self-derivation-below-option', ['S', 'A', 'B', 'X', 'Y', 'Z', 'V', 'W'],
                    [('A', 'X'), ('X', 'X'), ('X', 'Z'), ('B', 'Y'), ('Y', 'V'), ('V', 'W'), ('W', 'V')], ['S'],
                    [('C', 'S', ['A', 'B'])]))
    out.append(_sel('self-derivation-shared-by-two-choices', ['S', 'M', 'N', 'A', 'B', 'P', 'Q', 'X', 'Z'],
                    [('S', 'M'), ('S', 'N'), ('A', 'X'), ('P', 'X'), ('X', 'X'), ('X', 'Z')], ['S'],
                    [('C1', 'M', ['A', 'B']), ('C2', 'N', ['P', 'Q'])]))
    # no choices at all
    out.append(_sel('no-choice', ['A', 'B', 'C'], [('A', 'B'), ('B', 'C')], ['A'], []))
    # choice whose option activates two further choices
    out.append(_sel('fan-out', ['A', 'P0', 'P1', 'M1', 'M2', 'Q0', 'Q1', 'R0', 'R1'], [('P0', 'M1'), ('P0', 'M2')],
                    ['A'], [('C1', 'A', ['P0', 'P1']), ('C2', 'M1', ['Q0', 'Q1']), ('C3', 'M2', ['R0', 'R1'])]))
    # mutually exclusive sub-choices under different options
    out.append(_sel('exclusive-subchoices', ['A', 'P0', 'P1', 'Q0', 'Q1', 'R0', 'R1', 'R2'], [], ['A'],
                    [('C1', 'A', ['P0', 'P1']), ('C2', 'P0', ['Q0', 'Q1']), ('C3', 'P1', ['R0', 'R1', 'R2'])]))
    # two nested derivation cycles sharing a node, with option nodes of two different choices on the cycles and a
    # third choice below one of them (S stays in the instance through H -> M -> X -> S when C1 takes S_ALT)
    for cf in (False, True):
        out.append(_sel(f'nested-cycles-{int(cf)}',
                        ['ST', 'N1', 'N2', 'S', 'S_ALT', 'H', 'H_ALT', 'M', 'X', 'Y', 'Z', 'P', 'Q'],
                        [('ST', 'N1'), ('ST', 'N2'), ('S', 'H'), ('H', 'M'), ('M', 'X'), ('X', 'S'), ('M', 'Y'),
                         ('Y', 'H'), ('S', 'Z')], ['ST'],
                        [('C1', 'N1', ['S', 'S_ALT']), ('C2', 'N2', ['H', 'H_ALT']), ('C3', 'Z', ['P', 'Q'])],
                        choices_first=cf))
        # an option node that another branch also derives (directly / through a chain)
        out.append(_sel(f'option-also-derived-{int(cf)}', ['X', 'P0', 'P1', 'Q0', 'Q1', 'I', 'R0', 'R1'],
                        [('P0', 'I'), ('I', 'Q0')], ['X'],
                        [('C1', 'X', ['P0', 'P1']), ('C2', 'X', ['Q0', 'Q1']), ('C3', 'Q0', ['R0', 'R1'])],
                        choices_first=cf))
    # choices taken in another order than they are encoded: C2 (below an option of C1) is taken before C3 (ordered by
    # id) but found one level deeper than C3
    out.append(_sel('taken-order-differs', ['S1', 'S2', 'P0', 'P1', 'M', 'Q0', 'Q1', 'R0', 'R1'], [('P0', 'M')], ['S1', 'S2'],
                    [('C1', 'S1', ['P0', 'P1']), ('C3', 'S2', ['R0', 'R1']), ('C2', 'M', ['Q0', 'Q1'])]))
    # the documented example of docs/theory.md (16 nodes, 2 choices, 2 incompatibilities, 6 architectures)
    out.append(theory_example())
    if tier == 'thorough':
        out += family_sel_random(200, seed=12345)
    return out


def theory_example():
    n = [f'N{i}' for i in range(14)]
    edges = [('N1', 'N2'), ('N1', 'N3'), ('N4', 'N7'), ('N5', 'N7'), ('N5', 'N6'), ('N13', 'N7'),
             ('N6', 'N8'), ('N8', 'N9'), ('N9', 'N10'), ('N10', 'N8'), ('N0', 'N4')]
    return Desc(n, edges, ['N1'],
                choices=[('C1', 'N3', ['N4', 'N5', 'N6', 'N12', 'N13']), ('C2', 'N7', ['N8', 'N11'])],
                incompat=[('N2', 'N12'), ('N9', 'N13')], label='theory-example')


def family_sel_random(n, seed):
    """Layered random selection graphs inside the well-formedness rules (DESIGN.md section 3)."""
    rng = random.Random(seed)
    out = []
    for k in range(n):
        nodes = ['S']
        edges = []
        choices = []
        frontier = ['S']
        nc = 0
        for layer in range(rng.randint(1, 3)):
            new_frontier = []
            for origin in frontier:
                if nc >= 3 or rng.random() < 0.3:
                    continue
                nc += 1
                opts = [f'L{layer}C{nc}O{i}' for i in range(rng.randint(2, 3))]
                nodes += opts
                choices.append((f'C{nc}', origin, opts))
                for o in opts:
                    if rng.random() < 0.5:
                        d = f'{o}d'
                        nodes.append(d)
                        edges.append((o, d))
                        new_frontier.append(d)
                    else:
                        new_frontier.append(o)
            frontier = new_frontier or frontier
        # a few cross derivations between non-choice nodes (may create diamonds; cycles only among derived nodes)
        plain = [x for x in nodes if x != 'S']
        for _ in range(rng.randint(0, 2)):
            if len(plain) >= 2:
                u, v = rng.sample(plain, 2)
                if v.endswith('d') and (u, v) not in edges:
                    edges.append((u, v))
        out.append(Desc(nodes, edges, ['S'], choices=choices, label=f'random-sel-{seed}-{k}'))
    return out


def family_inc(tier='quick'):
    """INC: incompatibility pairs placed on start / option / derived / shared nodes."""
    out = []
    base = [
        ('opt-opt', ['A', 'B', 'X', 'P0', 'P1', 'Q0', 'Q1'], [('X', 'A'), ('X', 'B')], ['X'],
         [('C1', 'A', ['P0', 'P1']), ('C2', 'B', ['Q0', 'Q1'])]),
        ('derived', ['A', 'B', 'X', 'P0', 'P1', 'Q0', 'Q1', 'D0', 'E1'], [('X', 'A'), ('X', 'B'), ('P0', 'D0'), ('Q1', 'E1')],
         ['X'], [('C1', 'A', ['P0', 'P1']), ('C2', 'B', ['Q0', 'Q1'])]),
        ('nested', ['A', 'P0', 'P1', 'Q0', 'Q1', 'Z'], [('A', 'Z')], ['A'],
         [('C1', 'A', ['P0', 'P1']), ('C2', 'P1', ['Q0', 'Q1'])]),
        ('three-opts', ['A', 'B', 'X', 'P0', 'P1', 'P2', 'Q0', 'Q1', 'Q2'], [('X', 'A'), ('X', 'B')], ['X'],
         [('C1', 'A', ['P0', 'P1', 'P2']), ('C2', 'B', ['Q0', 'Q1', 'Q2'])]),
    ]
    pairs = {
        'opt-opt': [[('P0', 'Q0')], [('P0', 'Q0'), ('P1', 'Q1')], [('P0', 'Q0'), ('P0', 'Q1')]],
        'derived': [[('D0', 'E1')], [('D0', 'Q0')], [('D0', 'E1'), ('P1', 'Q0')]],
        'nested': [[('Z', 'Q0')], [('P0', 'Z')], [('Q0', 'Z'), ('Q1', 'Z')], [('A', 'Q1')]],
        'three-opts': [[('P0', 'Q0'), ('P1', 'Q1'), ('P2', 'Q2')], [('P0', 'Q0'), ('P0', 'Q1'), ('P0', 'Q2')]],
    }
    # an option incompatible with a node that every option of another active choice derives through a shared node
    # (both alphabetical orders of the two node names; both orders of stating the constraint)
    for tgt, src in (('A_tgt', 'Z_src'), ('Z_tgt', 'A_src')):
        for flip in (False, True):
            nodes = ['X', 'A', 'B', 'P0', 'P1', 'M', tgt, src, 'Q1']
            edges = [('X', 'A'), ('X', 'B'), ('P0', 'M'), ('P1', 'M'), ('M', tgt)]
            ch = [('C1', 'A', ['P0', 'P1']), ('C2', 'B', [src, 'Q1'])]
            pair = (tgt, src) if flip else (src, tgt)
            out.append(Desc(nodes, edges, ['X'], choices=ch, incompat=[pair],
                            label=f'inc-shared-derived-{tgt[0]}{src[0]}-{int(flip)}'))
    # one end of the pair is both an option of a choice and derived from an option of another choice (through a chain);
    # choice nodes created before / after the plain deriving edges (in-edge order of the shared node differs)
    for cf in (False, True):
        for third in (False, True):
            nodes = ['X', 'B0', 'B1', 'E0', 'E1', 'I', 'L0', 'L1']
            edges = [('E0', 'I'), ('I', 'L0')]
            ch = [('C1', 'X', ['B0', 'B1']), ('C2', 'X', ['E0', 'E1']), ('C3', 'X', ['L0', 'L1'])]
            if third:
                ch = ch[:2]
                nodes = [n for n in nodes if n != 'L1']
                ch.append(('C3', 'E1', ['L0', 'L1b']))
                nodes.append('L1b')
            out.append(Desc(nodes, edges, ['X'], choices=ch, incompat=[('B1', 'L0')], choices_first=cf,
                            label=f'inc-option-also-derived-{int(cf)}{int(third)}'))
    # a permanent node incompatible with a node that every option of an initially active choice derives (no admissible
    # architecture: the space has to be reported infeasible); the same below a second choice (one branch infeasible)
    for flip in (False, True):
        for perm in ('X', 'A'):
            pair = ('M', perm) if flip else (perm, 'M')
            out.append(Desc(['X', 'A', 'P0', 'P1', 'M'], [('X', 'A'), ('P0', 'M'), ('P1', 'M')], ['X'],
                            choices=[('C1', 'A', ['P0', 'P1'])], incompat=[pair], label=f'inc-permanent-vs-all-options-{perm}{int(flip)}'))
        pair = ('M', 'X') if flip else ('X', 'M')
        out.append(Desc(['X', 'A', 'B', 'Q0', 'Q1', 'P0', 'P1', 'M'], [('X', 'A'), ('X', 'B'), ('P0', 'M'), ('P1', 'M')], ['X'],
                        choices=[('C1', 'B', ['Q0', 'Q1']), ('C2', 'Q1', ['P0', 'P1'])], incompat=[pair],
                        label=f'inc-permanent-vs-all-options-nested-{int(flip)}'))
    # an option incompatible with a node that every option of another choice derives, plus an unrelated third choice
    # that is still open when the conflict is detected
    out.append(Desc(['X', 'A', 'B', 'C', 'P0', 'P1', 'M', 'T', 'S', 'Q1', 'R0', 'R1'],
                    [('X', 'A'), ('X', 'B'), ('X', 'C'), ('P0', 'M'), ('P1', 'M'), ('M', 'T')], ['X'],
                    choices=[('C1', 'A', ['P0', 'P1']), ('C2', 'B', ['S', 'Q1']), ('C3', 'C', ['R0', 'R1'])],
                    incompat=[('S', 'T')], label='inc-all-options-derive-with-open-third-choice'))
    # an option that activates a sub-choice all of whose options are incompatible with it (dead option), alone and
    # with design variables that multiply the rows
    for with_dv in (False, True):
        out.append(Desc(['S', 'A0', 'A1', 'A2', 'B0', 'B1'], [], ['S'],
                        choices=[('CA', 'S', ['A0', 'A1', 'A2']), ('CB', 'A1', ['B0', 'B1'])],
                        incompat=[('A1', 'B0'), ('A1', 'B1')],
                        dvs=[('dq', 'S', None, ['x', 'y']), ('dr', 'A2', None, ['u', 'v'])] if with_dv else (),
                        label=f'inc-dead-option-all-suboptions-conflict-{int(with_dv)}'))
    out.append(Desc(['S', 'A0', 'A1', 'M', 'B0', 'B1', 'T'], [('A1', 'M'), ('A1', 'T')], ['S'],
                    choices=[('CA', 'S', ['A0', 'A1']), ('CB', 'M', ['B0', 'B1'])],
                    incompat=[('T', 'B0'), ('T', 'B1')], label='inc-dead-option-via-derived-nodes'))
    # two constraints leaving the same option: one target is derived by every option of another choice (conflict that
    # cannot be avoided), the other one is harmless
    for flip in (False, True):
        two_pairs = [('S', 'T'), ('S', 'R0')]
        out.append(Desc(['X', 'A', 'B', 'C', 'S', 'Q1', 'P0', 'P1', 'M', 'T', 'R0', 'R1'],
                        [('X', 'A'), ('X', 'B'), ('X', 'C'), ('P0', 'M'), ('P1', 'M'), ('M', 'T')], ['X'],
                        choices=[('C1', 'A', ['S', 'Q1']), ('C2', 'B', ['P0', 'P1']), ('C3', 'C', ['R0', 'R1'])],
                        incompat=two_pairs[::-1] if flip else two_pairs, label=f'inc-two-constraints-one-unavoidable-{int(flip)}'))
    # two constraints leaving options of the same choice, their targets derived by overlapping sets of options of a
    # second choice; a node shared by those options carries a nested choice (the upstream search for the derivers of
    # X1 and of X2 visits the same nodes with different sets of removed edges)
    out.append(Desc(['S', 'O1', 'O2', 'A1', 'A2', 'A3', 'P1', 'P2', 'P3', 'X1', 'X2', 'W', 'U', 'V'],
                    [('S', 'O1'), ('S', 'O2'), ('P1', 'X1'), ('P2', 'X1'), ('P1', 'X2'), ('P1', 'W'), ('P2', 'W')], ['S'],
                    choices=[('C1', 'O1', ['A1', 'A2', 'A3']), ('C2', 'O2', ['P1', 'P2', 'P3']), ('C9', 'W', ['U', 'V'])],
                    incompat=[('A1', 'X1'), ('A2', 'X2')], label='inc-two-constraints-overlapping-derivers-shared-nested-choice'))
    # one option (P) excludes two options of another choice (T1, T2) that share a derived node Y carrying a nested
    # choice; two further options exclude one of them each: what is removed together with T1 / T2 depends on which
    # other nodes are removed at the same time
    out.append(Desc(['S', 'X', 'P', 'A', 'B', 'T1', 'T2', 'W', 'Y', 'Y1', 'Y2'], [('S', 'X'), ('T1', 'Y'), ('T2', 'Y')], ['S'],
                    choices=[('C1', 'S', ['P', 'A', 'B']), ('C2', 'X', ['T1', 'T2', 'W']), ('C3', 'Y', ['Y1', 'Y2'])],
                    incompat=[('P', 'T1'), ('P', 'T2'), ('A', 'T2'), ('B', 'T1')],
                    label='inc-one-option-excludes-two-with-shared-derived-choice'))
    # a node that derives the very node it is incompatible with (below an option: that option can never be feasible),
    # once more below a nested choice; the conflict has a derivation edge between its two ends
    out.append(Desc(['S', 'A', 'B', 'F', 'G', 'K', 'P', 'Q', 'R', 'T'], [('A', 'F'), ('F', 'G'), ('B', 'K'), ('P', 'R'), ('Q', 'T')], ['S'],
                    choices=[('C1', 'S', ['A', 'B']), ('C2', 'K', ['P', 'Q'])], incompat=[('F', 'G'), ('P', 'R')],
                    label='inc-node-derives-its-incompatible-node'))
    out.append(Desc(['S', 'A', 'B', 'G'], [('A', 'G')], ['S'], choices=[('C1', 'S', ['A', 'B'])], incompat=[('G', 'A')],
                    label='inc-option-derives-its-incompatible-node'))
    # incompatibility with a start node / between two permanent nodes (infeasible space) / option vs permanent
    out.append(Desc(['A', 'B', 'P0', 'P1'], [('A', 'B')], ['A'], choices=[('C1', 'A', ['P0', 'P1'])],
                    incompat=[('A', 'P0')], label='inc-start-vs-option'))
    out.append(Desc(['A', 'B', 'P0', 'P1'], [('A', 'B')], ['A'], choices=[('C1', 'A', ['P0', 'P1'])],
                    incompat=[('A', 'B')], label='inc-permanent-pair'))
    out.append(Desc(['A', 'B', 'P0', 'P1', 'D'], [('A', 'B'), ('P1', 'D')], ['A'], choices=[('C1', 'A', ['P0', 'P1'])],
                    incompat=[('B', 'D')], label='inc-derived-vs-permanent'))
    for name, nodes, edges, start, choices in base:
        out.append(Desc(nodes, edges, start, choices=choices, label=f'inc-{name}-none'))
        for i, ps in enumerate(pairs[name]):
            out.append(Desc(nodes, edges, start, choices=choices, incompat=ps, label=f'inc-{name}-{i}'))
    return out


def family_con(tier='quick'):
    """CON: choice constraints: type x 2-3 choices x 2-4 options x {all permanent, hierarchical, mutually exclusive}."""
    out = []
    for ctype in ('LINKED', 'PERMUTATION', 'UNORDERED', 'UNORDERED_NOREPL'):
        for nch in (2, 3):
            for nopt in ((2, 3) if tier == 'quick' else (2, 3, 4)):
                # all permanent: origins A1..An below the start node
                nodes = ['S'] + [f'A{i}' for i in range(nch)]
                edges = [('S', f'A{i}') for i in range(nch)]
                choices = []
                for i in range(nch):
                    opts = [f'c{i}o{j}' for j in range(nopt)]
                    nodes += opts
                    choices.append((f'C{i + 1}', f'A{i}', opts))
                out.append(Desc(nodes, edges, ['S'], choices=choices,
                                constraints=[(ctype, [c[0] for c in choices])],
                                label=f'con-{ctype}-perm-{nch}x{nopt}'))
            # hierarchical: second constrained choice only active under option 1 of an unconstrained top choice
            nopt = 3
            nodes = ['S', 'A0', 'T0', 'T1']
            edges = [('S', 'A0')]
            choices = [('C0', 'S', ['T0', 'T1'])]
            cons = []
            o0 = [f'c0o{j}' for j in range(nopt)]
            nodes += o0
            choices.append(('C1', 'A0', o0))
            cons.append('C1')
            o1 = [f'c1o{j}' for j in range(nopt)]
            nodes += o1
            choices.append(('C2', 'T1', o1))
            cons.append('C2')
            if nch == 3:
                o2 = [f'c2o{j}' for j in range(nopt)]
                nodes += o2
                choices.append(('C3', 'T0', o2))
                cons.append('C3')
            out.append(Desc(nodes, edges, ['S'], choices=choices, constraints=[(ctype, cons)],
                            label=f'con-{ctype}-hier-{nch}'))
    # unequal option counts (LINKED / PERMUTATION only: the UNORDERED types demand equal counts): 2/3/3 and 3/2/4
    for ctype in ('LINKED', 'PERMUTATION'):
        for counts in ((2, 3, 3), (3, 2, 4), (2, 3)):
            nodes = ['S'] + [f'A{i}' for i in range(len(counts))]
            edges = [('S', f'A{i}') for i in range(len(counts))]
            choices = []
            for i, k in enumerate(counts):
                opts = [f'c{i}o{j}' for j in range(k)]
                nodes += opts
                choices.append((f'C{i + 1}', f'A{i}', opts))
            out.append(Desc(nodes, edges, ['S'], choices=choices, constraints=[(ctype, [c[0] for c in choices])],
                            label=f'con-{ctype}-perm-unequal-{"x".join(map(str, counts))}'))
    return out


def family_conpart(tier='quick'):
    """CONPART: graphs that already carry a choice constraint and still have unconstrained choices (copies of such
    graphs must own their constraint list)."""
    out = []
    for ctype in ('LINKED', 'UNORDERED'):
        nodes = ['S'] + [f'A{i}' for i in range(4)]
        edges = [('S', f'A{i}') for i in range(4)]
        choices = []
        for i in range(4):
            opts = [f'c{i}o{j}' for j in range(2)]
            nodes += opts
            choices.append((f'C{i + 1}', f'A{i}', opts))
        out.append(Desc(nodes, edges, ['S'], choices=choices, constraints=[(ctype, ['C1', 'C2'])],
                        label=f'conpart-{ctype}'))
    return out


def family_dvmet(tier='quick'):
    """DV/MET: design-variable and metric nodes under permanent and conditional nodes."""
    out = []
    base_nodes = ['A', 'B', 'P0', 'P1']
    base_edges = [('A', 'B')]
    ch = [('C1', 'A', ['P0', 'P1'])]
    dv_sets = [
        [('dvc', 'B', (0.0, 2.0), None)],
        [('dvd', 'B', None, ['x', 'y', 'z'])],
        [('dvc', 'P0', (-1.0, 1.0), None), ('dvd', 'P1', None, ['x', 'y'])],
        [('dv1', 'B', None, ['x', 'y']), ('dv2', 'P1', (1.0, 3.0), None), ('dv3', 'P0', None, ['u', 'v', 'w'])],
    ]
    for i, dvs in enumerate(dv_sets):
        out.append(Desc(base_nodes, base_edges, ['A'], choices=ch, dvs=dvs, label=f'dv-{i}'))
    # linked design-variable nodes: equal option counts / continuous / under different options / unequal counts
    out.append(Desc(base_nodes, base_edges, ['A'], choices=ch, constraints=[('LINKED', ['dl1', 'dl2'])],
                    dvs=[('dl1', 'B', None, ['x', 'y', 'z']), ('dl2', 'A', None, ['u', 'v', 'w'])], label='dv-linked-discrete'))
    out.append(Desc(base_nodes, base_edges, ['A'], choices=ch, constraints=[('LINKED', ['dl1', 'dl2'])],
                    dvs=[('dl1', 'B', (0.0, 1.0), None), ('dl2', 'A', (10.0, 30.0), None)], label='dv-linked-continuous'))
    out.append(Desc(base_nodes, base_edges, ['A'], choices=ch, constraints=[('LINKED', ['dl1', 'dl2'])],
                    dvs=[('dl1', 'P0', None, ['x', 'y']), ('dl2', 'P1', None, ['u', 'v'])], label='dv-linked-different-options'))
    out.append(Desc(base_nodes, base_edges, ['A'], choices=ch, constraints=[('LINKED', ['dl1', 'dl2'])],
                    dvs=[('dl1', 'B', None, ['x', 'y', 'z']), ('dl2', 'P1', None, ['u', 'v', 'w'])], label='dv-linked-one-conditional'))
    out.append(Desc(base_nodes, base_edges, ['A'], choices=ch, constraints=[('LINKED', ['dl1', 'dl2'])],
                    dvs=[('dl1', 'B', None, ['x', 'y', 'z']), ('dl2', 'A', None, ['u', 'v'])], label='dv-linked-unequal-counts'))
    mets = []
    k = 0
    for d in (None, -1, 1):
        for r in (None, 1.5):
            for t in (None, 'NONE', 'OBJECTIVE', 'CONSTRAINT'):
                for parent in ('B', 'P1'):
                    mets.append((f'm{k:02d}', parent, d, r, t))
                    k += 1
    # split over several graphs so that ambiguity errors (undeclared both-possible) stay attributable
    for i in range(0, len(mets), 4):
        out.append(Desc(base_nodes, base_edges, ['A'], choices=ch, metrics=mets[i:i + 4], label=f'met-{i // 4}'))
    # metrics with two parents: a permanent node and an option node (present in every architecture), two option nodes
    # of the same choice (also in every architecture), an option node and a node below the other option
    for i, (d, r, t) in enumerate(((-1, None, None), (1, 1.5, 'OBJECTIVE'), (-1, 1.5, 'CONSTRAINT'), (1, None, 'NONE'))):
        out.append(Desc(base_nodes, base_edges + [('B', 'mA'), ('P0', 'mB')], ['A'], choices=ch,
                        metrics=[('mA', 'P1', d, r, t), ('mB', 'P1', d, r, t), ('mC', 'P1', d, r, t)],
                        label=f'met-two-parents-{i}'))
    # a linked set whose second member is conditional and sorts before an independent node (variables and existence
    # flags are then indexed through different node lists)
    out.append(Desc(base_nodes, base_edges, ['A'], choices=ch, constraints=[('LINKED', ['da', 'db'])],
                    dvs=[('da', 'A', (0.0, 1.0), None), ('db', 'P0', (10.0, 30.0), None), ('dc', 'B', (-2.0, 2.0), None)],
                    label='dv-linked-conditional-member-before-independent-continuous'))
    out.append(Desc(base_nodes, base_edges, ['A'], choices=ch, constraints=[('LINKED', ['da', 'db'])],
                    dvs=[('da', 'A', None, ['x', 'y', 'z']), ('db', 'P0', None, ['u', 'v', 'w']), ('dc', 'P1', None, ['p', 'q'])],
                    label='dv-linked-conditional-member-before-independent-discrete'))
    # names that differ only in letter case (ordering keys must not tie): design-variable nodes and choices
    out.append(Desc(base_nodes, base_edges, ['A'], choices=[('mode', 'A', ['P0', 'P1']), ('Mode', 'B', ['Q0', 'Q1'])] if False else ch,
                    dvs=[('T', 'B', (0.0, 1.0), None), ('t', 'B', (10.0, 30.0), None), ('Mat', 'A', None, ['x', 'y', 'z'])],
                    label='dv-names-differ-in-case'))
    # discrete design-variable nodes with a single option (permanent and conditional) next to ordinary ones
    out.append(Desc(base_nodes, base_edges, ['A'], choices=ch,
                    dvs=[('d1', 'B', None, ['only']), ('d2', 'P0', None, ['only']), ('d3', 'A', None, ['x', 'y']), ('d4', 'P1', (0.0, 1.0), None)],
                    label='dv-single-option'))
    # three linked discrete design-variable nodes with a narrower one in the middle of the constraint order
    out.append(Desc(base_nodes, base_edges, ['A'], choices=ch, constraints=[('LINKED', ['dl1', 'dl2', 'dl3'])],
                    dvs=[('dl1', 'B', None, ['a', 'b', 'c', 'd', 'e']), ('dl2', 'A', None, ['u', 'v']),
                         ('dl3', 'B', None, ['p', 'q', 'r', 's', 't'])], label='dv-linked-three-narrow-middle'))
    out.append(Desc(base_nodes, base_edges, ['A'], choices=ch, constraints=[('LINKED', ['dl1', 'dl2', 'dl3'])],
                    dvs=[('dl1', 'B', None, ['a', 'b']), ('dl2', 'A', None, ['u', 'v', 'w', 'x']),
                         ('dl3', 'B', None, ['p', 'q', 'r'])], label='dv-linked-three-narrow-first'))
    # "double diamond": both options derive P; P reaches two shared nodes that the first option has already walked
    # (C1 directly, C2 through B2); each shared node carries a design variable that exists in every architecture
    out.append(Desc(['R', 'O1', 'O2', 'A1', 'A2', 'C1', 'C2', 'P', 'B2'],
                    [('O1', 'A1'), ('A1', 'C1'), ('O1', 'A2'), ('A2', 'C2'), ('O1', 'P'), ('P', 'C1'), ('P', 'B2'),
                     ('B2', 'C2'), ('O2', 'P')], ['R'], choices=[('X', 'R', ['O1', 'O2'])],
                    dvs=[('d1', 'C1', None, ['x', 'y', 'z']), ('d2', 'C2', (0.0, 1.0), None)],
                    label='dv-double-diamond-shared-walk'))
    # two design-variable nodes that are displayed under the same name (a "span" below the wing option and a "span"
    # below the permanent tail), discrete and continuous; a third variable of another name
    out.append(Desc(['R', 'W0', 'W1', 'T'], [('R', 'T')], ['R'], choices=[('C1', 'R', ['W0', 'W1'])],
                    dvs=[('span', 'W0', None, ['a', 'b', 'c']), ('span#2', 'T', None, ['a', 'b', 'c', 'd']), ('chord', 'T', (0.0, 2.0), None)],   # (different option lists: the nodes' context strings differ)
                    label='dv-two-nodes-same-name-discrete'))
    out.append(Desc(['R', 'W0', 'W1', 'T'], [('R', 'T')], ['R'], choices=[('C1', 'R', ['W0', 'W1'])],
                    dvs=[('span', 'T', (0.0, 1.0), None), ('span#2', 'W1', (1.0, 3.0), None), ('kind', 'T', None, ['x', 'y'])],
                    label='dv-two-nodes-same-name-continuous'))
    return out


DEG_ALPHABET = [('list', (0,)), ('list', (1,)), ('range', 0, 1), ('range', 1, 2), ('min', 0), ('min', 1),
                ('list', (0, 2)), ('list', (2,))]


def family_conn(tier='quick'):
    """CONN: connection choices with permanent / conditional connectors, grouping nodes, exclusions."""
    out = []
    rng = random.Random(777)
    specs = [(('list', (1,)), False), (('range', 0, 1), False), (('range', 1, 2), True), (('min', 0), False),
             (('min', 1), True), (('list', (0, 2)), True), (('list', (2,)), True), (('range', 0, 2), False)]
    k = 0
    # 1-2 sources x 1-2 targets, all permanent
    for ns, nt in ((1, 1), (1, 2), (2, 1), (2, 2)):
        for trial in range(4 if tier == 'quick' else 12):
            nodes = ['A']
            conns = []
            for i in range(ns):
                d, r = rng.choice(specs)
                conns.append((f's{i}', d, r, 'A'))
            for i in range(nt):
                d, r = rng.choice(specs)
                conns.append((f't{i}', d, r, 'A'))
            out.append(Desc(nodes, [], ['A'], conns=conns,
                            conn_choices=[('CC', [f's{i}' for i in range(ns)], [f't{i}' for i in range(nt)], [])],
                            label=f'conn-perm-{ns}x{nt}-{trial}'))
            k += 1
    # the shapes the pattern encoders are written for, with 3-4 targets (choose 1 of N, take M of N with and without
    # repetition, down-select, permute, partition, assign)
    one, opt_, any_ = ('list', (1,)), ('range', 0, 1), ('min', 0)
    shapes = [('choose-1-of-3', [(one, False)], [(opt_, False)] * 3), ('choose-1-of-4', [(one, False)], [(opt_, False)] * 4),
              ('take-2-of-3', [(('list', (2,)), False)], [(opt_, False)] * 3), ('take-2-of-4', [(('list', (2,)), False)], [(opt_, False)] * 4),
              ('take-3-of-4', [(('list', (3,)), False)], [(opt_, False)] * 4),
              ('take-2-of-3-repeated', [(('list', (2,)), True)], [(any_, True)] * 3),
              ('downselect-3', [(any_, False)], [(opt_, False)] * 3), ('permute-3', [(one, False)] * 3, [(one, False)] * 3),
              ('partition-2x3', [(any_, False)] * 2, [(one, False)] * 3), ('assign-2x3', [(any_, False)] * 2, [(any_, False)] * 3)]
    for name, ss, ts in (shapes if tier == 'thorough' else shapes[:3] + shapes[3:8:2] + shapes[8:]):
        conns = [(f's{i}', d, r, 'A') for i, (d, r) in enumerate(ss)] + [(f't{i}', d, r, 'A') for i, (d, r) in enumerate(ts)]
        out.append(Desc(['A'], [], ['A'], conns=conns,
                        conn_choices=[('CC', [f's{i}' for i in range(len(ss))], [f't{i}' for i in range(len(ts))], [])],
                        label=f'conn-shape-{name}'))
    # conditional connectors: source s1 / target t1 tied to options of a selection choice
    for trial in range(6 if tier == 'quick' else 20):
        nodes = ['A', 'P0', 'P1']
        d0, r0 = rng.choice(specs)
        d1, r1 = rng.choice(specs)
        d2, r2 = rng.choice(specs)
        d3, r3 = rng.choice(specs)
        conns = [('s0', d0, r0, 'A'), ('s1', d1, r1, 'P0'), ('t0', d2, r2, 'A'), ('t1', d3, r3, 'P1')]
        out.append(Desc(nodes, [], ['A'], choices=[('C1', 'A', ['P0', 'P1'])], conns=conns,
                        conn_choices=[('CC', ['s0', 's1'], ['t0', 't1'], [])], label=f'conn-cond-{trial}'))
    # exclusion edges
    for trial in range(3 if tier == 'quick' else 10):
        conns = [('s0', ('range', 0, 2), True, 'A'), ('s1', ('range', 0, 1), False, 'A'),
                 ('t0', ('min', 0), True, 'A'), ('t1', rng.choice(specs)[0], True, 'A')]
        excl = [('s0', 't0')] if trial % 2 == 0 else [('s0', 't1'), ('s1', 't0')]
        out.append(Desc(['A'], [], ['A'], conns=conns, conn_choices=[('CC', ['s0', 's1'], ['t0', 't1'], excl)],
                        label=f'conn-excl-{trial}'))
    # several exclusion edges of which an earlier one touches a conditional connector
    opt = ('range', 0, 1)
    for trial, excl in enumerate(([('sA', 't1'), ('sB', 't2')], [('sB', 't2'), ('sA', 't1')], [('sA', 't1'), ('sA', 't2'), ('sB', 't1')])):
        out.append(Desc(['A', 'P0', 'P1'], [], ['A'], choices=[('C1', 'A', ['P0', 'P1'])],
                        conns=[('sA', opt, False, 'P0'), ('sB', opt, False, 'A'), ('t1', opt, False, 'A'), ('t2', opt, False, 'A')],
                        conn_choices=[('CC', ['sA', 'sB'], ['t1', 't2'], excl)], label=f'conn-excl-cond-{trial}'))
    # exclusion edge behind a conditional *target* that sorts before the excluded target (and behind a conditional source)
    one = ('list', (1,))
    for trial, excl in enumerate(([('s0', 't1')], [('s0', 't2')], [('s1', 't1'), ('s0', 't2')])):
        out.append(Desc(['A', 'P0', 'P1'], [], ['A'], choices=[('C1', 'A', ['P0', 'P1'])],
                        conns=[('s0', one, False, 'A'), ('s1', one, False, 'A'), ('t0', opt, False, 'P0'), ('t1', opt, False, 'A'), ('t2', opt, False, 'A')],
                        conn_choices=[('CC', ['s0', 's1'], ['t0', 't1', 't2'], excl)], label=f'conn-excl-cond-target-{trial}'))
    out.append(Desc(['A', 'P0', 'P1'], [], ['A'], choices=[('C1', 'A', ['P0', 'P1'])],
                    conns=[('s0', opt, False, 'P0'), ('s1', one, False, 'A'), ('s2', opt, False, 'A'), ('t0', opt, False, 'P1'), ('t1', ('min', 0), False, 'A'), ('t2', opt, False, 'A')],
                    conn_choices=[('CC', ['s0', 's1', 's2'], ['t0', 't1', 't2'], [('s1', 't1'), ('s2', 't2')])], label='conn-excl-cond-both-sides'))
    # grouping node over a permanent and a conditional member (the documented example shape)
    for trial in range(3 if tier == 'quick' else 8):
        dm = [(('range', 1, 2), False), (('list', (1,)), False), (('range', 0, 1), False)][trial % 3]
        conns = [('g1', dm[0], dm[1], 'A'), ('g2', dm[0], dm[1], 'P0'), ('s1', ('range', 0, 1), False, 'A'),
                 ('t0', ('min', 0), True, 'A'), ('t1', ('min', 0), True, 'A')]
        out.append(Desc(['A', 'P0', 'P1'], [], ['A'], choices=[('C1', 'A', ['P0', 'P1'])], conns=conns,
                        groups=[('G', ['g1', 'g2'])],
                        conn_choices=[('CC', ['G', 's1'], ['t0', 't1'], [])], label=f'conn-group-{trial}'))
    # grouping node with unbounded members (its per-scenario degree range is capped from the connection limits) and
    # three targets; members permanent+conditional / both conditional under different options; group on the target side
    o1 = ('range', 0, 1)
    for trial, (da, ra, db_, rb, pa, pb) in enumerate(((('min', 1), False, ('min', 0), False, 'A', 'P0'),
                                                       (('min', 1), False, ('min', 0), False, 'P0', 'P1'),
                                                       (('min', 1), True, ('min', 0), True, 'P0', 'P1'),
                                                       (('min', 0), False, ('range', 0, 1), False, 'A', 'P0'),
                                                       (('min', 1), False, ('list', (1, 2)), False, 'P0', 'P1'),
                                                       (('list', (1, 2)), False, ('min', 0), False, 'A', 'P0'))):
        if tier == 'quick' and trial == 2:
            continue
        conns = [('g1', da, ra, pa), ('g2', db_, rb, pb), ('t0', o1, False, 'A'), ('t1', o1, False, 'A'), ('t2', o1, False, 'A')]
        out.append(Desc(['A', 'P0', 'P1'], [], ['A'], choices=[('C1', 'A', ['P0', 'P1'])], conns=conns,
                        groups=[('G', ['g1', 'g2'])], conn_choices=[('CC', ['G'], ['t0', 't1', 't2'], [])],
                        label=f'conn-group-unbounded-{trial}'))
    # grouping node whose conditional member decides whether zero connections are allowed, on a connection choice whose
    # only target sits below an option of another choice (the choice can be left without anything to connect to)
    for trial, (d1, d2) in enumerate(((('range', 0, 1), ('list', (1,))), (('list', (0,)), ('range', 1, 2)), (('range', 0, 1), ('min', 1)))):
        out.append(Desc(['A', 'P0', 'P1', 'Q0', 'Q1'], [], ['A'],
                        choices=[('C1', 'A', ['P0', 'P1']), ('C2', 'A', ['Q0', 'Q1'])],
                        conns=[('g1', d1, False, 'A'), ('g2', d2, False, 'P0'), ('t0', ('min', 0), True, 'Q0')],
                        groups=[('G', ['g1', 'g2'])], conn_choices=[('CC', ['G'], ['t0'], [])],
                        label=f'conn-group-conditional-target-{trial}'))
    # grouping node over members with gapped degree lists and no unbounded member (its degrees are the sums, not
    # the range between the extreme sums), on the target and on the source side
    for trial, (d1, d2) in enumerate(((('list', (0, 2)), ('list', (1,))), (('list', (1, 3)), ('list', (0, 2))))):
        out.append(Desc(['A', 'P0', 'P1'], [], ['A'], choices=[('C1', 'A', ['P0', 'P1'])],
                        conns=[('s0', o1, False, 'A'), ('s1', o1, False, 'A'), ('s2', o1, False, 'A'),
                               ('g1', d1, False, 'A'), ('g2', d2, False, 'P0')],
                        groups=[('G', ['g1', 'g2'])], conn_choices=[('CC', ['s0', 's1', 's2'], ['G'], [])],
                        label=f'conn-group-gapped-target-{trial}'))
        out.append(Desc(['A', 'P0', 'P1'], [], ['A'], choices=[('C1', 'A', ['P0', 'P1'])],
                        conns=[('t0', o1, False, 'A'), ('t1', o1, False, 'A'), ('t2', o1, False, 'A'),
                               ('g1', d1, False, 'A'), ('g2', d2, False, 'P0')],
                        groups=[('G', ['g1', 'g2'])], conn_choices=[('CC', ['G'], ['t0', 't1', 't2'], [])],
                        label=f'conn-group-gapped-source-{trial}'))
    conns = [('s0', o1, False, 'A'), ('s1', o1, False, 'A'), ('s2', o1, False, 'A'), ('g1', ('min', 1), False, 'A'), ('g2', ('min', 0), False, 'P0')]
    out.append(Desc(['A', 'P0', 'P1'], [], ['A'], choices=[('C1', 'A', ['P0', 'P1'])], conns=conns,
                    groups=[('G', ['g1', 'g2'])], conn_choices=[('CC', ['s0', 's1', 's2'], ['G'], [])],
                    label='conn-group-unbounded-target-side'))
    return out


def family_conn2(tier='quick'):
    """CONN2: two connection choices active together (instance cache keys, accumulated infeasibility masks)."""
    out = []
    opt = ('range', 0, 1)
    # two permanent connection choices, 2 sources x 1-2 targets each
    out.append(Desc(['A'], [], ['A'],
                    conns=[('a0', opt, False, 'A'), ('a1', opt, False, 'A'), ('b0', ('min', 0), True, 'A'),
                           ('c0', opt, False, 'A'), ('c1', opt, False, 'A'), ('d0', ('min', 0), True, 'A')],
                    conn_choices=[('K1', ['a0', 'a1'], ['b0'], []), ('K2', ['c0', 'c1'], ['d0'], [])],
                    label='conn2-perm'))
    # with a selection choice; K1 has a conditional target whose absence leaves no valid connection set
    out.append(Desc(['A', 'P0', 'P1'], [], ['A'], choices=[('C1', 'A', ['P0', 'P1'])],
                    conns=[('a0', ('list', (2,)), False, 'A'), ('b0', opt, False, 'A'), ('b1', opt, False, 'P0'),
                           ('c0', opt, False, 'A'), ('c1', opt, False, 'A'), ('d0', ('min', 0), True, 'A')],
                    conn_choices=[('K1', ['a0'], ['b0', 'b1'], []), ('K2', ['c0', 'c1'], ['d0'], [])],
                    label='conn2-first-infeasible-pattern'))
    out.append(Desc(['A', 'P0', 'P1'], [], ['A'], choices=[('C1', 'A', ['P0', 'P1'])],
                    conns=[('c0', opt, False, 'A'), ('c1', opt, False, 'A'), ('d0', ('min', 0), True, 'A'),
                           ('e0', ('list', (2,)), False, 'A'), ('f0', opt, False, 'A'), ('f1', opt, False, 'P0')],
                    conn_choices=[('K1', ['c0', 'c1'], ['d0'], []), ('K2', ['e0'], ['f0', 'f1'], [])],
                    label='conn2-last-infeasible-pattern'))
    # second connection choice conditional on an option
    out.append(Desc(['A', 'P0', 'P1'], [], ['A'], choices=[('C1', 'A', ['P0', 'P1'])],
                    conns=[('a0', opt, False, 'A'), ('a1', opt, False, 'A'), ('b0', ('min', 0), True, 'A'),
                           ('c0', ('range', 1, 2), True, 'P1'), ('d0', ('min', 0), True, 'P1'), ('d1', opt, False, 'P1')],
                    conn_choices=[('K1', ['a0', 'a1'], ['b0'], []), ('K2', ['c0'], ['d0', 'd1'], [])],
                    label='conn2-second-conditional'))
    # three (and four) connection choices active in the same architecture
    one = ('list', (1,))
    for nk in (3, 4):
        conns, ccs = [], []
        for q in range(nk):
            conns += [(f's{q}', one, False, 'A'), (f't{q}a', opt, False, 'A'), (f't{q}b', opt, False, 'A')]
            ccs.append((f'K{q + 1}', [f's{q}'], [f't{q}a', f't{q}b'], []))
        out.append(Desc(['A'], [], ['A'], conns=conns, conn_choices=ccs, label=f'conn{nk}-perm'))
    # three connection choices of which the middle one only exists under one option
    out.append(Desc(['A', 'P0', 'P1'], [], ['A'], choices=[('C1', 'A', ['P0', 'P1'])],
                    conns=[('s0', one, False, 'A'), ('t0a', opt, False, 'A'), ('t0b', opt, False, 'A'),
                           ('s1', one, False, 'P1'), ('t1a', opt, False, 'P1'), ('t1b', opt, False, 'P1'),
                           ('s2', one, False, 'A'), ('t2a', opt, False, 'A'), ('t2b', opt, False, 'A')],
                    conn_choices=[('K1', ['s0'], ['t0a', 't0b'], []), ('K2', ['s1'], ['t1a', 't1b'], []),
                                  ('K3', ['s2'], ['t2a', 't2b'], [])], label='conn3-middle-conditional'))
    # a design space without any selection choice: one connection choice and a metric on the permanent node (decoded
    # instances are then all derived from the same base graph object)
    out.append(Desc(['A'], [], ['A'],
                    conns=[('a0', opt, False, 'A'), ('a1', opt, False, 'A'), ('b0', opt, False, 'A'), ('b1', opt, False, 'A')],
                    conn_choices=[('K1', ['a0', 'a1'], ['b0', 'b1'], [])], metrics=[('mass', 'A', -1, None, None)],
                    label='conn-only-with-metric-no-selection-choice'))
    # two connection problems of one graph that look alike: same shapes and degrees, they differ only in WHICH pair is
    # excluded / in whether parallel connections are allowed (everything the library memoises per connection problem,
    # in memory or on disk, has to tell them apart)
    out.append(Desc(['A'], [], ['A'],
                    conns=[('a0', opt, False, 'A'), ('a1', opt, False, 'A'), ('b0', opt, False, 'A'), ('b1', opt, False, 'A'),
                           ('c0', opt, False, 'A'), ('c1', opt, False, 'A'), ('d0', opt, False, 'A'), ('d1', opt, False, 'A')],
                    conn_choices=[('K1', ['a0', 'a1'], ['b0', 'b1'], [('a0', 'b0')]),
                                  ('K2', ['c0', 'c1'], ['d0', 'd1'], [('c0', 'd1')])],
                    label='conn2-lookalike-excluded-pair'))
    anyn = ('min', 0)
    out.append(Desc(['A'], [], ['A'],
                    conns=[('a0', anyn, True, 'A'), ('b0', anyn, True, 'A'), ('b1', anyn, True, 'A'),
                           ('c0', anyn, False, 'A'), ('d0', anyn, False, 'A'), ('d1', anyn, False, 'A')],
                    conn_choices=[('K1', ['a0'], ['b0', 'b1'], []), ('K2', ['c0'], ['d0', 'd1'], [])],
                    label='conn2-lookalike-repeat-flag'))
    return out


def family_forced(tier='quick'):
    """FORCED: selection choices without a design variable (LINKED members, choices forced by incompatibilities)
    placed before free / conditional choices, so that choice index and variable index differ."""
    out = []
    # C1, C2 linked to C1 (forced), C3 conditional below the first option of C1, C4 free and permanent
    nodes = ['S', 'A1', 'A2', 'A4', 'p0', 'p1', 'q0', 'q1', 'r0', 'r1', 'r2', 'u0', 'u1', 'u2']
    edges = [('S', 'A1'), ('S', 'A2'), ('S', 'A4')]
    ch = [('C1', 'A1', ['p0', 'p1']), ('C2', 'A2', ['q0', 'q1']), ('C3', 'p0', ['r0', 'r1', 'r2']),
          ('C4', 'A4', ['u0', 'u1', 'u2'])]
    out.append(Desc(nodes, edges, ['S'], choices=ch, constraints=[('LINKED', ['C1', 'C2'])],
                    label='forced-linked-then-conditional'))
    # C2 forced through two incompatibility constraints, then a free three-option C3
    nodes = ['S', 'A1', 'A2', 'A3', 'p0', 'p1', 'q0', 'q1', 'r0', 'r1', 'r2']
    edges = [('S', 'A1'), ('S', 'A2'), ('S', 'A3')]
    ch = [('C1', 'A1', ['p0', 'p1']), ('C2', 'A2', ['q0', 'q1']), ('C3', 'A3', ['r0', 'r1', 'r2'])]
    out.append(Desc(nodes, edges, ['S'], choices=ch, incompat=[('p0', 'q1'), ('p1', 'q0')],
                    label='forced-by-incompat-then-free'))
    # linked pair after a free choice; conditional choice under the linked one
    nodes = ['S', 'A0', 'A1', 'A2', 'z0', 'z1', 'p0', 'p1', 'q0', 'q1', 'r0', 'r1']
    edges = [('S', 'A0'), ('S', 'A1'), ('S', 'A2')]
    ch = [('C0', 'A0', ['z0', 'z1']), ('C1', 'A1', ['p0', 'p1']), ('C2', 'A2', ['q0', 'q1']), ('C3', 'q1', ['r0', 'r1'])]
    out.append(Desc(nodes, edges, ['S'], choices=ch, constraints=[('LINKED', ['C1', 'C2'])],
                    label='free-then-linked-then-conditional'))
    return out


def family_conx(tier='quick'):
    """CONX: constrained choices that are mutually exclusive or where the first constrained choice can be inactive
    while a later one is active."""
    out = []
    for ctype in ('LINKED', 'PERMUTATION', 'UNORDERED', 'UNORDERED_NOREPL'):
        # mutually exclusive: C1 under option T0, C2 under option T1 of an unconstrained top choice
        nodes = ['S', 'T0', 'T1', 'a0', 'a1', 'a2', 'b0', 'b1', 'b2']
        ch = [('C0', 'S', ['T0', 'T1']), ('C1', 'T0', ['a0', 'a1', 'a2']), ('C2', 'T1', ['b0', 'b1', 'b2'])]
        out.append(Desc(nodes, [], ['S'], choices=ch, constraints=[(ctype, ['C1', 'C2'])],
                        label=f'conx-{ctype}-exclusive'))
        # parent option j activates constrained choices j.. (first constrained choice inactive, later ones active)
        nodes = ['S', 'T0', 'T1', 'T2', 'M1', 'M2', 'M3']
        edges = [('T0', 'M1'), ('T0', 'M2'), ('T0', 'M3'), ('T1', 'M2'), ('T1', 'M3'), ('T2', 'M3')]
        ch = [('C0', 'S', ['T0', 'T1', 'T2'])]
        for i in (1, 2, 3):
            opts = [f'c{i}o{j}' for j in range(3)]
            nodes += opts
            ch.append((f'C{i}', f'M{i}', opts))
        out.append(Desc(nodes, edges, ['S'], choices=ch, constraints=[(ctype, ['C1', 'C2', 'C3'])],
                        label=f'conx-{ctype}-first-inactive'))
        # constrained choices on different hierarchy levels whose name order is the reverse of their level order:
        # 'B' is permanent (level 0), 'A' only becomes active under option T1 of 'X' (level 1)
        nodes = ['S', 'OB', 'T0', 'T1', 'OA', 'a0', 'a1', 'a2', 'b0', 'b1', 'b2']
        edges = [('S', 'OB'), ('T1', 'OA')]
        ch = [('X', 'S', ['T0', 'T1']), ('B', 'OB', ['b0', 'b1', 'b2']), ('A', 'OA', ['a0', 'a1', 'a2'])]
        out.append(Desc(nodes, edges, ['S'], choices=ch, constraints=[(ctype, ['A', 'B'])],
                        label=f'conx-{ctype}-deep-sorts-first'))
    return out


def family_mix(tier='quick'):
    """MIX: seeded random graphs that combine the ingredients of the other families on a larger scale: 3-5 selection
    choices nested up to three levels (some options derive shared nodes), 0-2 incompatibility pairs, optionally one
    choice constraint over choices with equal option counts, design-variable and metric nodes under random nodes, and
    optionally one connection choice whose connectors hang below random nodes."""
    n = 14          # both tiers: every member was triaged on the pinned tree (a larger sample re-labels known defects)
    rng = random.Random(424242)
    out = []
    for k in range(n):
        nodes = ['S']
        edges = []
        choices = []
        frontier = [('S', 0)]
        nc = 0
        depth = rng.randint(2, 3)
        placed = ['S']
        while frontier and nc < rng.randint(3, 5):
            origin, lvl = frontier.pop(0)
            if lvl >= depth:
                continue
            nc += 1
            nopt = rng.choice([2, 2, 3])
            opts = [f'c{nc}o{i}' for i in range(nopt)]
            nodes += opts
            choices.append((f'C{nc}', origin, opts))
            for o in opts:
                placed.append(o)
                r = rng.random()
                if r < 0.45:
                    d = f'{o}d'
                    nodes.append(d)
                    edges.append((o, d))
                    placed.append(d)
                    frontier.append((d, lvl + 1))
                elif r < 0.75:
                    frontier.append((o, lvl + 1))
            rng.shuffle(frontier)
        # shared derived node: two options of different choices derive the same node
        derived = [x for x in nodes if x.endswith('d')]
        optnodes = [o for c in choices for o in c[2]]
        if derived and len(optnodes) >= 3 and rng.random() < 0.6:
            tgt = rng.choice(derived)
            src = rng.choice([o for o in optnodes if o + 'd' != tgt])
            if (src, tgt) not in edges:
                edges.append((src, tgt))
        incompat = []
        for _ in range(rng.choice([0, 0, 1, 1, 2])):
            a, b_ = rng.sample([x for x in nodes if x != 'S'], 2)
            incompat.append((a, b_))
        constraints = []
        by_count = {}
        for c in choices:
            by_count.setdefault(len(c[2]), []).append(c[0])
        cand = [v for v in by_count.values() if len(v) >= 2]
        if cand and rng.random() < 0.5:
            grp = rng.choice(cand)
            m = rng.randint(2, min(3, len(grp)))
            constraints.append((rng.choice(['LINKED', 'PERMUTATION', 'UNORDERED', 'UNORDERED_NOREPL']), sorted(rng.sample(grp, m))))
        dvs, mets = [], []
        for i in range(rng.choice([0, 1, 2])):
            parent = rng.choice(placed)
            if rng.random() < 0.5:
                dvs.append((f'dv{i}', parent, None, ['x', 'y', 'z'][:rng.randint(2, 3)]))
            else:
                dvs.append((f'dv{i}', parent, (0.0, float(rng.randint(1, 4))), None))
        for i in range(rng.choice([0, 1, 2])):
            parent = rng.choice(placed)
            mets.append((f'm{i}', parent, rng.choice([None, -1, 1]), rng.choice([None, 1.5]), rng.choice([None, 'NONE'])))
        conns, ccs = [], []
        if rng.random() < 0.5:
            specs = [(('list', (1,)), False), (('range', 0, 1), False), (('min', 0), True), (('range', 1, 2), True), (('min', 1), False)]
            ns, nt = rng.randint(1, 2), rng.randint(1, 3)
            for i in range(ns):
                d, r = rng.choice(specs)
                conns.append((f's{i}', d, r, rng.choice(placed)))
            for i in range(nt):
                d, r = rng.choice(specs)
                conns.append((f't{i}', d, r, rng.choice(placed)))
            ccs.append(('K1', [f's{i}' for i in range(ns)], [f't{i}' for i in range(nt)], []))
        out.append(Desc(nodes, edges, ['S'], choices=choices, incompat=incompat, constraints=constraints, conns=conns,
                        conn_choices=ccs, dvs=dvs, metrics=[m for m in mets if not (m[2] is not None and m[3] is not None and m[4] is None)],
                        label=f'mix-{k}'))
    return out
