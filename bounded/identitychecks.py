"""Run-time contracts for C18 (identity, equality, serialization) and C20 (supplementary graphs)."""
import os
import pickle
import subprocess
import sys
import tempfile

from . import gen, specsem
from .harness import Ctx, all_vectors, digest
from .decode import make_processor, obs_arch


def identity_member(desc, tier, seed):
    from adsg_core.graph.adsg_nodes import NamedNode, SelectionChoiceNode
    from adsg_core.graph.graph_edges import EdgeType
    from adsg_core.graph.choice_constraints import ChoiceConstraintType
    ctx = Ctx(desc)
    try:
        b = gen.Built(desc)
    except Exception:
        return ctx.result()
    g = b.dsg
    wit = ['graph-api', 'copy']
    nt = (desc.label,)
    same_display_names = any('#' in d.name for d in desc.dvs)
    h0, f0 = hash(g), g.fingerprint()
    try:
        snapshot = pickle.dumps(g)
    except Exception:  # noqa
        snapshot = None
    c = g.copy()
    ctx.check('C18.copy-equal', c == g and g == c, wit, 'copy is not equal to the original', nt)
    ctx.check('C18.copy-same-hash', hash(c) == hash(g), wit, 'copy has another hash', nt)
    ctx.check('C18.copy-is-same', c.is_same(g) and c.fingerprint() == g.fingerprint(), wit, 'copy has another fingerprint', nt)
    # the same description built again (new node objects): recognised as the same design space
    try:
        b2 = gen.Built(desc)
        ctx.check('C18.rebuilt-is-same', b2.dsg.is_same(g) and g.is_same(b2.dsg) and b2.dsg.fingerprint() == f0,
                  ['graph-api', 'rebuild'], 'a graph built again from the same description is not recognised as the same '
                  '(is_same / fingerprint differ)', (desc.label, 'rebuild'))
    except Exception as e:  # noqa
        ctx.check('C18.rebuilt-is-same', False, ['graph-api', 'rebuild'], f'{type(e).__name__}: {e}', (desc.label, 'rebuild'))
    # single structural edits on a copy make it unequal
    edits = []
    extra = NamedNode('__extra__')
    some = next(iter(g.graph.nodes))
    try:
        e1 = g.copy()
        e1.add_edge(some, extra)
        edits.append(('add-node-and-edge', e1))
    except Exception:
        pass
    try:
        e2 = g.copy()
        e2.add_node(NamedNode('__lonely__'))
        edits.append(('add-node', e2))
    except Exception:
        pass
    edges = list(g.graph.edges(keys=True, data=True))
    if edges:
        u, v, k, d = edges[0]
        try:
            from adsg_core.graph.graph_edges import get_edge_for_type
            e3 = g.get_for_adjusted(removed_edges={edges_0 for edges_0 in [tuple(g_e) for g_e in [next(iter(g.graph.edges(keys=True, data=True)))]]} if False else None)
        except Exception:
            e3 = None
        try:
            e4 = g.copy()
            e4.graph.remove_edge(u, v, k)
            edits.append(('remove-edge', e4))
        except Exception:
            pass
    leafs = [n for n in g.graph.nodes if g.graph.out_degree(n) == 0 and not isinstance(n, SelectionChoiceNode)]
    if leafs:
        try:
            e5 = g.copy()
            e5.graph.remove_node(leafs[0])
            edits.append(('remove-node', e5))
        except Exception:
            pass
    sel = [n for n in g.choice_nodes if isinstance(n, SelectionChoiceNode) and g.is_constrained_choice(n) is None]
    if len(sel) >= 2:
        try:
            e6 = g.copy().constrain_choices(ChoiceConstraintType.UNORDERED, sel[:2], remove_infeasible_choices=False)
            edits.append(('add-constraint', e6))
        except Exception:
            pass
    if len(desc.start) == 1 and len(desc.nodes) > 1:
        try:
            other = [n for n in desc.nodes if n not in desc.start and b.node[n] in g.graph.nodes]
            if other:
                e7 = g.copy()
                e7._start_nodes = set(e7._start_nodes) | {b.node[other[0]]}
                edits.append(('add-start-node', e7))
        except Exception:
            pass
    # parallel edges whose keys do not start at 0: a second (incompatibility) edge next to a derivation edge, then the
    # key-0 edge removed through get_for_adjusted
    if edges:
        try:
            der = [(u_, v_, k_, d_) for u_, v_, k_, d_ in edges if isinstance(u_, NamedNode) and isinstance(v_, NamedNode) and u_ is not v_]
            if der:
                u_, v_, k_, d_ = der[0]
                e8 = g.copy()
                e8.add_incompatibility_constraint([u_, v_])
                e8 = e8.get_for_adjusted(removed_edges=[(u_, v_, k_)])
                edits.append(('parallel-edge-with-gap-in-keys', e8))
        except Exception:
            pass
    for name, e in edits:
        # a copy of the edited graph is equal to it (same hash, same fingerprint)
        try:
            ce = e.copy()
            ctx.check('C18.copy-of-edited-graph-equal', ce == e and hash(ce) == hash(e) and ce.is_same(e), ['graph-api', name, 'copy'],
                      f'after {name}: a copy of the edited graph is not equal to it (edges {sorted((str(a), str(b_), k2) for a, b_, k2 in e.graph.edges(keys=True))[:6]} '
                      f'vs {sorted((str(a), str(b_), k2) for a, b_, k2 in ce.graph.edges(keys=True))[:6]})', (desc.label, name, 'copy'))
        except Exception as ex:  # noqa
            ctx.check('C18.copy-of-edited-graph-equal', False, ['graph-api', name, 'copy'], f'{type(ex).__name__}: {ex}', (desc.label, name, 'copy'))
        ctx.check('C18.edit-makes-unequal', not (e == g) and not (g == e), ['graph-api', name],
                  f'after {name} the graphs still compare equal', (desc.label, name))
        ctx.check('C18.original-identity-unchanged-by-editing-a-copy', hash(g) == h0 and g.fingerprint() == f0,
                  ['graph-api', name], f'after {name} on a copy the original has another hash/fingerprint', (desc.label, name, 'orig'))
    # pickle round trip of graph and processor
    try:
        g2 = pickle.loads(pickle.dumps(g))
        ctx.check('C18.pickle-graph-is-same', g2.is_same(g) and g.is_same(g2), ['graph-api', 'pickle'],
                  'unpickled graph is not recognised as the same design space', (desc.label, 'pickle'))
    except Exception as e:  # noqa
        ctx.check('C18.pickle-graph-is-same', False, ['graph-api', 'pickle'], f'{type(e).__name__}: {e}', (desc.label, 'pickle'))
    try:
        if same_display_names:
            raise RuntimeError('unpickled nodes are re-bound to the description by name: ambiguous here')
        bb, gp = make_processor(desc, 'COMPLETE')
        gp2 = pickle.loads(pickle.dumps(gp))
        from .enumchecks import _rebind
        b2 = _rebind(bb, gp2)
        ctx.check('C18.pickle-processor-same-variables', [str(d) for d in gp.des_vars] == [str(d) for d in gp2.des_vars],
                  ['COMPLETE', 'pickle'], 'design variables differ after pickle', (desc.label, 'pickle-gp'))
        X, _ = all_vectors(gp.des_vars, cap=64)
        for x in X:
            i1, x1, a1 = gp.get_graph(list(x))
            i2, x2, a2 = gp2.get_graph(list(x))
            ctx.check('C18.pickle-processor-same-mapping', list(map(float, x1)) == list(map(float, x2)) and list(a1) == list(a2)
                      and obs_arch(bb, i1, True) == obs_arch(b2, i2, True), ['COMPLETE', 'pickle', x],
                      f'decode differs after pickle: {list(x1)} vs {list(x2)}', (desc.label, 'pickle-gp', tuple(x)))
    except Exception as e:  # noqa
        pass
    # a copy and a rebuild with the edges added in reverse order define the same variables and the same mapping
    try:
        from adsg_core.optimization.graph_processor import GraphProcessor
        from adsg_core.optimization.hierarchy import SelChoiceEncoderType
        gp0 = GraphProcessor(g, encoder_type=SelChoiceEncoderType.COMPLETE)
        rev = specsem.Desc(list(reversed(desc.nodes)), list(reversed(desc.edges)), desc.start,
                           choices=[tuple(c) for c in reversed(desc.choices)], incompat=desc.incompat,
                           constraints=desc.constraints, conns=[tuple(c) for c in reversed(desc.conns)],
                           groups=[tuple(x) for x in desc.groups], conn_choices=[tuple(x) for x in desc.conn_choices],
                           dvs=[tuple(d) for d in reversed(desc.dvs)], metrics=[tuple(m) for m in reversed(desc.metrics)], label=desc.label)
        for how, (bv, gv) in (('copy', (b, g.copy())), ('reordered-rebuild', (lambda bb_: (bb_, bb_.dsg))(gen.Built(rev)))):
            gpv = GraphProcessor(gv, encoder_type=SelChoiceEncoderType.COMPLETE)
            same_vars = [str(d) for d in gp0.des_vars] == [str(d) for d in gpv.des_vars]
            ctx.check('C18.same-design-space-same-variables', same_vars, ['COMPLETE', how],
                      f'design variables of the {how}: {[str(d) for d in gpv.des_vars]} vs {[str(d) for d in gp0.des_vars]}', (desc.label, how))
            if same_vars:
                X, _ = all_vectors(gp0.des_vars, cap=24)
                for x in X:
                    i1, x1, a1 = gp0.get_graph(list(x))
                    i2, x2, a2 = gpv.get_graph(list(x))
                    ok = list(map(float, x1)) == list(map(float, x2)) and list(a1) == list(a2) and obs_arch(b, i1, True) == obs_arch(bv, i2, True)
                    # names the situation "the graph has a connection choice": connectors carry no ordering key of
                    # their own, their order (and with it the meaning of the connection variables) follows the order
                    # in which the edges were added
                    wc = f'connector-order-follows-edge-order|{how}' if (not ok and desc.conn_choices) else None
                    ctx.check('C18.same-design-space-same-mapping', ok, ['COMPLETE', how, x],
                              f'decode of {x} differs between the graph and its {how}: {list(x1)} / {sorted(obs_arch(b, i1, True)[1:])} vs '
                              f'{list(x2)} / {sorted(obs_arch(bv, i2, True)[1:])}', (desc.label, how, tuple(x)), wclass=wc)
    except Exception as e:  # noqa
        pass
    # exports contain every node and edge
    try:
        dot = g.export_dot(return_dot=True).to_string()
        n_nodes = len(g.graph.nodes)
        n_edges = len({frozenset((u, v)) for u, v in g.graph.edges()})   # DOT export draws one arrow per node pair
        ctx.check('C18.dot-contains-every-edge', dot.count('->') + dot.count(' -- ') >= n_edges, ['graph-api', 'dot'],
                  f'{dot.count("->")} arrows for {n_edges} edges', (desc.label, 'dot'))
        missing = [nm for nm, nd in b.node.items() if nd in g.graph.nodes and nm.split('#')[0] not in dot]   # 'x#2' is displayed as 'x'
        ctx.check('C18.dot-contains-every-node', not missing, ['graph-api', 'dot'], f'node names missing in DOT: {missing[:5]}', (desc.label, 'dot-n'))
    except Exception as e:  # noqa
        ctx.check('C18.dot-export-total', False, ['graph-api', 'dot'], f'{type(e).__name__}: {e}', (desc.label, 'dot'))
    try:
        with tempfile.TemporaryDirectory() as td:
            p = os.path.join(td, 'g.gml')
            g.export_gml(p)
            txt = open(p).read()
        ctx.check('C18.gml-contains-every-node-and-edge', txt.count('node [') == len(g.graph.nodes) and txt.count('edge [') == len(g.graph.edges),
                  ['graph-api', 'gml'], f'GML has {txt.count("node [")} nodes / {txt.count("edge [")} edges for {len(g.graph.nodes)} / {len(g.graph.edges)}', (desc.label, 'gml'))
    except Exception as e:  # noqa
        ctx.check('C18.gml-export-total', False, ['graph-api', 'gml'], f'{type(e).__name__}: {e}', (desc.label, 'gml'))
    # identity is a property of the graph value, not of what happened to other graphs in the meantime: after all of
    # the above (copies edited, processors built, vectors decoded) and after deriving a graph per offered option, the
    # untouched graph still has its hash / fingerprint, and a snapshot pickled before is still the same design space
    try:
        for cn in list(g.get_ordered_next_choice_nodes()):
            if isinstance(cn, SelectionChoiceNode):
                for o in g.get_option_nodes(cn):
                    g.get_for_apply_selection_choice(cn, o)
    except Exception:  # noqa
        pass
    try:
        snap = pickle.loads(snapshot) if snapshot is not None else None
        ok = hash(g) == h0 and g.fingerprint() == f0 and (snap is None or (snap.is_same(g) and g.is_same(snap)))
        ctx.check('C18.identity-unchanged-by-deriving-and-decoding', ok, ['graph-api', 'later'],
                  f'after deriving graphs and decoding vectors the untouched graph has hash {hash(g) == h0} / fingerprint '
                  f'{g.fingerprint() == f0} equal to before; snapshot pickled before is_same: {None if snap is None else snap.is_same(g)}',
                  (desc.label, 'later'))
    except Exception as e:  # noqa
        ctx.check('C18.identity-unchanged-by-deriving-and-decoding', False, ['graph-api', 'later'], f'{type(e).__name__}: {e}', (desc.label, 'later'))
    ctx.samples.append(dict(desc=desc.label, edits=[n for n, _ in edits]))
    return ctx.result()


def canonical_digest(desc):
    """Digest of everything a processor built from `desc` defines (used by the hash-seed sweep)."""
    b, gp = make_processor(desc, 'COMPLETE')
    X, A = gp.get_all_discrete_x()
    rows = []
    for x in X:
        inst, xi, ai = gp.get_graph(list(x))
        nodes, cc = obs_arch(b, inst)
        rows.append((list(map(float, xi)), list(map(bool, ai)), sorted(nodes), cc))
    return digest([[str(d) for d in gp.des_vars], rows])


def hashseed_sweep(labels, seeds=(1, 2, 3)):
    """Configuration sweep (bounded): the same descriptions built in processes with different PYTHONHASHSEED define the
    same variables and the same vector -> architecture mapping."""
    here = os.path.dirname(os.path.dirname(os.path.abspath(__file__)))
    code = ("import sys, json; sys.path.insert(0, %r); from bounded import identitychecks, corpus; "
            "m = {d.label: d for d in corpus.corpus(['sel', 'inc', 'con', 'conn', 'dvmet'], 'quick')}; "
            "import pickle, base64; from bounded import gen; "
            "print(json.dumps({l: [identitychecks.canonical_digest(m[l]), base64.b64encode(pickle.dumps(gen.Built(m[l]).dsg)).decode()] for l in %r}))" % (here, list(labels)))
    out = {}
    for s in seeds:
        env = dict(os.environ, PYTHONHASHSEED=str(s), PYTHONPATH=os.environ.get('VERIF_REPO', '/repo'))
        with tempfile.TemporaryDirectory() as td:
            env['XDG_CACHE_HOME'] = td
            p = subprocess.run([sys.executable, '-c', code], capture_output=True, text=True, env=env)
        if p.returncode != 0:
            raise RuntimeError('hash-seed subprocess failed: ' + p.stderr[-800:])
        import json
        out[s] = json.loads(p.stdout.strip().splitlines()[-1])
    return out


# ================================================================================================ C20

def sup_member(desc, tier, seed):
    """For every architecture of the source graph: resolving a supplementary graph (option mappings for every source
    choice, an existence mapping, a nested supplementary choice) takes exactly the mapped options."""
    from adsg_core.graph.sup import SupDSG, SupNode, SupSelChoiceOptionMapping, SupExistenceMapping
    from adsg_core.graph.adsg_nodes import SelectionChoiceNode
    ctx = Ctx(desc)
    try:
        b = gen.Built(desc)
    except Exception:
        return ctx.result()
    src = b.dsg
    adm = specsem.admissible_assignments(desc)
    # nodes present in every architecture (a choice whose originating node is among them is never inactive)
    perm_nodes = set(specsem.closure(desc, {}))
    if adm:
        common = set.intersection(*[set(specsem.closure(desc, a)) for a in adm])
        perm_nodes |= common
    src_choices = [c for c in desc.choices if b.choice[c.cid] in src.graph.nodes]
    if not src_choices:
        return ctx.result()

    def build_sup(drop_none=False, duplicate=False, unmapped=False, by_value=False):
        # by_value: mappings name their target options through NEW SupNode objects with the same name and reference
        # (documented to be recognised as the same node)
        def tgt(node):
            return SupNode(node.name, ref=node.ref) if by_value else node
        sup = SupDSG()
        root = SupNode('root')
        spec = {}
        maps = []
        for c in src_choices:
            opts = [b.name_of[o] for o in src.get_option_nodes(b.choice[c.cid])]
            sn = SupNode(f'org_{c.cid}')
            sup.add_edge(root, sn)
            so = {o: SupNode(f'{c.cid}_{o}') for o in opts}
            s_inactive = SupNode(f'{c.cid}_inactive')
            sc = sup.add_selection_choice(f'sup_{c.cid}', sn, list(so.values()) + [s_inactive])
            mapping = {b.node[o]: tgt(so[o]) for o in opts}
            conditional = c.origin not in perm_nodes
            # a `None` entry is also given when the library itself counts the choice as possibly inactive (it may
            # still offer an option that the reference excludes, see the known finding on self-conflicting options):
            # a surplus `None` entry never makes a mapping incomplete
            lib_conditional = False
            try:
                lib_conditional = bool(src.has_conditional_existence(b.choice[c.cid]))
            except Exception:  # noqa
                pass
            if (conditional and not drop_none) or (lib_conditional and not conditional):
                mapping[None] = tgt(s_inactive)
            elif not conditional:
                pass
            maps.append((sc, SupSelChoiceOptionMapping(b.choice[c.cid], mapping)))
            spec[c.cid] = (so, s_inactive, sc)
        # existence mapping over two nodes of the source, priority order = insertion order
        special = [d.name for d in desc.dvs] + [m.name for m in desc.metrics]
        pool = [n for n in special + [x for x in desc.nodes if x not in desc.start] if b.node[n] in src.graph.nodes]
        # design-variable / metric nodes first (their str() differs from str_context()), conditional ones preferred
        pool.sort(key=lambda n: (n not in special, n in perm_nodes))
        cands = pool[:2]
        en = SupNode('org_exist')
        sup.add_edge(root, en)
        eo = {n: SupNode(f'ex_{n}') for n in cands}
        e_none = SupNode('ex_none')
        ec = sup.add_selection_choice('sup_exist', en, list(eo.values()) + [e_none])
        emap = {b.node[n]: tgt(eo[n]) for n in cands}
        emap[None] = tgt(e_none)
        maps.append((ec, SupExistenceMapping(emap)))
        # nested supplementary choice below the first option of the first supplementary choice
        c0 = src_choices[0]
        first_opt = next(iter(spec[c0.cid][0].values()))
        n1, n2 = SupNode('nested_a'), SupNode('nested_b')
        nc = sup.add_selection_choice('sup_nested', first_opt, [n1, n2])
        last = src_choices[-1]
        lopts = [b.name_of[o] for o in src.get_option_nodes(b.choice[last.cid])]
        nmap = {b.node[o]: (n1 if i % 2 == 0 else n2) for i, o in enumerate(lopts)}
        nmap[None] = n2
        maps.append((nc, SupSelChoiceOptionMapping(b.choice[last.cid], {k_: tgt(v_) for k_, v_ in nmap.items()})))
        if unmapped:
            sup.add_selection_choice('sup_unmapped', root, [SupNode('u1'), SupNode('u2')])
        for sc, m in maps:
            sup.add_mapping(sc, src, m)
        if duplicate:
            sup.add_mapping(maps[0][0], src, maps[0][1])
        sup = sup.set_start_nodes({root})
        return sup, spec, (cands, eo, e_none), (nc, nmap, n1, n2, first_opt, last)

    try:
        sup, spec, (cands, eo, e_none), (nc, nmap, n1, n2, first_opt, last) = build_sup()
    except Exception as e:  # noqa
        ctx.check('C20.complete-mapping-accepted', False, ['sup', 'build'], f'{type(e).__name__}: {e}', (desc.label, 'build'))
        return ctx.result()
    # rejected configurations
    for kw, clause in ((dict(duplicate=True), 'C20.duplicate-mapping-rejected'), (dict(unmapped=True), 'C20.unmapped-choice-rejected')):
        try:
            build_sup(**kw)
            ctx.check(clause, False, ['sup', str(kw)], 'no error raised', (desc.label, str(kw)))
        except RuntimeError:
            ctx.check(clause, True, ['sup', str(kw)], '', (desc.label, str(kw)))
    if any(c.origin not in perm_nodes for c in src_choices):
        try:
            build_sup(drop_none=True)
            ctx.check('C20.incomplete-mapping-rejected', False, ['sup', 'drop-none'], 'conditional source choice without None accepted', (desc.label, 'drop-none'))
        except RuntimeError:
            ctx.check('C20.incomplete-mapping-rejected', True, ['sup', 'drop-none'], '', (desc.label, 'drop-none'))
    # non-final source rejected
    try:
        sup.resolve(src)
        ctx.check('C20.non-final-source-rejected', src.final, ['sup', 'non-final'], 'resolve accepted a non-final source', (desc.label, 'non-final'))
    except RuntimeError:
        ctx.check('C20.non-final-source-rejected', True, ['sup', 'non-final'], '', (desc.label, 'non-final'))

    # a supplementary graph with only an existence mapping: nothing but the up-front check can reject a non-final source
    if not src.final:
        try:
            sup2 = SupDSG()
            r2 = SupNode('root2')
            o_a, o_b = SupNode('only_a'), SupNode('only_b')
            c2 = sup2.add_selection_choice('sup_only_exist', r2, [o_a, o_b])
            any_node = [b.node[n] for n in desc.nodes if b.node[n] in src.graph.nodes][0]
            sup2.add_mapping(c2, src, SupExistenceMapping({any_node: o_a, None: o_b}))
            sup2 = sup2.set_start_nodes({r2})
            try:
                sup2.resolve(src)
                ctx.check('C20.non-final-source-rejected', False, ['sup', 'existence-only', 'non-final'],
                          'resolve accepted a non-final source for a supplementary graph with only an existence mapping', (desc.label, 'non-final-2'))
            except RuntimeError:
                ctx.check('C20.non-final-source-rejected', True, ['sup', 'existence-only', 'non-final'], '', (desc.label, 'non-final-2'))
        except Exception as e:  # noqa
            ctx.check('C20.complete-mapping-accepted', False, ['sup', 'existence-only', 'build'], f'{type(e).__name__}: {e}', (desc.label, 'build2'))

    def resolve_src(a):
        g = src
        while True:
            nxt = [cn for cn in g.get_ordered_next_choice_nodes() if isinstance(cn, SelectionChoiceNode)]
            if not nxt:
                return g
            g = g.get_for_apply_selection_choice(nxt[0], b.node[a[str(nxt[0].decision_id)]])

    variants = [('same-objects', sup)]
    try:
        variants.append(('equal-nodes', build_sup(by_value=True)[0]))
    except Exception as e:  # noqa
        ctx.check('C20.complete-mapping-accepted', False, ['sup', 'build', 'equal-nodes'], f'{type(e).__name__}: {e}', (desc.label, 'build-bv'))
    for how, sup_v, a in [(h_, s_, a_) for h_, s_ in variants for a_ in adm]:
        wit = ['sup', sorted(a.items())] + ([how] if how != 'same-objects' else [])
        nt = (desc.label, tuple(sorted(a.items())), how)
        nodes = specsem.closure(desc, a)
        try:
            final = resolve_src(a)
            if not (final.final and final.feasible):
                continue
            res = sup_v.resolve(final)
        except Exception as e:  # noqa
            ctx.check('C20.resolves', False, wit, f'{type(e).__name__}: {e}', nt)
            continue
        rn = set(res.graph.nodes)
        ctx.check('C20.result-final', bool(res.final), wit, 'resolved supplementary graph is not final', nt)
        for c in src_choices:
            so, s_inactive, sc = spec[c.cid]
            want = so[a[c.cid]] if c.cid in a else s_inactive
            others = [x for x in list(so.values()) + [s_inactive] if x is not want]
            ctx.check('C20.mapped-option-taken', want in rn and not any(o in rn for o in others), wit + [c.cid],
                      f'source choice {c.cid} -> {a.get(c.cid)}: expected {want}, supplementary instance has '
                      f'{[str(x) for x in list(so.values()) + [s_inactive] if x in rn]}', nt + (c.cid,))
        first = next((n for n in cands if n in nodes), None)
        want = eo[first] if first is not None else e_none
        ctx.check('C20.existence-mapping-first-existing', want in rn and not any(x in rn for x in list(eo.values()) + [e_none] if x is not want),
                  wit + ['exist'], f'expected {want}', nt + ('exist',))
        if first_opt in rn:
            wantn = nmap[b.node[a[last.cid]]] if last.cid in a else nmap[None]
            ctx.check('C20.nested-choice-mapped', wantn in rn and not any(x in rn for x in (n1, n2) if x is not wantn), wit + ['nested'],
                      f'expected {wantn}', nt + ('nested',))
        else:
            ctx.check('C20.nested-choice-absent', n1 not in rn and n2 not in rn, wit + ['nested'], 'options of an inactive nested choice present', nt + ('nested',))
    ctx.samples.append(dict(desc=desc.label, source_architectures=len(adm)))
    return ctx.result()


def sup_same_name_member(payload, tier, seed):
    """C20 on hand-built sources whose option nodes share their display name but differ in what identifies them
    (two design-variable nodes `span` with different bounds, two metric nodes `mass` with different direction /
    reference): each source architecture has to resolve to the option mapped from the node that was really selected."""
    from adsg_core.graph.adsg_basic import BasicDSG
    from adsg_core.graph.adsg_nodes import NamedNode, DesignVariableNode, MetricNode
    from adsg_core.graph.sup import SupDSG, SupNode, SupSelChoiceOptionMapping
    kind, order = payload
    ctx = Ctx(None)
    if kind == 'dv':
        opts = [DesignVariableNode('span', bounds=(0., 1.)), DesignVariableNode('span', bounds=(20., 36.))]
    elif kind == 'dv-discrete':
        opts = [DesignVariableNode('span', options=['a', 'b']), DesignVariableNode('span', options=['a', 'b', 'c'])]
    else:
        opts = [MetricNode('mass', direction=-1), MetricNode('mass', direction=-1, ref=3.)]
    root, other = NamedNode('root'), NamedNode('other')
    src = BasicDSG()
    choice = src.add_selection_choice('C', root, opts + [other])
    src = src.set_start_nodes({root})
    sup = SupDSG()
    sroot = SupNode('sroot')
    sopts = [SupNode(f's{i}') for i in range(3)]
    schoice = sup.add_selection_choice('S', sroot, sopts)
    pairs = list(zip(opts + [other], sopts))
    if order == 'reversed':
        pairs = pairs[::-1]
    sup.add_mapping(schoice, src, SupSelChoiceOptionMapping(choice, dict(pairs)))
    sup = sup.set_start_nodes({sroot})
    for i, o in enumerate(opts + [other]):
        wit = ['sup', f'same-name-{kind}-{order}', i]
        nt = ('same-name', kind, order, i)
        try:
            arch = src.get_for_apply_selection_choice(choice, o)
            res = sup.resolve(arch)
            got = [str(n) for n in res.graph.nodes if n in sopts]
            want = dict(pairs)[o]
            ctx.check('C20.mapped-option-taken', want in res.graph.nodes and sum(1 for n in sopts if n in res.graph.nodes) == 1, wit,
                      f'source selected option {i} ({o.str_context()}): expected {want!s}, resolved graph has {got}', nt)
        except Exception as e:  # noqa
            ctx.check('C20.resolves', False, wit, f'{type(e).__name__}: {e}', nt)
    return ctx.result()
