"""Run-time contracts on enumeration, counting, fixing/freeing and history-independence of GraphProcessor
(C04, C15, C05), over the bounded corpus."""
import copy
import os
import itertools
import pickle

import numpy as np

from . import gen, specsem
from .harness import Ctx, all_vectors
from .decode import make_processor, obs_arch, ref_archs, ref_archs_dv, veq, canonical


def rows_of(gp, with_fixed=True):
    r = gp.get_all_discrete_x(with_fixed=with_fixed)
    if r is None:
        return None, None
    X, A = r
    return [list(map(float, x)) for x in X], [list(map(bool, a)) for a in A]


def enum_member(desc, tier, seed):
    """C04: the enumerated valid vectors are exactly the architectures, one each; counts agree."""
    ctx = Ctx(desc)
    ref = ref_archs_dv(desc)
    try:
        b, gp = make_processor(desc, 'COMPLETE')
        dvs = gp.des_vars
    except Exception:
        return ctx.result()   # construction failures are C01's clause
    X, A = rows_of(gp)
    wit0 = ['COMPLETE', 'enumeration']
    nt = (desc.label,)
    ctx.check('C04.rows-distinct', len(set(map(tuple, X))) == len(X), wit0, f'{len(X)} rows, {len(set(map(tuple, X)))} distinct', nt)
    archs = []
    cont = [k for k, dv in enumerate(dvs) if not dv.is_discrete]
    for x, a in zip(X, A):
        wit = ['COMPLETE', x]
        try:
            inst, xi, ai = gp.get_graph(list(x))
        except Exception as e:  # noqa
            ctx.check('C04.row-decodes-to-itself', False, wit, f'decode raised {type(e).__name__}: {e}', (desc.label, tuple(x)))
            continue
        disc_eq = all(abs(float(xi[k]) - x[k]) < 1e-9 for k in range(len(x)) if k not in cont)
        ctx.check('C04.row-decodes-to-itself', disc_eq, wit, f'row {x} decodes to {list(xi)}', (desc.label, tuple(x)))
        ctx.check('C04.row-activeness', [bool(v) for k, v in enumerate(ai) if k not in cont] ==
                  [v for k, v in enumerate(a) if k not in cont], wit,
                  f'listed activeness {a}, decoded {list(ai)}', (desc.label, tuple(x)))
        archs.append(obs_arch(b, inst, True))
    from .decode import closures_identify
    ident = closures_identify(desc)     # otherwise two options can give the same node set (see decode.closures_identify)
    ctx.check('C04.distinct-rows-distinct-architectures', len(set(archs)) == len(archs) or not ident, wit0,
              f'{len(archs)} rows give {len(set(archs))} architectures', nt)
    got = set(archs)
    ctx.check('C04.every-architecture-enumerated', ref <= got, wit0,
              f'missing {len(ref - got)} of {len(ref)} reference architectures, e.g. {[ (sorted(m[0]), m[1:]) for m in list(ref - got)[:2]]}', nt)
    ctx.check('C04.only-architectures-enumerated', got <= ref, wit0,
              f'{len(got - ref)} enumerated rows are not reference architectures, e.g. {[(sorted(m[0]), m[1:]) for m in list(got - ref)[:2]]}', nt)
    try:
        nv = gp.get_n_valid_designs()
        ctx.check('C04.n-valid-equals-rows', nv == len(X), wit0, f'get_n_valid_designs()={nv}, rows={len(X)}', nt)
        nd = gp.get_n_design_space()
        prod = 1
        for dv in dvs:
            if dv.is_discrete:
                prod *= dv.n_opts
        ctx.check('C04.declared-size-is-product', nd == prod, wit0, f'get_n_design_space()={nd}, product={prod}', nt)
        ir = gp.get_imputation_ratio(include_cont=False)
        ctx.check('C04.imputation-ratio-is-quotient', abs(ir - prod / max(len(X), 1)) < 1e-9, wit0,
                  f'imputation ratio {ir}, expected {prod}/{len(X)}', nt)
    except Exception as e:  # noqa
        ctx.check('C04.n-valid-equals-rows', False, wit0, f'counting raised {type(e).__name__}: {e}', nt)
    # with one fixed variable (fresh processor per configuration: history effects are C05/C15)
    for k, dv in enumerate(dvs):
        if not dv.is_discrete or k >= 3:
            continue
        for val in range(dv.n_opts):
            try:
                b2, gp2 = make_processor(desc, 'COMPLETE')
                dv_fixed = gp2.des_vars[k]
                gp2.fix_des_var(dv_fixed, val)
            except RuntimeError:
                break   # connection-choice variables cannot be fixed (C15)
            witf = ['COMPLETE', 'fixed', k, val]
            ntf = (desc.label, 'fix', k, val)
            try:
                Xf, Af = rows_of(gp2)
            except Exception as e:  # noqa
                ctx.check('C04.fixed-enumeration-total', False, witf, f'enumeration with a fixed variable raised {type(e).__name__}: {e}', ntf)
                continue
            ctx.check('C04.fixed-rows-distinct', len(set(map(tuple, Xf))) == len(Xf), witf,
                      f'{len(Xf)} rows, {len(set(map(tuple, Xf)))} distinct', ntf)
            af = []
            for x in Xf:
                try:
                    inst, xi, ai = gp2.get_graph(list(x))
                    af.append(obs_arch(b2, inst, True))
                except Exception as e:  # noqa
                    ctx.check('C04.fixed-row-decodes', False, witf + [x], f'{type(e).__name__}: {e}', ntf)
            ctx.check('C04.fixed-distinct-architectures', len(set(af)) == len(af) or not ident, witf,
                      f'{len(af)} rows give {len(set(af))} architectures', ntf)
            try:
                nvf = gp2.get_n_valid_designs(with_fixed=True)
                ctx.check('C04.fixed-n-valid-equals-rows', nvf == len(Xf), witf, f'n_valid={nvf}, rows={len(Xf)}', ntf)
            except Exception as e:  # noqa
                ctx.check('C04.fixed-n-valid-equals-rows', False, witf, f'{type(e).__name__}: {e}', ntf)
            # the enumeration is a function of the graph and of what is fixed NOW: after releasing the variable the
            # same processor lists the rows of the unrestricted problem again
            try:
                gp2.free_des_var(dv_fixed)
                Xr, _ = rows_of(gp2)
                same = Xr is not None and sorted(map(tuple, Xr)) == sorted(map(tuple, X))
                ctx.check('C04.enumeration-after-release-equals-original', same, witf + ['released'],
                          f'after fixing, enumerating, decoding and releasing: {None if Xr is None else len(Xr)} rows, originally {len(X)}', ntf)
            except Exception as e:  # noqa
                ctx.check('C04.enumeration-after-release-equals-original', False, witf + ['released'], f'{type(e).__name__}: {e}', ntf)
    # three variables fixed at once, every value combination (also contradictory ones: the restricted problem is then
    # empty): the rows listed are rows of the unrestricted enumeration that comply with EVERY fixed value
    fixable = []
    for k, dv in enumerate(dvs):
        if dv.is_discrete and len(fixable) < 3:
            try:
                _, gpt = make_processor(desc, 'COMPLETE')
                gpt.fix_des_var(gpt.des_vars[k], 0)
                fixable.append(k)
            except Exception:  # noqa
                pass
    if len(fixable) == 3 and A is not None:
        import itertools as _it
        combos = list(_it.product(*[range(dvs[k].n_opts) for k in fixable]))[:27]
        for vals in combos:
            fixed = dict(zip(fixable, vals))
            witf = ['COMPLETE', 'fixed-three', sorted(fixed.items())]
            ntf = (desc.label, 'fix3', tuple(sorted(fixed.items())))
            try:
                b3, gp3 = make_processor(desc, 'COMPLETE')
                all_dvs = list(gp3.des_vars)
                for k, v in fixed.items():
                    gp3.fix_des_var(all_dvs[k], v)
                X3, _ = rows_of(gp3)
                got = sorted(map(tuple, X3)) if X3 is not None else []
            except Exception as e:  # noqa
                ctx.check('C04.fixed-enumeration-total', False, witf, f'{type(e).__name__}: {e}', ntf)
                continue
            allowed, must = set(), set()
            for x, a in zip(X, A):
                row = tuple(v for k, v in enumerate(x) if k not in fixed)
                if all((not a[k]) or abs(x[k] - v) < 1e-9 for k, v in fixed.items()):
                    allowed.add(row)
                if all(a[k] and abs(x[k] - v) < 1e-9 for k, v in fixed.items()):
                    must.add(row)
            ctx.check('C04.fixed-rows-comply-with-every-fixed-value', set(got) <= allowed, witf,
                      f'rows {sorted(set(got) - allowed)[:3]} are not rows of the unrestricted enumeration with the fixed values (or the variable inactive)', ntf)
            ctx.check('C04.rows-with-all-fixed-values-active-are-listed', must <= set(got), witf,
                      f'rows {sorted(must - set(got))[:3]} (all three variables active with the fixed values) are missing', ntf)
            try:
                nv3 = gp3.get_n_valid_designs(with_fixed=True)
                ctx.check('C04.fixed-n-valid-equals-rows', nv3 == len(got), witf, f'n_valid={nv3}, rows={len(got)}', ntf)
            except Exception as e:  # noqa
                ctx.check('C04.fixed-n-valid-equals-rows', False, witf, f'{type(e).__name__}: {e}', ntf)
    ctx.samples.append(dict(desc=desc.label, rows=len(X), reference_architectures=len(ref)))
    return ctx.result()


def snapshot(b, gp, probes):
    """Observable behaviour of a processor: variables, enumeration, counts, decodes of the probe vectors."""
    out = dict(des_vars=[(str(dv), bool(dv.conditionally_active)) for dv in gp.des_vars])
    X, A = rows_of(gp)
    out['rows'] = sorted(map(tuple, X)) if X is not None else None
    try:
        out['n_valid'] = gp.get_n_valid_designs(with_fixed=True)
    except Exception as e:  # noqa
        out['n_valid'] = f'{type(e).__name__}'
    dec = []
    for x in probes(gp):
        for create in (True, False):
            try:
                inst, xi, ai = gp.get_graph(list(x), create=create)
                dec.append((tuple(x), create, tuple(round(float(v), 9) for v in xi), tuple(map(bool, ai)),
                            obs_arch(b, inst, True) if inst is not None else None))
            except Exception as e:  # noqa
                dec.append((tuple(x), create, 'raise', type(e).__name__))
    out['decodes'] = dec
    return out


def probes_all(gp):
    X, _ = all_vectors(gp.des_vars, cap=64)
    return X


def fix_member(desc, tier, seed):
    """C15: fixing restricts exactly, freeing restores (sequences of fix/free, compared with filtering the unfixed
    enumeration and with a fresh processor)."""
    ctx = Ctx(desc)
    try:
        b, gp = make_processor(desc, 'COMPLETE')
        dvs0 = list(gp.des_vars)
        X0, A0 = rows_of(gp)
        base = snapshot(b, gp, probes_all)
    except Exception:
        return ctx.result()
    n = len(dvs0)
    conn_idx = set()
    for data in gp._conn_choice_data_map.values():
        conn_idx.update(range(data[3], data[4]))

    def expected_rows(fixed, must=False):
        """Rows of the unfixed enumeration (fixed columns removed) in which every fixed variable is inactive or has
        the fixed value (`must`: is active with the fixed value)."""
        rows = []
        for x, a in zip(X0, A0):
            if must:
                ok = all(a[k] and abs(x[k] - v) < 1e-9 for k, v in fixed.items())
            else:
                ok = all((not a[k]) or abs(x[k] - v) < 1e-9 for k, v in fixed.items())
            if ok:
                rows.append(tuple(v for k, v in enumerate(x) if k not in fixed))
        return sorted(set(rows))

    seqs = []
    cands = []
    for k, dv in enumerate(dvs0):
        vals = list(range(dv.n_opts)) if dv.is_discrete else [dv.bounds[0], (dv.bounds[0] + dv.bounds[1]) / 2]
        for v in vals:
            cands.append((k, v))
    for c in cands:
        seqs.append([('fix',) + c, ('free', c[0])])
    depth2 = cands if tier == 'thorough' else cands[:6]
    for c1 in depth2:
        for c2 in depth2:
            if c1[0] != c2[0]:
                seqs.append([('fix',) + c1, ('fix',) + c2, ('free', c1[0]), ('free', c2[0])])
    for seq in seqs:
        try:
            b, gp = make_processor(desc, 'COMPLETE')
        except Exception:
            continue
        dvs = list(gp.all_des_vars)
        fixed = {}
        wit = ['COMPLETE', [list(s) for s in seq]]
        nt = (desc.label, str(seq))
        # the processor has served decodes before anything is fixed (its persistent masks and caches exist)
        for x in probes_all(gp)[:4]:
            try:
                gp.get_graph(list(x))
            except Exception:  # noqa
                pass
        for op in seq:
            if op[0] == 'fix':
                _, k, v = op
                if k in conn_idx:
                    try:
                        gp.fix_des_var(dvs[k], v)
                        ctx.check('C15.connection-variable-fix-rejected', False, wit, 'no error raised', nt)
                    except RuntimeError:
                        ctx.check('C15.connection-variable-fix-rejected', True, wit, '', nt)
                    break
                try:
                    gp.fix_des_var(dvs[k], v)
                except Exception as e:  # noqa
                    ctx.check('C15.fix-accepted', False, wit, f'fix raised {type(e).__name__}: {e}', nt)
                    break
                fixed[k] = float(v)
                ctx.check('C15.variable-disappears', len(gp.des_vars) == n - len(fixed) and dvs[k] not in gp.des_vars,
                          wit, f'{len(gp.des_vars)} variables left', nt)
                if all(dvs[j].is_discrete for j in fixed):
                    try:
                        X, A = rows_of(gp)
                    except Exception as e:  # noqa
                        ctx.check('C15.restricted-enumeration-total', False, wit, f'after {op}: enumeration raised {type(e).__name__}: {e}', nt)
                        break
                    exp = expected_rows(fixed)
                    must = expected_rows(fixed, must=True)
                    got = sorted(map(tuple, X))
                    ctx.check('C15.restricted-designs-are-original-designs-with-value-or-inactive',
                              set(got) <= set(exp), wit,
                              f'after {op}: enumerated {sorted(set(got) - set(exp))[:4]} are not filtered original designs', nt)
                    ctx.check('C15.designs-active-with-the-value-are-kept', set(must) <= set(got), wit,
                              f'after {op}: original designs {sorted(set(must) - set(got))[:4]} (variable active with the '
                              f'fixed value) are missing from the restricted enumeration', nt)
                    ctx.check('C15.restricted-rows-distinct', len(set(got)) == len(got), wit,
                              f'after {op}: {len(got)} rows, {len(set(got))} distinct', nt)
                    try:
                        nv = gp.get_n_valid_designs(with_fixed=True)
                        ctx.check('C15.restricted-count', nv == len(got), wit, f'n_valid={nv}, rows {len(got)}', nt)
                    except Exception as e:  # noqa
                        ctx.check('C15.restricted-count', False, wit, f'{type(e).__name__}: {e}', nt)
                    exp = got
                    # decodes stay inside the restricted set
                    for x in probes_all(gp)[:32]:
                        try:
                            inst, xi, ai = gp.get_graph(list(x))
                            ctx.check('C15.decode-inside-restriction',
                                      tuple(round(float(v), 9) for v in xi) in set(exp) or
                                      any(not dv.is_discrete for dv in gp.des_vars), wit + [x],
                                      f'decode {x} -> {list(xi)} not in the restricted enumeration', nt)
                            # the same decode without materialising the instance
                            _, xi0, ai0 = gp.get_graph(list(x), create=False)
                            ctx.check('C15.decode-without-instance-agrees', list(map(float, xi0)) == list(map(float, xi)) and
                                      list(map(bool, ai0)) == list(map(bool, ai)), wit + [x, 'create=False'],
                                      f'decode {x}: create=False gives {list(xi0)} / {list(ai0)}, create=True {list(xi)} / {list(ai)}', nt)
                        except Exception as e:  # noqa
                            ctx.check('C15.decode-inside-restriction', len(exp) == 0, wit + [x],
                                      f'decode raised {type(e).__name__}: {e} although {len(exp)} designs remain', nt)
            else:
                _, k = op
                gp.free_des_var(dvs[k])
                fixed.pop(k, None)
        if not fixed:
            after = snapshot(b, gp, probes_all)
            same = after == base
            diff = [key for key in base if base[key] != after.get(key)]
            ctx.check('C15.free-restores-original-problem', same, wit,
                      f'after the sequence the processor differs from a fresh one in {diff}; e.g. rows '
                      f'{(after.get("rows") or [])[:4]} vs {(base.get("rows") or [])[:4]}', nt)
    # out-of-range values rejected without changing state
    try:
        b, gp = make_processor(desc, 'COMPLETE')
        for k, dv in enumerate(gp.all_des_vars):
            if k in conn_idx:
                continue
            bad = dv.n_opts if dv.is_discrete else dv.bounds[1] + 1.0
            try:
                gp.fix_des_var(dv, bad)
                ctx.check('C15.out-of-range-fix-rejected', False, ['COMPLETE', 'bad-fix', k, bad], 'no error', (desc.label, 'bad', k))
            except ValueError:
                ctx.check('C15.out-of-range-fix-rejected', len(gp.des_vars) == n, ['COMPLETE', 'bad-fix', k, bad],
                          'state changed by a rejected fix', (desc.label, 'bad', k))
    except Exception:
        pass
    ctx.samples.append(dict(desc=desc.label, sequences=len(seqs), example=[list(s) for s in seqs[0]] if seqs else None))
    return ctx.result()


def history_member(payload, tier, seed):
    """C05: what a processor returns does not depend on what it served before. Every operation history up to the
    depth bound is replayed on one processor; after each step its observable behaviour must equal that of a freshly
    built processor with the same fixed values."""
    desc, enc = payload
    ctx = Ctx(desc)
    try:
        b0, gp0 = make_processor(desc, enc)
        vecs, _ = all_vectors(gp0.des_vars, cap=6)
    except Exception:
        return ctx.result()
    import random
    rng = random.Random(seed + 17)
    if len(vecs) > 4:
        vecs = rng.sample(vecs, 4)
    ndv = len(gp0.all_des_vars)
    conn_idx = set()
    for data in gp0._conn_choice_data_map.values():
        conn_idx.update(range(data[3], data[4]))
    fixable = [k for k, dv in enumerate(gp0.all_des_vars) if k not in conn_idx and dv.is_discrete][:2]
    ops = [('decode', tuple(x), True) for x in vecs] + [('decode', tuple(x), False) for x in vecs[:2]] + \
          [('enumerate',), ('statistics',), ('mutate',), ('pickle',)]
    if enc == 'COMPLETE':
        for k in fixable:
            ops += [('fix', k, 0), ('fix', k, gp0.all_des_vars[k].n_opts - 1), ('free', k)]
    depth = 3 if tier == 'thorough' else 2
    fresh_cache = {}

    def fresh_snapshot(fixed):
        key = tuple(sorted(fixed.items()))
        if key not in fresh_cache:
            def mk():
                bf, gf = make_processor(desc, enc)
                for k, v in fixed.items():
                    gf.fix_des_var(gf.all_des_vars[k], v)
                return bf, gf
            # the reference: every single decode on a processor that has served nothing before
            fresh_cache[key] = snap(*mk(), mk=mk)
        return fresh_cache[key]

    def snap(b, gp, mk=None):
        dec = []
        X, _ = all_vectors(gp.des_vars, cap=16)
        for x in X:
            for create in (True, False):
                if mk is not None:
                    b, gp = mk()
                try:
                    inst, xi, ai = gp.get_graph(list(x), create=create)
                    vals = None
                    if inst is not None:
                        mv = inst.metric_values
                        vals = tuple(sorted((b.name_of.get(k, '?'), v) for k, v in mv.items()))
                    dec.append((tuple(x), create, tuple(round(float(v), 9) for v in xi), tuple(map(bool, ai)),
                                obs_arch(b, inst, True) if inst is not None else None, vals))
                except Exception as e:  # noqa
                    dec.append((tuple(x), create, 'raise', type(e).__name__))
        return dict(des_vars=[str(dv) for dv in gp.des_vars], decodes=dec)

    n_hist = 0
    for hist in itertools.product(ops, repeat=depth):
        # skip histories that are not well-formed (fixing an already fixed variable is fine; freeing an unfixed too)
        n_hist += 1
        try:
            b, gp = make_processor(desc, enc)
        except Exception:
            break
        fixed = {}
        last_inst = None
        ok_hist = True
        for i, op in enumerate(hist):
            try:
                if op[0] == 'decode':
                    x = list(op[1])
                    if len(x) != len(gp.des_vars):
                        x = x[:len(gp.des_vars)] + [0] * max(0, len(gp.des_vars) - len(x))
                    r = gp.get_graph(x, create=op[2])
                    last_inst = r[0] if r[0] is not None else last_inst
                elif op[0] == 'enumerate':
                    gp.get_all_discrete_x()
                elif op[0] == 'statistics':
                    gp.get_n_valid_designs(with_fixed=True)
                    gp.get_imputation_ratio()
                elif op[0] == 'mutate':
                    if last_inst is not None:
                        for m in last_inst.metric_nodes:
                            last_inst.set_metric_value(m, 123.5)
                        for d in last_inst.des_var_nodes:
                            last_inst.set_des_var_value(d, 0)
                elif op[0] == 'pickle':
                    gp = pickle.loads(pickle.dumps(gp))
                    b = _rebind(b, gp)
                elif op[0] == 'fix':
                    gp.fix_des_var(gp.all_des_vars[op[1]], op[2])
                    fixed[op[1]] = op[2]
                elif op[0] == 'free':
                    gp.free_des_var(gp.all_des_vars[op[1]])
                    fixed.pop(op[1], None)
            except Exception as e:  # noqa
                # an operation that legitimately fails on a fresh processor too is not a history effect
                ok_hist = False
                break
            wit = [enc, [list(map(str, o)) for o in hist[:i + 1]]]
            nt = (desc.label, enc, str(hist[:i + 1]))
            try:
                want = fresh_snapshot(fixed)
            except Exception:
                break
            got = snap(b, gp)
            if got != want:
                alld = [(g, w) for g, w in zip(got['decodes'], want['decodes']) if g != w]
                diffs = alld[:2]
                # names the situation "fast encoder, and every differing decode is of a vector that is not valid
                # itself (a fresh processor corrects it to another vector)": the imputed neighbour then depends on
                # what the imputation cache has seen; anything else keeps the default class
                wclass = None
                if enc == 'FAST' and alld and got['des_vars'] == want['des_vars'] and \
                        all(len(w) > 2 and w[2] != 'raise' and tuple(float(v) for v in w[0]) != tuple(w[2]) for g, w in alld):
                    wclass = 'imputed-vector-depends-on-imputation-cache|FAST'
                ctx.check('C05.same-as-fresh-processor', False, wit,
                          f'after the history the processor differs from a fresh one: {diffs or (got["des_vars"], want["des_vars"])}', nt,
                          wclass=wclass)
                break
            ctx.check('C05.same-as-fresh-processor', True, wit, '', nt)
    ctx.samples.append(dict(desc=desc.label, encoder=enc, histories=n_hist, depth=depth, ops=[list(map(str, o)) for o in ops[:6]]))
    return ctx.result()


def _rebind(b, gp):
    """After a pickle round trip the node objects are new: rebuild the name map from the unpickled graph."""
    nb = copy.copy(b)
    nb.name_of = {}
    nb.node = {}
    for n in gp.graph.graph.nodes:
        name = getattr(n, 'name', None)
        if name is not None:
            nb.name_of[n] = name
            nb.node[name] = n
    nb.choice = {str(n.decision_id): n for n in gp.graph.graph.nodes if n.__class__.__name__ == 'SelectionChoiceNode'}
    return nb


# ------------------------------------------------------------------ C05 / C14: independence from other processors
CROSS_CODE = r'''
import sys, json
sys.path.insert(0, %(here)r)
from bounded import corpus
from bounded.decode import make_processor, obs_arch
from bounded.harness import all_vectors
m = {d.label: d for d in corpus.corpus(['inc', 'sel', 'con'], 'quick')}
dA, dB, enc = m[%(a)r], m[%(b)r], %(enc)r

def dec(desc, x, create, proc=None):
    b, gp = proc or make_processor(desc, enc)
    try:
        inst, xi, ai = gp.get_graph(list(x), create=create)
        return [[round(float(v), 9) for v in xi], [bool(v) for v in ai], sorted(obs_arch(b, inst)[0]) if inst is not None else None]
    except Exception as e:
        return ['raise', type(e).__name__]

bB, gB = make_processor(dB, enc)
X, _ = all_vectors(gB.des_vars, cap=32)
ref = {(tuple(x), c): dec(dB, x, c) for x in X for c in (False, True)}
# another processor, on a graph with the same variables, serves decodes (some of them of vectors that it has to correct)
bA, gA = make_processor(dA, enc)
XA, _ = all_vectors(gA.des_vars, cap=32)
for x in XA:
    for c in (False, True):
        dec(dA, x, c, proc=(bA, gA))
diff = []
for (x, c), want in ref.items():
    got = dec(dB, x, c)
    if got != want:
        diff.append([list(x), c, want, got])
print(json.dumps(diff))
'''


def cross_member(payload, tier, seed):
    """Decoding on a processor of graph B is the same before and after a processor of another graph A (same
    variables) has served decodes in the same process. Runs in a fresh interpreter."""
    import json
    import subprocess
    import sys
    import tempfile
    la, lb, enc = payload
    ctx = Ctx(None)
    here = os.path.dirname(os.path.dirname(os.path.abspath(__file__)))
    code = CROSS_CODE % dict(here=here, a=la, b=lb, enc=enc)
    with tempfile.TemporaryDirectory() as td:
        env = dict(os.environ, XDG_CACHE_HOME=td, PYTHONPATH=os.environ.get('VERIF_REPO', '/repo'))
        p = subprocess.run([sys.executable, '-c', code], capture_output=True, text=True, env=env)
    wit = [enc, 'other-processor', la, lb]
    if p.returncode != 0:
        ctx.check('C05.independent-of-other-processors', False, wit, 'subprocess failed: ' + p.stderr[-600:], (la, lb, enc))
        return ctx.result()
    diff = json.loads(p.stdout.strip().splitlines()[-1])
    ctx.check('C05.independent-of-other-processors', not diff, wit,
              f'after a processor of {la} served decodes, fresh processors of {lb} decode differently: {diff[:2]}', (la, lb, enc))
    return ctx.result()


def activeness_member(desc, tier, seed):
    """C07: the activeness listed with the enumeration of valid designs is the activeness decoding reports for that row,
    a variable that is not flagged conditionally active is active in every listed design, and inactive entries carry
    the canonical value."""
    from .decode import canonical
    ctx = Ctx(desc)
    try:
        b, gp = make_processor(desc, 'COMPLETE')
        dvs = gp.des_vars
        X, A = rows_of(gp)
    except Exception:
        return ctx.result()   # construction / enumeration failures are C01's and C04's clauses
    if X is None:
        return ctx.result()
    undecodable = set()       # rows that do not decode on the fresh processor either: C04's clause, not repeated here
    for x, a in zip(X, A):
        wit = ['COMPLETE', 'enumerated-row', x]
        nt = (desc.label, 'row', tuple(x))
        for k, dv in enumerate(dvs):
            if not dv.conditionally_active:
                ctx.check('C07.enumerated-unconditional-always-active', bool(a[k]), wit + [k],
                          f'variable {k} ({dv.name}) is not flagged conditionally active but listed inactive in row {x}', nt + (k,))
            if not a[k] and dv.is_discrete:
                ctx.check('C07.enumerated-inactive-canonical', abs(float(x[k]) - canonical(dv)) < 1e-9, wit + [k],
                          f'inactive variable {k} listed with value {x[k]}', nt + (k,))
        for create in (True, False):
            try:
                _, xi, ai = gp.get_graph(list(x), create=create)
            except Exception:
                undecodable.add((tuple(x), create))
                continue      # C04.row-decodes-to-itself
            cont = [k for k, dv in enumerate(dvs) if not dv.is_discrete]
            ctx.check('C07.enumeration-and-decode-agree-on-activeness',
                      [bool(v) for k, v in enumerate(ai) if k not in cont] == [bool(v) for k, v in enumerate(a) if k not in cont],
                      wit + [create], f'row {x}: listed activeness {list(a)}, decode (create={create}) reports {list(map(bool, ai))}', nt + (create,))
    # the same agreement on a processor that has been used before: a variable was fixed, vectors were decoded without
    # and with materialising while it was fixed, and it was released again
    for k0, dv0 in enumerate(dvs):
        if not dv0.is_discrete or k0 >= 2:
            continue
        try:
            gp.fix_des_var(dv0, dv0.n_opts - 1)
        except RuntimeError:
            break     # connection-choice variables cannot be fixed
        try:
            Xf, _ = rows_of(gp)
            for xf in (Xf if Xf is not None else [])[:8]:
                for create in (False, True):
                    try:
                        gp.get_graph(list(xf), create=create)
                    except Exception:  # noqa
                        pass
        finally:
            gp.free_des_var(dv0)
        for x, a in zip(X, A):
            wit = ['COMPLETE', 'enumerated-row-after-fix-and-release', x, k0]
            nt = (desc.label, 'row-after', tuple(x), k0)
            for create in (False, True):
                if (tuple(x), create) in undecodable:
                    continue
                try:
                    _, xi, ai = gp.get_graph(list(x), create=create)
                except Exception as e:  # noqa
                    ctx.check('C07.enumeration-and-decode-agree-on-activeness', False, wit + [create],
                              f'row {x} no longer decodes after fixing and releasing variable {k0}: {type(e).__name__}: {e}', nt + (create,))
                    continue
                cont = [k for k, dv in enumerate(dvs) if not dv.is_discrete]
                ok = [bool(v) for k, v in enumerate(ai) if k not in cont] == [bool(v) for k, v in enumerate(a) if k not in cont] and \
                    all(abs(float(xi[k]) - float(x[k])) < 1e-9 for k in range(len(dvs)) if k not in cont)
                ctx.check('C07.enumeration-and-decode-agree-on-activeness', ok, wit + [create],
                          f'after fixing and releasing variable {k0}: row {x} listed active {list(a)}, decode (create={create}) gives {list(xi)} active {list(map(bool, ai))}', nt + (create,))
    return ctx.result()
