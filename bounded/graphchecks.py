"""Run-time contracts on the graph-level API (apply selection choices in every order): C02, C06, C08."""
import itertools

from . import gen, specsem
from .harness import Ctx


def _own_closure(desc, node):
    """Nodes derived from `node` alone over plain derivation edges (no choice taken)."""
    succ = {}
    for u, v in desc.all_edges():
        succ.setdefault(u, []).append(v)
    seen, todo = set(), [node]
    while todo:
        n = todo.pop()
        if n not in seen:
            seen.add(n)
            todo += succ.get(n, [])
    return seen


def read_assignment(b, dsg):
    """The option taken for every choice of the description that is no longer a choice node of `dsg` while its
    originating node is present: read off the originating-node -> option derivation edges."""
    nodes, choices, conn, der = b.observe(dsg)
    a = {}
    present_choices = set(choices)
    for c in b.desc.choices:
        if c.cid in present_choices or c.origin not in nodes:
            continue
        taken = [o for o in c.options if (c.origin, o) in der]
        if len(taken) == 1:
            a[c.cid] = taken[0]
        elif len(taken) > 1:
            a[c.cid] = tuple(sorted(taken))
    return a


def walk(b, dsg, ctx, taken, leaves, seen, ref_adm, props, depth=0):
    from adsg_core.graph.adsg_nodes import SelectionChoiceNode
    desc = b.desc
    key = (tuple(sorted(taken.items())),)
    nodes, choices, conn, der = b.observe(dsg)
    sel_left = [c for c in desc.choices if c.cid in choices]
    wit = ['graph-api', sorted(taken.items())]
    nt = (desc.label, tuple(sorted(taken.items())))
    feasible = bool(dsg.feasible)
    ext = [a for a in ref_adm if all(a.get(c) == o for c, o in taken.items())]
    if 'C06' in props:
        # reported infeasible only if every completion of the choices made conflicts
        if not feasible:
            ctx.check('C06.infeasible-only-if-all-completions-conflict', len(ext) == 0, wit,
                      f'graph reported infeasible after {sorted(taken.items())} although {len(ext)} admissible '
                      f'assignments extend it, e.g. {sorted(ext[0].items()) if ext else None}', nt)
    next_nodes = [n for n in dsg.get_ordered_next_choice_nodes() if isinstance(n, SelectionChoiceNode)]
    if 'C06' in props and not feasible and depth < 6:
        # infeasibility is a verdict on the choices made so far: taking further choices that are still offered must
        # not turn the verdict back into "feasible" (the instance would be reported feasible although it is not the
        # closure of any admissible assignment)
        for cn in next_nodes:
            if cn not in dsg.graph.nodes:
                continue
            cid = str(cn.decision_id)
            try:
                opts = list(dsg.get_option_nodes(cn))
            except Exception:  # noqa
                continue
            for o in opts:
                try:
                    d2 = dsg.get_for_apply_selection_choice(cn, o)
                    f2 = bool(d2.feasible)
                except Exception:  # noqa
                    continue
                t2 = dict(taken)
                t2[cid] = b.name_of.get(o)
                ctx.check('C06.infeasible-stays-infeasible', not f2, wit + [cid, b.name_of.get(o)],
                          f'graph reported infeasible after {sorted(taken.items())} is reported feasible again after also '
                          f'taking {cid}={b.name_of.get(o)} (nodes {sorted(b.names(d2.graph.nodes))})', nt + (cid, b.name_of.get(o)))
                k2 = (tuple(sorted(t2.items())), 'via-infeasible', cid)
                if k2 not in seen and not f2:
                    seen.add(k2)
                    walk(b, d2, ctx, t2, [], seen, ref_adm, ('C06',), depth + 1)
    if not next_nodes or not feasible:
        if not [n for n in dsg.choice_nodes if isinstance(n, SelectionChoiceNode)] or not feasible:
            leaves.append((dict(taken), nodes, feasible, tuple(choices), der))
        else:
            ctx.check('C02.active-choices-offered', False, wit,
                      f'selection choices {choices} remain but none is offered as next choice', nt)
        return
    for cn in next_nodes:
        cid = str(cn.decision_id)
        c = desc.choice(cid)
        try:
            opts = list(dsg.get_option_nodes(cn))
        except Exception as e:  # noqa
            ctx.check(props[0] + '.offered-choice-is-in-the-graph', False, wit + [cid],
                      f'get_option_nodes({cid}) raised {type(e).__name__}: {e} for a choice offered by '
                      f'get_ordered_next_choice_nodes of a graph reported feasible={feasible}', nt + (cid,))
            continue
        for o in opts:
            oname = b.name_of.get(o)
            t2 = dict(taken)
            t2[cid] = oname
            if 'C06' in props and feasible:
                cl = specsem.closure(desc, {**read_assignment(b, dsg), **t2})
                # the failing situation named by the check itself: the option's OWN derivations (no other choice, no
                # other part of the instance involved) already contain both ends of a constraint
                own = _own_closure(desc, oname)
                self_conflict = any(x in own and y in own for x, y in desc.incompat)
                ctx.check('C06.offered-option-does-not-force-a-conflict', specsem.conflict_free(desc, cl),
                          wit + [cid, oname],
                          f'option {oname} of {cid} is offered although its closure {sorted(cl)} contains an '
                          f'incompatible pair', nt + (cid, oname),
                          wclass='option-derives-its-own-incompatible-node|graph-api' if self_conflict else None)
            k2 = (tuple(sorted(t2.items())), 'via', cid)
            if k2 in seen:
                continue
            seen.add(k2)
            try:
                d2 = dsg.get_for_apply_selection_choice(cn, o)
            except Exception as e:  # noqa
                ctx.check('C02.apply-choice-total', False, wit + [cid, oname],
                          f'get_for_apply_selection_choice raised {type(e).__name__}: {e}', nt + (cid, oname))
                continue
            walk(b, d2, ctx, t2, leaves, seen, ref_adm, props, depth + 1)


def reinit_member(desc, tier, seed, props=('C02',)):
    """History: a graph that has been initialised once is edited (one more derivation edge, from an option of the
    first choice to a node that so far only another option derives) and initialised again; the walk over all choice
    orders then has to agree with the closure semantics of the EDITED description."""
    if desc.constraints or desc.conn_choices or not desc.choices:
        return Ctx(desc).result()
    succ = {}
    for u, v in desc.all_edges():
        succ.setdefault(u, set()).add(v)
    for c in desc.choices:
        succ.setdefault(c.origin, set())
    opts_of = {c.cid: list(c.options) for c in desc.choices}

    def below(n):      # everything a node can lead to (derivations and any option of choices on the way)
        seen, todo = set(), [n]
        while todo:
            x = todo.pop()
            if x in seen:
                continue
            seen.add(x)
            todo += list(succ.get(x, ()))
            for c in desc.choices:
                if c.origin == x:
                    todo += list(c.options)
        return seen
    edit = None
    for c in desc.choices:
        if len(c.options) < 2:
            continue
        b_opt = c.options[-1]
        mine = below(b_opt)
        for other in c.options[:-1]:
            for x in desc.nodes:
                if x in below(other) and x not in mine and x != other and x not in desc.start and \
                        not any(x in cc.options for cc in desc.choices) and b_opt not in below(x):
                    edit = (b_opt, x)
                    break
            if edit:
                break
        if edit:
            break
    if edit is None:
        return Ctx(desc).result()
    desc2 = specsem.Desc(list(desc.nodes), list(desc.edges) + [edit], desc.start, choices=[tuple(c) for c in desc.choices],
                         incompat=desc.incompat, dvs=[tuple(d) for d in desc.dvs], metrics=[tuple(m) for m in desc.metrics],
                         label=f'{desc.label}+edge-{edit[0]}-{edit[1]}-after-initialisation')
    try:
        b = gen.Built(desc)
        b.dsg.add_edge(b.node[edit[0]], b.node[edit[1]])
        b.dsg = b.dsg.set_start_nodes({b.node[s_] for s_ in desc.start})
        b.desc = desc2
    except Exception as e:  # noqa
        ctx = Ctx(desc2)
        ctx.check('C02.re-initialisation-total', False, ['graph-api', 'edit'], f'{type(e).__name__}: {e}', (desc2.label, 'edit'))
        return ctx.result()
    return choice_member(desc2, tier, seed, props=props, prebuilt=b)


def choice_member(desc, tier, seed, props=('C02', 'C06'), prebuilt=None):
    ctx = Ctx(desc)
    ref_adm = specsem.admissible_assignments(desc)
    ref_nodes = {specsem.closure(desc, a) for a in ref_adm}
    try:
        b = prebuilt if prebuilt is not None else gen.Built(desc)
    except Exception as e:  # noqa
        ctx.check('C02.build', len(ref_adm) == 0, ['graph-api', 'build'], f'{type(e).__name__}: {e}', (desc.label, 'build'))
        return ctx.result()
    leaves = []
    walk(b, b.dsg, ctx, {}, leaves, set(), ref_adm, props)
    by_assignment = {}
    feasible_nodes = set()
    for taken, nodes, feasible, choices, der in leaves:
        wit = ['graph-api', sorted(taken.items())]
        nt = (desc.label, 'leaf', tuple(sorted(taken.items())))
        if feasible:
            feasible_nodes.add(nodes)
            # instance = closure of the assignment it carries
            a = {}
            for c in desc.choices:
                if c.origin in nodes:
                    tk = [o for o in c.options if (c.origin, o) in der]
                    if len(tk) == 1:
                        a[c.cid] = tk[0]
            cl = specsem.closure(desc, a)
            if 'C02' in props:
                ctx.check('C02.no-choice-left', len(choices) == 0 or all(cc in [x.cid for x in desc.conn_choices] for cc in choices),
                          wit, f'choice nodes {choices} left in a final instance', nt)
                ctx.check('C02.nothing-missing', cl <= nodes, wit, f'missing {sorted(cl - nodes)}', nt)
                ctx.check('C02.nothing-extra', nodes <= cl, wit, f'unreachable/unselected nodes remain: {sorted(nodes - cl)}', nt)
                ctx.check('C02.every-active-choice-resolved', all(c.cid in a for c in desc.choices if c.origin in nodes),
                          wit, f'active choice without exactly one wired option; assignment read {a}', nt)
                prev = by_assignment.setdefault(tuple(sorted(a.items())), nodes)
                ctx.check('C02.order-independent', prev == nodes, wit,
                          f'same assignment reached by another order gave {sorted(prev)} vs {sorted(nodes)}', nt)
            if 'C06' in props:
                bad = [(x, y) for x, y in desc.incompat if x in nodes and y in nodes]
                ctx.check('C06.no-feasible-instance-with-incompatible-pair', not bad, wit,
                          f'instance reported feasible contains both ends of {bad}', nt)
    if 'C02' in props or 'C06' in props:
        wit = ['graph-api', 'all-leaves']
        nt = (desc.label, 'leaves')
        ctx.check(('C02' if 'C02' in props else 'C06') + '.feasible-leaves-equal-admissible-closures',
                  feasible_nodes == ref_nodes, wit,
                  f'reachable feasible instances {len(feasible_nodes)}, reference {len(ref_nodes)}; missing '
                  f'{[sorted(m) for m in list(ref_nodes - feasible_nodes)[:2]]} extra '
                  f'{[sorted(m) for m in list(feasible_nodes - ref_nodes)[:2]]}', nt)
    ctx.samples.append(dict(desc=desc.label, leaves=len(leaves), feasible_leaves=len(feasible_nodes),
                            reference=len(ref_nodes)))
    return ctx.result()


def _closure_edges(graph, node, include_choice):
    """Specification of get_confirmed_edges_for_node: all edges reachable from `node` without passing through a
    choice node and without following incompatibility edges (edges into choice nodes only if asked for)."""
    from adsg_core.graph.graph_edges import iter_out_edges, get_edge_type, EdgeType
    from adsg_core.graph.adsg_nodes import ChoiceNode
    seen, stack, edges = {node}, [node], set()
    while stack:
        n = stack.pop()
        for e in iter_out_edges(graph, n):
            if get_edge_type(e) == EdgeType.INCOMPATIBILITY:
                continue
            if isinstance(e[1], ChoiceNode):
                if include_choice:
                    edges.add(e)
                continue
            edges.add(e)
            if e[1] not in seen:
                seen.add(e[1])
                stack.append(e[1])
    return edges


def _check_cached_walk(ctx, graph, label, rng, n_orders):
    from adsg_core.graph.traversal import get_confirmed_edges_for_node
    nodes = sorted(graph.nodes, key=str)
    for include_choice in (True, False):
        for k in range(n_orders):
            order = nodes[:]
            if k == 1:
                order.reverse()
            elif k > 1:
                rng.shuffle(order)
            cache = {}
            for nd in order:
                got = get_confirmed_edges_for_node(graph, nd, include_choice=include_choice, cache=cache)
                want = _closure_edges(graph, nd, include_choice)
                ok = ctx.check('C02.cached-confirmed-walk-equals-closure', got == want,
                               ['graph-api', label, include_choice, [str(x) for x in order], str(nd)],
                               f'missing {sorted(str(e[:2]) for e in want - got)} extra {sorted(str(e[:2]) for e in got - want)}',
                               (label, include_choice, k, str(nd)))
                if not ok:
                    break


def cached_walk_member(desc, tier, seed):
    """Bounded contract on traversal.get_confirmed_edges_for_node with a shared memo table: whatever was asked
    before, the answer for a node is its closure (the selection-choice application and the influence matrix read the
    memo table in an order that depends on the choices taken)."""
    import random
    ctx = Ctx(desc)
    try:
        b = gen.Built(desc)
    except Exception:  # noqa
        return ctx.result()
    rng = random.Random(f'{seed}-{desc.label}')
    _check_cached_walk(ctx, b.dsg.graph, 'initial', rng, 4 if tier == 'quick' else 10)
    return ctx.result()


def cached_walk_random(idx, tier, seed):
    """Same contract on seeded random multigraphs (3..12 nodes, up to 30 edges incl. parallel ones, 0..2 choices)."""
    import random
    import networkx as nx
    from adsg_core.graph.adsg_nodes import NamedNode, SelectionChoiceNode
    from adsg_core.graph.graph_edges import add_edge, HashableDict
    ctx = Ctx(None)
    per = 25
    for j in range(per):
        s = idx * per + j
        rng = random.Random(f'walk-{seed}-{s}')
        g = nx.MultiDiGraph()
        g.edge_attr_dict_factory = HashableDict
        nodes = [NamedNode(f'N{i}') for i in range(rng.randint(3, 12))]
        g.add_nodes_from(nodes)
        for _ in range(rng.randint(2, 30)):
            a, c = rng.sample(nodes, 2)
            add_edge(g, a, c)
        for i in range(rng.randint(0, 2)):
            ch = SelectionChoiceNode(f'C{i}')
            add_edge(g, rng.choice(nodes), ch)
            for o in rng.sample(nodes, 2):
                add_edge(g, ch, o)
        _check_cached_walk(ctx, g, f'random-{s}', rng, 3)
    return ctx.result()
