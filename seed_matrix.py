#!/usr/bin/env python3
"""Applies every seeded change to /repo in turn, runs the check of the property it breaks (quick tier), reverts, and
records which obligations / contract clauses fail. Writes seeded/RESULTS.md and meta.json['detected_by']."""
import json, os, subprocess, sys, glob, re
HERE = os.path.dirname(os.path.abspath(__file__))
rows = []
# by default the patches are applied to /repo itself (and reverted); with MATRIX_WT=<dir> a scratch worktree of /repo's
# HEAD is used instead, so that /repo stays free for other work
REPO = os.environ.get('MATRIX_WT', '/repo')
if REPO != '/repo':
    subprocess.run(['git', '-C', '/repo', 'worktree', 'add', '--detach', REPO, 'HEAD'], check=True, capture_output=True)
    os.environ['VERIF_REPO'] = REPO
    os.environ['VERIF_OUT'] = os.environ.get('MATRIX_OUT', '/tmp/matrix_out')   # evidence / replays of these runs are not the committed ones
    os.makedirs(os.environ['VERIF_OUT'], exist_ok=True)
assert not subprocess.run(['git', '-C', REPO, 'status', '--short'], capture_output=True, text=True).stdout.strip(), 'repo not clean'
for d in sorted(glob.glob(os.path.join(HERE, 'seeded', '*'))):
    if not os.path.isdir(d):
        continue
    meta = json.load(open(os.path.join(d, 'meta.json')))
    sid, prop = meta['id'], meta['breaks_property']
    if os.environ.get('MATRIX_ONLY') and not any(sid.startswith(x) for x in os.environ['MATRIX_ONLY'].split(',')):
        continue
    props = [prop] + [p for p in sys.argv[1:] if p != prop and False]
    if subprocess.run(['git', '-C', REPO, 'apply', os.path.join(d, 'patch.diff')]).returncode != 0:
        rows.append((sid, prop, 'patch-does-not-apply', 0, []))
        meta['detected_by'] = dict(check=prop, exit_code='patch-does-not-apply', violations=0, failed=[])
        json.dump(meta, open(os.path.join(d, 'meta.json'), 'w'), indent=1)
        print(sid, prop, 'PATCH DOES NOT APPLY', flush=True)
        continue
    try:
        p = subprocess.run([os.path.join(HERE, 'check'), prop], capture_output=True, text=True)
    finally:
        subprocess.run(['git', '-C', REPO, 'checkout', '--', '.'], check=True)
    failed = sorted(set(re.findall(r'^FAILED: (.*)$', p.stdout, re.M)))
    nviol = len(re.findall(r'^VIOLATION', p.stdout, re.M))
    meta['detected_by'] = dict(check=prop, exit_code=p.returncode, violations=nviol, failed=failed[:12])
    json.dump(meta, open(os.path.join(d, 'meta.json'), 'w'), indent=1)
    rows.append((sid, prop, p.returncode, nviol, failed))
    print(sid, prop, p.returncode, nviol, failed[:4], flush=True)
subprocess.run(['rm', '-rf', os.path.join(os.environ.get('VERIF_OUT') or HERE, 'replays')])
if REPO != '/repo':
    subprocess.run(['git', '-C', '/repo', 'worktree', 'remove', '--force', REPO])
# the table is rebuilt from the recorded result of every seed (a run restricted with MATRIX_ONLY updates its rows only)
with open(os.path.join(HERE, 'seeded', 'RESULTS.md'), 'w') as f:
    f.write('| seed | property | check exit | VIOLATION lines | failing obligations / clauses |\n|---|---|---|---|---|\n')
    for d in sorted(glob.glob(os.path.join(HERE, 'seeded', '*'))):
        if not os.path.isdir(d):
            continue
        meta = json.load(open(os.path.join(d, 'meta.json')))
        det = meta.get('detected_by') or {}
        f.write(f"| {meta['id']} | {meta['breaks_property']} | {det.get('exit_code')} | {det.get('violations')} | {'; '.join((det.get('failed') or [])[:6])} |\n")
