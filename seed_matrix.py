#!/usr/bin/env python3
"""Applies every seeded change to /repo in turn, runs the check of the property it breaks (quick tier), reverts, and
records which obligations / contract clauses fail. Writes seeded/RESULTS.md and meta.json['detected_by']."""
import json, os, subprocess, sys, glob, re
HERE = os.path.dirname(os.path.abspath(__file__))
rows = []
# by default the patches are applied to /repo itself (and reverted); with MATRIX_WT=<dir> a scratch worktree of /repo's
# HEAD is used instead, so that /repo stays free for other work
REPO = os.environ.get('MATRIX_WT', '/repo')
if REPO != '/repo':
    subprocess.run(['git', '-C', '/repo', 'worktree', 'add', '--detach', REPO, 'HEAD'], check=True, capture_output=True)
    os.environ['VERIF_REPO'] = REPO
    os.environ['VERIF_OUT'] = os.environ.get('MATRIX_OUT', '/tmp/matrix_out')   # evidence / replays of these runs are not the committed ones
    os.makedirs(os.environ['VERIF_OUT'], exist_ok=True)
assert not subprocess.run(['git', '-C', REPO, 'status', '--short'], capture_output=True, text=True).stdout.strip(), 'repo not clean'
for d in sorted(glob.glob(os.path.join(HERE, 'seeded', '*'))):
    if not os.path.isdir(d):
        continue
    meta = json.load(open(os.path.join(d, 'meta.json')))
    sid, prop = meta['id'], meta['breaks_property']
    props = [prop] + [p for p in sys.argv[1:] if p != prop and False]
    if subprocess.run(['git', '-C', REPO, 'apply', os.path.join(d, 'patch.diff')]).returncode != 0:
        rows.append((sid, prop, 'patch-does-not-apply', 0, []))
        print(sid, prop, 'PATCH DOES NOT APPLY', flush=True)
        continue
    try:
        p = subprocess.run([os.path.join(HERE, 'check'), prop], capture_output=True, text=True)
    finally:
        subprocess.run(['git', '-C', REPO, 'checkout', '--', '.'], check=True)
    failed = sorted(set(re.findall(r'^FAILED: (.*)$', p.stdout, re.M)))
    nviol = len(re.findall(r'^VIOLATION', p.stdout, re.M))
    meta['detected_by'] = dict(check=prop, exit_code=p.returncode, violations=nviol, failed=failed[:12])
    json.dump(meta, open(os.path.join(d, 'meta.json'), 'w'), indent=1)
    rows.append((sid, prop, p.returncode, nviol, failed))
    print(sid, prop, p.returncode, nviol, failed[:4], flush=True)
subprocess.run(['rm', '-rf', os.path.join(os.environ.get('VERIF_OUT') or HERE, 'replays')])
if REPO != '/repo':
    subprocess.run(['git', '-C', '/repo', 'worktree', 'remove', '--force', REPO])
with open(os.path.join(HERE, 'seeded', 'RESULTS.md'), 'w') as f:
    f.write('| seed | property | check exit | VIOLATION lines | failing obligations / clauses |\n|---|---|---|---|---|\n')
    for sid, prop, rc, n, failed in rows:
        f.write(f'| {sid} | {prop} | {rc} | {n} | {"; ".join(failed[:6])} |\n')
