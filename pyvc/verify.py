"""pyvc: per-function verification run (VC generation + discharge)."""
import ast
import time
import subprocess
import tempfile
import os
import z3
from . import ty as T
from .ty import Ty, INT, BOOL, REAL, STR, REF, NONE, sort_of, parse_type
from .core import V, PY, CellLoc, FieldLoc, State, Obligation, Unsupported, fresh, fresh_name
from .engine import I0, And
from .stmts import FunctionEngine, loop_sig
from .db import ContractDB

DROPPED_DECORATORS = ('staticmethod', 'classmethod', 'property', 'cached_property', 'cached_function',
                      'functools.lru_cache', 'numba.njit', 'njit', 'numba.jit',
                      'catch_memory_overflow')   # retries the body once in memory-save mode after a MemoryError


class FuncRun(FunctionEngine):
    def generate(self):
        c = self.contract
        node, seg = self.db.find_function(self.key)
        self.node = node
        self.line0 = node.lineno
        self.loop_ord = {}
        self.used_loops = set()
        seen = {}
        for n in ast.walk(node):
            if isinstance(n, (ast.For, ast.While)):
                sig = loop_sig(n)
                self.loop_ord[id(n)] = seen.get(sig, 0)
                seen[sig] = seen.get(sig, 0) + 1
        self.call_ord = {}
        seen = {}
        for n in ast.walk(node):
            if isinstance(n, ast.Call):
                sig = ast.unparse(n.func)
                self.call_ord[id(n)] = seen.get(sig, 0)
                seen[sig] = seen.get(sig, 0) + 1
        for d in node.decorator_list:
            ds = ast.unparse(d).split('(')[0]
            if ds not in DROPPED_DECORATORS:
                raise Unsupported(f'decorator {ds} is not in the dropped list')
        st = State()
        types = c.get('types', {})
        params = [a.arg for a in node.args.args]
        if node.args.vararg or node.args.kwarg or node.args.kwonlyargs:
            raise Unsupported('varargs')
        ndef = len(node.args.defaults)
        self.param_vals = {}
        for i, p in enumerate(params):
            if p not in types:
                raise Unsupported(f'parameter {p} has no declared type in the contract')
            t = parse_type(types[p])
            term = z3.Const(f'p!{p}', sort_of(t))
            v = self.new_cell(st, t, term, track=False) if t.is_container else V(t, term)
            st.env[p] = v
            self.param_vals[p] = v
        # free variables of nested functions (closure variables) are treated like parameters
        for p, pty in c.get('free', {}).items():
            t = parse_type(pty)
            term = z3.Const(f'p!{p}', sort_of(t))
            st.env[p] = self.new_cell(st, t, term, track=False) if t.is_container else V(t, term)
            self.param_vals[p] = st.env[p]
        st.alloc = []
        for gname, gty in c.get('ghost', {}).items():
            t = parse_type(gty)
            st.env[gname] = V(t, z3.Const(f'ghost!{gname}', sort_of(t)))
        if c.get('yields'):
            yt = Ty('List', (parse_type(c['yields']),))
            st.Y = self.new_cell(st, yt, T.seq_mk(yt, I0, z3.K(z3.IntSort(), fresh(yt.args[0], 'y0'))), track=False)
        self.func_pre = None
        self.pre_env = None
        self.spec_pre = None
        # segment contracts: start at a marked statement with declared live variables
        body = list(node.body)
        if c.get('start_at'):
            idx = None
            for i, s in enumerate(body):
                if ast.unparse(s).startswith(c['start_at']):
                    idx = i
                    break
            if idx is None:
                raise LookupError(f'start_at statement not found in {self.key}: {c["start_at"]!r}')
            body = body[idx:]
            for lname, lty in c.get('live', {}).items():
                t = parse_type(lty)
                term = z3.Const(f'live!{lname}', sort_of(t))
                st.env[lname] = self.new_cell(st, t, term, track=False) if t.is_container else V(t, term)
                self.param_vals[lname] = st.env[lname]
            st.alloc = []
        if c.get('stop_before'):
            for i, s in enumerate(body):
                if ast.unparse(s).startswith(c['stop_before']):
                    body = body[:i]
                    break
            else:
                raise LookupError(f'stop_before statement not found in {self.key}')
        env0 = dict(st.env)
        self.pre_env = env0
        pre0 = st.copy()
        self.func_pre = pre0
        self.spec_pre = pre0
        for lab, r in self.norm_clauses(c.get('requires', ())):
            st.assume(self.eval_spec(r, env0, st, pre=pre0))
        # instantiate lemmas/axioms given by the contract
        for lab, a in self.norm_clauses(c.get('axioms', ())):
            st.assume(self.eval_spec(a, env0, st, pre=pre0))
        # induction lemmas: proved here by the induction schema (base + step obligations), then available as facts
        for lname, lem in (c.get('lemmas') or {}).items():
            var = lem['var']
            lo = self.coerce(self.eval_spec_expr(lem['lo'], env0, st, pre0), INT, st).t
            hi = self.coerce(self.eval_spec_expr(lem['hi'], env0, st, pre0), INT, st).t
            j = z3.Int(fresh_name('ind_' + var))

            def stmt(term):
                e2 = dict(env0)
                e2[var] = V(INT, term)
                return self.eval_spec(lem['stmt'], e2, st, pre=pre0)
            if lem.get('direction', 'up') == 'up':
                self.emit(st, 'lemma', f'{lname}:base', stmt(lo), tag='carrier')
                self.emit(st, 'lemma', f'{lname}:step', z3.Implies(z3.And(lo <= j, j < hi, stmt(j)), stmt(j + 1)), tag='carrier')
            else:
                self.emit(st, 'lemma', f'{lname}:base', stmt(hi), tag='carrier')
                self.emit(st, 'lemma', f'{lname}:step', z3.Implies(z3.And(lo <= j, j < hi, stmt(j + 1)), stmt(j)), tag='carrier')
            q = z3.Int(fresh_name('lem_' + var))
            st.assume(z3.ForAll([q], z3.Implies(z3.And(lo <= q, q <= hi), stmt(q))))
        pre = st.copy()
        self.func_pre = pre
        self.spec_pre = pre
        self.emit(st, 'cover', 'requires', z3.BoolVal(True), expect_sat=True)
        results = self.exec_block(body, st)
        self.npaths = len(results)
        unused = set(c.get('loops', {})) - self.used_loops
        if unused:
            raise LookupError(f'loop(s) named in the contract were not found in {self.key}: {sorted(unused)}')
        nret = 0
        for (cur, o) in results:
            if o.kind == 'normal':
                from .engine import Outcome
                o = Outcome('return', val=self.const(None))   # never mutate the shared NORMAL outcome
                self._seg_end = bool(c.get('stop_before'))      # falling off a segment: `result` is None, not coerced
            else:
                self._seg_end = False
            if o.kind in ('break', 'continue'):
                raise Unsupported('break/continue outside loop')
            if o.kind == 'return':
                nret += 1
                self.at_return(cur, o.val, env0, pre)
            else:
                self.at_raise(cur, o.exc, env0, pre)
        return self.obls

    def result_value(self, cur, val):
        c = self.contract
        if c.get('returns') and not getattr(self, '_seg_end', False):
            t = parse_type(c['returns'])
            val = self.materialize_empty(val, t, cur) if t.is_container else val
            cv = self.coerce(val, t, cur, 'return value')
            if val.loc is not None and cv.loc is None:
                cv = V(cv.ty, cv.t, val.loc)
            return cv
        return val

    def at_return(self, cur, val, env0, pre):
        c = self.contract
        env = dict(env0)
        # locals visible to segment contracts / ghost access (prefixed names never clash with parameters)
        for k, v in cur.env.items():
            if k not in env and not k.startswith('!'):
                env[k] = v
        if c.get('post_locals'):
            for k in c['post_locals']:
                if k in cur.env:
                    env['final_' + k] = cur.env[k]
        env['result'] = self.result_value(cur, val)
        self._cur_result = env['result']
        if cur.Y is not None:
            env['Y'] = cur.Y
        self.emit(cur, 'cover', 'path:' + ('/'.join(cur.trace) or 'straight'), z3.BoolVal(True), expect_sat=True)
        for lab, (exc, when) in (c.get('raises') or {}).items():
            pv = pre.copy()
            pv.pc = cur.pc    # pre-state heap, current path condition (definitional facts of spec terms land here)
            w = self.eval_spec(when, env0, pv, pre=pre)
            self.emit(cur, 'raises', f'{lab}:must-raise', z3.Not(w), tag='property')
        for lab, (exc, when) in (c.get('must_raise') or {}).items():
            # one-directional: whenever `when` holds on entry the function must not return normally
            pv = pre.copy()
            pv.pc = cur.pc
            w = self.eval_spec(when, env0, pv, pre=pre)
            self.emit(cur, 'raises', f'{lab}:must-raise', z3.Not(w), tag='property')
        ens = c.get('ensures', {})
        for lab, item in ens.items():
            tag, expr = item if isinstance(item, tuple) else ('carrier', item)
            g = self.eval_spec(expr, env, cur, pre=pre)
            self.emit(cur, 'post', lab, g, tag=tag)
        self.frame_obligations(cur, env0, pre)

    def at_raise(self, cur, exc, env0, pre):
        c = self.contract
        self._cur_result = None
        self.emit(cur, 'cover', 'path:' + ('/'.join(cur.trace) or 'straight') + f'!{exc}', z3.BoolVal(True),
                  expect_sat=True)
        whens = []
        for lab, (e, when) in (c.get('raises') or {}).items():
            if e == exc:
                pv = pre.copy()
                pv.pc = cur.pc
                whens.append(self.eval_spec(when, env0, pv, pre=pre))
        if whens:
            self.emit(cur, 'raises', f'{exc}:only-when', z3.Or(*whens), tag='property')
        elif exc in c.get('may_raise', ()):
            pass
        else:
            self.emit(cur, 'raises', f'unexpected:{exc}', z3.BoolVal(False), tag='property')
        if c.get('unchanged_on_raise', True):
            self.frame_obligations(cur, env0, pre, on_raise=True)

    def frame_obligations(self, cur, env0, pre, on_raise=False):
        c = self.contract
        if c.get('no_frame'):
            return
        mods = list(c.get('modifies', ()))
        if on_raise and 'modifies_on_raise' in c:
            mods = list(c['modifies_on_raise'])
        # (1) container parameters that are not listed stay unchanged
        for p, v in self.param_vals.items():
            if v.ty.is_container and p not in mods:
                now = self.load(v, cur)
                was = self.load(v, pre)
                if not z3.eq(now, was):
                    self.emit(cur, 'frame', f'param {p} unchanged', self.equals(V(v.ty, now), V(v.ty, was), cur),
                              tag='property')
        # (2) field maps: only listed (object.field) locations may differ
        allowed = {}
        whole = set()
        for m in mods:
            if '.' in m:
                head, fld = m.split('.', 1)
                if head in env0 and env0[head].ty.kind == 'Ref':
                    key, decl = self.field_decl(env0[head].ty.cls, fld)
                    allowed.setdefault(key, []).append(env0[head].t)
                else:
                    key, decl = self.field_decl(head, fld)
                    if key:
                        whole.add(key)
        if 'result' in [m.split('.')[0] for m in mods] and getattr(self, '_cur_result', None) is not None:
            env0 = dict(env0)
            env0['result'] = self._cur_result
            for m in mods:
                if m.startswith('result.') and env0['result'].ty.kind == 'Ref':
                    key, decl = self.field_decl(env0['result'].ty.cls, m.split('.', 1)[1])
                    allowed.setdefault(key, []).append(env0['result'].t)
        for key, arr in cur.fields.items():
            if key == '!alloc':
                continue
            was = pre.fields.get(key)
            if was is None:
                was = z3.Const(f'fld0!{key}', arr.sort())
            if z3.eq(arr, was) or key in whole:
                continue
            fty = cur.field_ty[key]
            label = f'field {key} unchanged' + (' except listed' if allowed.get(key) else '')
            # the field map is a chain of point updates of the initial map: it suffices that every written location
            # is allowed or was written back with its old value (quantifier-free; gives counter-models)
            writes = []
            base = arr
            while z3.is_app(base) and base.decl().kind() == z3.Z3_OP_STORE:
                writes.append((base.arg(1), base.arg(2)))
                base = base.arg(0)
            if z3.eq(base, was):
                goals = []
                for (idx, val) in writes:
                    exc = [idx != o for o in allowed.get(key, [])]
                    eq = self.equals(V(fty, z3.Select(arr, idx)), V(fty, z3.Select(was, idx)), cur)
                    goals.append(z3.Implies(And(*exc), eq))
                self.emit(cur, 'frame', label, And(*goals), tag='property')
                continue
            r = z3.Const(fresh_name('r'), T.RefSort)
            exc = [r != o for o in allowed.get(key, [])]
            eq = self.equals(V(fty, T.Sel(arr, r)), V(fty, T.Sel(was, r)), cur)
            self.emit(cur, 'frame', label, z3.ForAll([r], z3.Implies(And(*exc), eq)), tag='property')


# ---------------------------------------------------------------------------------------- discharge

class Result:
    def __init__(self, name, kind, tag):
        self.name = name
        self.kind = kind
        self.tag = tag
        self.status = 'discharged'
        self.instances = 0
        self.backend = 'z3'
        self.ms = 0.0
        self.model = None
        self.detail = ''
        self.expect_sat = False
        self.rlimit = 0      # largest z3 resource count one solver call of this obligation consumed

    def to_json(self):
        return dict(name=self.name, kind=self.kind, tag=self.tag, status=self.status, instances=self.instances,
                    backend=self.backend, ms=round(self.ms, 1), detail=self.detail, rlimit=self.rlimit)


def split_goal(g, depth=0):
    """Top-level conjunctions and boolean equivalences are split into separately checked sub-goals."""
    if depth > 6:
        return [g]
    if z3.is_and(g):
        out = []
        for c in g.children():
            out += split_goal(c, depth + 1)
        return out
    if z3.is_eq(g) and g.arg(0).sort() == z3.BoolSort():
        a, b = g.arg(0), g.arg(1)
        if z3.is_true(a) or z3.is_true(b):
            return split_goal(b if z3.is_true(a) else a, depth + 1)
        if z3.is_false(a) or z3.is_false(b):
            return [z3.Not(b if z3.is_false(a) else a)]
        return [z3.Implies(a, b), z3.Implies(b, a)]
    if z3.is_implies(g):
        subs = split_goal(g.arg(1), depth + 1)
        if len(subs) > 1:
            return [z3.Implies(g.arg(0), x) for x in subs]
    return [g]


def check_one(o, axioms, timeout_ms, rlimit=None, want_model=True):
    if o.expect_sat:
        # reachability (vacuity guard): decided on the quantifier-free part of the path condition
        from .stmts import has_quant
        s = z3.Solver()
        s.set('timeout', 2000)
        for a in o.assumptions:
            if not has_quant(a):
                s.add(a)
        t0 = time.time()
        r = s.check()
        return r, (time.time() - t0) * 1000, None, s
    subs = split_goal(o.goal)
    tot = 0.0
    last = None
    for g in subs:
        r, ms, model, s = _check(o, axioms, g, timeout_ms, want_model)
        tot += ms
        last = (r, tot, model, s)
        if r != z3.unsat:
            return last
    return last


# z3 resource units that correspond to about one second of solving on an idle core of this machine (calibrated on the
# slowest obligations of the unchanged tree, see DESIGN section 16)
RLIMIT_PER_S = int(os.environ.get('VERIF_RLIMIT_PER_S', '3000000'))

RL_STATE = {'last': 0, 'max_call': 0, 'func_used': 0}
FUNC_BUDGET = 25 * RLIMIT_PER_S           # overall z3 resource budget of one function (one process per function)

ATTEMPTS = (('default', {}), ('ematch', {'auto_config': False, 'smt.mbqi': False}),
            ('seed7', {'smt.random_seed': 7}), ('seed23-ematch', {'auto_config': False, 'smt.mbqi': False,
                                                                     'smt.random_seed': 23}))


def _check(o, axioms, goal, timeout_ms, want_model=True):
    """One sub-goal; small portfolio of configurations on `unknown`; only a configuration with MBQI may return a
    counter-model."""
    r = model = s = None
    ms = 0.0
    # a function that has already used up its overall budget (only possible on changed code: the unchanged tree needs
    # a sixth of it for its most expensive function) gets one short attempt per remaining obligation
    exhausted = RL_STATE.get('func_used', 0) > FUNC_BUDGET
    for attempt, opts in (ATTEMPTS[:1] if exhausted else ATTEMPTS):
        s = z3.Solver()
        # budget: z3's deterministic resource counter (the verdict then does not depend on how busy the machine is);
        # the wall-clock limit is only a safety net, eight times what the budget needs on an idle core
        budget = RLIMIT_PER_S * timeout_ms // 1000 if not exhausted else RLIMIT_PER_S * 2
        s.set('rlimit', budget if attempt == 'default' else max(budget // 2, RLIMIT_PER_S * 2))
        s.set('timeout', 8 * (timeout_ms if attempt == 'default' else max(2000, timeout_ms // 2)))
        for k, v in opts.items():
            s.set(k, v)
        for a in axioms:
            s.add(a)
        for a in o.assumptions:
            s.add(a)
        if goal is not None:
            s.add(z3.Not(goal))
        t0 = time.time()
        r = s.check()
        ms += (time.time() - t0) * 1000
        try:
            now = s.statistics().get_key_value('rlimit count')     # cumulative over the process
            RL_STATE['max_call'] = max(RL_STATE['max_call'], now - RL_STATE['last'])
            RL_STATE['func_used'] = RL_STATE.get('func_used', 0) + (now - RL_STATE['last'])
            RL_STATE['last'] = now
        except Exception:  # noqa
            pass
        if r == z3.unsat:
            break
        if r == z3.sat and 'smt.mbqi' not in opts:
            break
        if r == z3.sat:
            r = z3.unknown
    model = None
    if r == z3.sat and want_model and not o.expect_sat:
        try:
            model = s.model()
        except Exception:
            model = None
    return r, ms, model, s


def cvc5_check(solver, timeout_s):
    """Second back end: the same query through SMT-LIB2 to the cvc5 binary (takes over z3's unknowns)."""
    smt = solver.to_smt2()
    if 'lambda' in smt:
        return 'unknown', 'query uses lambda terms (not exported to cvc5)'
    fd, path = tempfile.mkstemp(suffix='.smt2', dir=os.environ.get('VERIF_TMP') or None)
    try:
        with os.fdopen(fd, 'w') as f:
            f.write('(set-logic ALL)\n' + smt)
        try:
            p = subprocess.run(['/usr/bin/cvc5', '--tlimit', str(int(timeout_s * 1000)), path],
                               capture_output=True, text=True, timeout=timeout_s + 5)
        except subprocess.TimeoutExpired:
            return 'unknown', 'cvc5 timeout'
        out = p.stdout.strip().splitlines()
        return (out[0] if out else 'unknown'), (p.stderr.strip()[:200])
    finally:
        os.unlink(path)


def discharge(obls, axioms, timeout_ms=10000, use_cvc5=True, stop_at_first=False):
    """Aggregates path instances by obligation name. An obligation is discharged iff every instance is unsat
    (or sat for cover obligations)."""
    results = {}
    for o in obls:
        # (self-test of a deliberately broken function: one obligation that is not discharged is all that is asked for)
        if stop_at_first and any(r_.status not in ('discharged', 'vacuous') for r_ in results.values()):
            break
        res = results.get(o.name)
        if res is None:
            res = results[o.name] = Result(o.name, o.kind, o.tag)
            res.expect_sat = o.expect_sat
        res.instances += 1
        if res.status not in ('discharged',):
            continue
        if z3.is_true(o.goal) and not o.expect_sat:
            continue
        RL_STATE['max_call'] = 0
        r, ms, model, solver = check_one(o, axioms, timeout_ms)
        res.ms += ms
        res.rlimit = max(res.rlimit, RL_STATE['max_call'])
        if o.expect_sat:
            if r == z3.unsat:
                res.status = 'vacuous'
                res.detail = f'path/precondition unreachable: {o.path}'
            # unknown on a cover obligation is accepted (reachability is a sanity check only)
            continue
        if r == z3.unsat:
            continue
        if r == z3.unknown and use_cvc5 and RL_STATE.get('func_used', 0) <= FUNC_BUDGET:
            t0 = time.time()
            r2, info = cvc5_check(solver, timeout_ms / 1000.0)
            res.ms += (time.time() - t0) * 1000
            if r2 == 'unsat':
                res.backend = 'z3+cvc5'
                continue
            if r2 == 'sat':
                res.status = 'failed'
                res.backend = 'cvc5'
                res.detail = f'cvc5 sat on path {o.path}'
                continue
            res.status = 'unknown'
            res.detail = f'z3 unknown ({solver.reason_unknown()}), cvc5 {r2} {info} on path {o.path}'
            continue
        if r == z3.unknown:
            res.status = 'unknown'
            res.detail = f'z3 unknown ({solver.reason_unknown()}) on path {o.path}'
            continue
        res.status = 'failed'
        res.model = model
        res.detail = f'counter-model on path {o.path or "straight"} (line {o.line})'
        res.failed_obl = o
    return list(results.values())


def verify_function(db, key, timeout_ms=10000, use_cvc5=True, stop_at_first=False):
    """Returns dict(key, status, results[], error, npaths, source_hash, assumed)."""
    t0 = time.time()
    out = dict(key=key, results=[], error=None, npaths=0, assumed=[], wall_s=0.0)
    RL_STATE['func_used'] = 0
    try:
        out['source_hash'] = db.source_hash(key)
        eng = FuncRun(db, key, db.root)
        obls = eng.generate()
        out['npaths'] = eng.npaths
        out['assumed'] = sorted(set(eng.assumed))
        axioms = list(db.axioms) + [T.str_distinct_axiom()] + T.col_axioms()
        res = discharge(obls, axioms, timeout_ms, use_cvc5, stop_at_first)
        out['results'] = res
        out['engine'] = eng
    except Unsupported as e:
        out['error'] = f'out of reach: {e}'
    except LookupError as e:
        out['error'] = f'not found: {e}'
    out['wall_s'] = time.time() - t0
    return out
