"""Type descriptors of the pyvc contract language and their z3 sorts.

Grammar (strings in the sidecar contracts):
  Int | Bool | Real | Str | Ref | Ref[Class] | Enum[Class] | NoneT
  Optional[T] | List[T] | Set[T] | Dict[K,V] | Tuple[T1,...,Tn] | Np1[T] | Np2[T]
Every type has a z3 *value* sort (containers are immutable values at the SMT level; the executor adds
locations on top for aliasing between variables and fields).
"""
import z3

Z = z3


class Ty:
    __slots__ = ('kind', 'args', 'cls')

    def __init__(self, kind, args=(), cls=None):
        self.kind = kind
        self.args = tuple(args)
        self.cls = cls

    def __eq__(self, o):
        return isinstance(o, Ty) and self.kind == o.kind and self.args == o.args and \
            (self.cls == o.cls or self.kind == 'Ref')

    def __hash__(self):
        return hash((self.kind, self.args))

    def __repr__(self):
        if self.kind in ('Ref', 'Enum') and self.cls:
            return f'{self.kind}[{self.cls}]'
        if self.args:
            return f'{self.kind}[{",".join(map(repr, self.args))}]'
        return self.kind

    @property
    def key(self):
        if self.kind == 'Ref':
            return 'Ref'
        if self.kind == 'Enum':
            return 'Int'
        if self.args:
            return f'{self.kind}_{"_".join(a.key for a in self.args)}_'
        return self.kind

    @property
    def is_container(self):
        return self.kind in ('List', 'Set', 'Dict', 'Np1', 'Np2', 'ODict')


INT = Ty('Int')
BOOL = Ty('Bool')
REAL = Ty('Real')
STR = Ty('Str')
REF = Ty('Ref')
NONE = Ty('NoneT')


def Opt(t):
    return t if t.kind == 'Optional' else Ty('Optional', (t,))


def ListT(t):
    return Ty('List', (t,))


def SetT(t):
    return Ty('Set', (t,))


def DictT(k, v):
    return Ty('Dict', (k, v))


def TupleT(*ts):
    return Ty('Tuple', ts)


def parse_type(s):
    s = s.replace(' ', '')
    t, rest = _parse(s)
    if rest:
        raise ValueError(f'trailing text in type {s!r}: {rest!r}')
    return t


def _parse(s):
    i = 0
    while i < len(s) and (s[i].isalnum() or s[i] == '_'):
        i += 1
    name, rest = s[:i], s[i:]
    args = []
    if rest.startswith('['):
        rest = rest[1:]
        if name in ('Ref', 'Enum'):
            j = rest.index(']')
            return Ty(name, (), rest[:j]), rest[j + 1:]
        while True:
            a, rest = _parse(rest)
            args.append(a)
            if rest.startswith(','):
                rest = rest[1:]
                continue
            if rest.startswith(']'):
                rest = rest[1:]
                break
            raise ValueError(f'bad type syntax near {rest!r}')
    if name in ('Int', 'Bool', 'Real', 'Str', 'NoneT'):
        return Ty(name), rest
    if name in ('Ref', 'Opaque', 'Any', 'Node'):
        return Ty('Ref', (), None), rest
    if name == 'Num':
        return REAL, rest
    if name == 'Optional':
        return Opt(args[0]), rest
    if name in ('List', 'Set', 'Np1', 'Np2'):
        return Ty(name, args), rest
    if name == 'ODict':
        return Ty('ODict', args), rest
    if name == 'Dict':
        return Ty('Dict', args), rest
    if name == 'Tuple':
        return Ty('Tuple', args), rest
    raise ValueError(f'unknown type {name!r}')


_sorts = {}
RefSort = z3.DeclareSort('Ref')
StrSort = z3.DeclareSort('Str')


class SortInfo:
    pass


def sort_of(t):
    k = t.key
    if k in _sorts:
        return _sorts[k].sort
    info = SortInfo()
    if t.kind in ('Int', 'Enum'):
        info.sort = z3.IntSort()
    elif t.kind == 'Bool':
        info.sort = z3.BoolSort()
    elif t.kind == 'Real':
        info.sort = z3.RealSort()
    elif t.kind == 'Ref':
        info.sort = RefSort
    elif t.kind == 'Str':
        info.sort = StrSort
    elif t.kind == 'NoneT':
        info.sort, info.mk, _ = z3.TupleSort('NoneT', [])
    elif t.kind == 'Optional':
        inner = sort_of(t.args[0])
        d = z3.Datatype('Opt_' + t.args[0].key)
        d.declare('none')
        d.declare('some', ('val', inner))
        d = d.create()
        info.sort = d
    elif t.kind in ('List', 'Np1'):
        inner = sort_of(t.args[0])
        d = z3.Datatype('Seq_' + t.args[0].key)
        d.declare('mk', ('len', z3.IntSort()), ('arr', z3.ArraySort(z3.IntSort(), inner)))
        info.sort = d.create()
        k = Ty('List', t.args).key
        _sorts[Ty('Np1', t.args).key] = info
    elif t.kind == 'ODict':
        # insertion-ordered dict: the sequence of its (key, value) items (keys pairwise distinct)
        info.sort = sort_of(Ty('List', (Ty('Tuple', t.args),)))
    elif t.kind == 'Np2':
        inner = sort_of(t.args[0])
        d = z3.Datatype('Mat_' + t.args[0].key)
        d.declare('mk', ('n0', z3.IntSort()), ('n1', z3.IntSort()),
                  ('arr', z3.ArraySort(z3.IntSort(), z3.ArraySort(z3.IntSort(), inner))))
        info.sort = d.create()
    elif t.kind == 'Set':
        info.sort = z3.ArraySort(sort_of(t.args[0]), z3.BoolSort())
    elif t.kind == 'Dict':
        ks, vs = sort_of(t.args[0]), sort_of(t.args[1])
        d = z3.Datatype('Dict_' + t.args[0].key + '_' + t.args[1].key)
        d.declare('mk', ('dom', z3.ArraySort(ks, z3.BoolSort())), ('val', z3.ArraySort(ks, vs)))
        info.sort = d.create()
    elif t.kind == 'Tuple':
        d = z3.Datatype('Tup_' + '_'.join(a.key for a in t.args) + '_')
        d.declare('mk', *[(f'f{i}', sort_of(a)) for i, a in enumerate(t.args)])
        info.sort = d.create()
    else:
        raise ValueError(f'no sort for {t!r}')
    _sorts[k] = info
    return info.sort


# -- constructors / accessors on value sorts ------------------------------------------------------

def _acc(sort, cname, idx, term):
    """Accessor with constructor folding: acc_i(mk(a0..an)) -> a_i."""
    if z3.is_app(term) and term.decl().name() == cname and term.num_args() > idx and term.sort() == sort:
        return term.arg(idx)
    return None


def Sel(arr, *idx):
    """Select with beta-reduction when the array is a lambda term."""
    for i in idx:
        if z3.is_quantifier(arr) and arr.is_lambda() and arr.num_vars() == 1:
            arr = z3.substitute_vars(arr.body(), i)
        elif z3.is_app(arr) and arr.decl().kind() == z3.Z3_OP_CONST_ARRAY:
            arr = arr.arg(0)
        else:
            arr = z3.Select(arr, i)
    return arr


def seq_mk(t, ln, arr):
    return sort_of(t).mk(ln, arr)


def seq_len(t, term):
    r = _acc(sort_of(t), 'mk', 0, term)
    return r if r is not None else sort_of(t).len(term)


def seq_arr(t, term):
    r = _acc(sort_of(t), 'mk', 1, term)
    return r if r is not None else sort_of(t).arr(term)


def opt_none(t):
    return sort_of(t).none


def opt_some(t, v):
    return sort_of(t).some(v)


def opt_is_none(t, term):
    if z3.is_app(term) and term.sort() == sort_of(t):
        if term.decl().name() == 'none' and term.num_args() == 0:
            return z3.BoolVal(True)
        if term.decl().name() == 'some' and term.num_args() == 1:
            return z3.BoolVal(False)
    return sort_of(t).is_none(term)


def opt_val(t, term):
    r = _acc(sort_of(t), 'some', 0, term)
    return r if r is not None else sort_of(t).val(term)


def tup_mk(t, *vals):
    return sort_of(t).mk(*vals)


def tup_get(t, term, i):
    r = _acc(sort_of(t), 'mk', i, term)
    return r if r is not None else getattr(sort_of(t), f'f{i}')(term)


def dict_mk(t, dom, val):
    return sort_of(t).mk(dom, val)


def dict_dom(t, term):
    r = _acc(sort_of(t), 'mk', 0, term)
    return r if r is not None else sort_of(t).dom(term)


def dict_val(t, term):
    r = _acc(sort_of(t), 'mk', 1, term)
    return r if r is not None else sort_of(t).val(term)


def mat_mk(t, n0, n1, arr):
    return sort_of(t).mk(n0, n1, arr)


def mat_n0(t, term):
    r = _acc(sort_of(t), 'mk', 0, term)
    return r if r is not None else sort_of(t).n0(term)


def mat_n1(t, term):
    r = _acc(sort_of(t), 'mk', 1, term)
    return r if r is not None else sort_of(t).n1(term)


def mat_arr(t, term):
    r = _acc(sort_of(t), 'mk', 2, term)
    return r if r is not None else sort_of(t).arr(term)


_col = {}


def mat_col(elem_ty, arr, j):
    """Column j of a 2-D array as a 1-D array: uninterpreted `col` with its definitional axiom (see col_axioms)."""
    k = elem_ty.key
    if k not in _col:
        es = sort_of(elem_ty)
        _col[k] = z3.Function('col_' + k, z3.ArraySort(z3.IntSort(), z3.ArraySort(z3.IntSort(), es)), z3.IntSort(),
                              z3.ArraySort(z3.IntSort(), es))
    return _col[k](arr, j)


def col_axioms():
    out = []
    for k, f in _col.items():
        A = z3.Const('colA_' + k, f.domain(0))
        i, j = z3.Int('col_i'), z3.Int('col_j')
        out.append(z3.ForAll([A, i, j], z3.Select(f(A, j), i) == z3.Select(z3.Select(A, i), j),
                             patterns=[z3.Select(f(A, j), i)]))
    return out


_str_consts = {}


def str_const(s):
    """Interned string constants: distinct python strings are distinct Str values (axiom added by the solver layer)."""
    if s not in _str_consts:
        _str_consts[s] = z3.Const('str!' + str(len(_str_consts)), StrSort)
    return _str_consts[s]


def str_distinct_axiom():
    cs = list(_str_consts.values())
    return z3.Distinct(*cs) if len(cs) > 1 else z3.BoolVal(True)
