"""pyvc symbolic executor: real Python source (ast) + sidecar contract -> named SMT obligations.

See DESIGN.md section 2. Partial correctness only (termination is not proved).
"""
import ast
import z3
from . import ty as T
from .ty import Ty, INT, BOOL, REAL, STR, REF, NONE, sort_of, parse_type, Opt, ListT, SetT, DictT, TupleT
from .core import V, PY, CellLoc, FieldLoc, OptFieldLoc, State, Obligation, Unsupported, fresh, fresh_name

I0 = z3.IntVal(0)
I1 = z3.IntVal(1)


def zint(x):
    return z3.IntVal(x)


def And(*xs):
    xs = [x for x in xs if not z3.is_true(x)]
    if not xs:
        return z3.BoolVal(True)
    return xs[0] if len(xs) == 1 else z3.And(*xs)


def Implies(a, b):
    if z3.is_true(a):
        return b
    return z3.Implies(a, b)


def py_floordiv(a, b):
    """Python // on mathematical ints (floor), in terms of SMT-LIB div (euclidean)."""
    return z3.If(b > 0, a / b, -((-a) / (-b)) - z3.If((-a) % (-b) == 0, 0, 1) + z3.If((-a) % (-b) == 0, 0, 0)) \
        if False else z3.If(b > 0, a / b, z3.If((-a) % (-b) == 0, (-a) / (-b), (-a) / (-b)))


def floordiv(a, b):
    # SMT-LIB: a = b*(a div b) + (a mod b), 0 <= a mod b < |b|.  Python floor: sign of remainder follows b.
    # b > 0: floor(a/b) = a div b.  b < 0: floor(a/b) = floor((-a)/(-b)) = (-a) div (-b).
    return z3.If(b > 0, a / b, (-a) / (-b))


def pymod(a, b):
    # b > 0: a mod b.  b < 0: -((-a) mod (-b))
    return z3.If(b > 0, a % b, -((-a) % (-b)))


class Outcome:
    __slots__ = ('kind', 'val', 'exc')

    def __init__(self, kind, val=None, exc=None):
        self.kind = kind
        self.val = val
        self.exc = exc


NORMAL = Outcome('normal')


class IterModel:
    """Indexable iteration source: length n (z3 Int) and item(k, st) -> V."""

    def __init__(self, n, item, src_locs=(), setlike=None):
        self.n = n
        self.item = item
        self.src_locs = src_locs
        self.setlike = setlike  # (V set) for order-agnostic iteration


class Closure:
    def __init__(self, node, env, name=None):
        self.node = node
        self.env = env
        self.name = name


class Engine:
    def __init__(self, db, key, source_root='/repo'):
        self.db = db
        self.key = key
        self.contract = db.contracts[key]
        self.root = source_root
        self.obls = []
        self.axioms = []          # global axioms (lemmas, spec function definitions)
        self.ordinals = {}
        self.warnings = []
        self.npaths = 0
        self.ghost_consts = {}
        self.pre = None
        self.returns = []
        self.in_spec = 0
        self.func_name = key.split(':', 1)[1]
        self.prune = True
        self.max_paths = self.contract.get('max_paths', 400)
        self.assumed = []         # assumed callee contracts used

    # ------------------------------------------------------------------ obligations
    def emit(self, st, kind, label, goal, tag='carrier', expect_sat=False, node=None, extra=()):
        if self.in_spec and kind == 'total':
            return
        if kind == 'total' and self.contract.get('no_total'):
            return
        ctx = st.context() + list(extra)
        if z3.is_true(goal) and not expect_sat:
            # trivially discharged, still counted
            pass
        o = Obligation(self.func_name, kind, label, tag, ctx, goal, path='/'.join(st.trace), expect_sat=expect_sat,
                       line=getattr(node, 'lineno', None))
        self.obls.append(o)

    def total(self, st, cond, what, node=None):
        if self.in_spec:
            return
        if z3.is_true(cond):
            return
        self.emit(st, 'total', what, cond, tag='carrier', node=node)
        # after the check the execution continues only if it held (otherwise an exception was raised)
        if st.guards:
            return
        st.assume(cond)

    # ------------------------------------------------------------------ types / classes
    def class_info(self, cls):
        return self.db.classes.get(cls, {})

    def field_decl(self, cls, name):
        """Returns (key, decl) for field `name` of class `cls` walking declared bases."""
        seen = set()
        todo = [cls]
        while todo:
            c = todo.pop(0)
            if c is None or c in seen:
                continue
            seen.add(c)
            info = self.class_info(c)
            if name in info:
                return f'{c}.{name}', info[name]
            todo += list(info.get('__bases__', ()))
        return None, None

    def get_field_array(self, st, key, fty):
        if key not in st.fields:
            st.fields[key] = z3.Const(f'fld0!{key}', z3.ArraySort(T.RefSort, sort_of(fty)))
            st.field_ty[key] = fty
        return st.fields[key]

    # ------------------------------------------------------------------ heap
    def new_cell(self, st, ty, term, track=True):
        n = len(st.heap_ty)
        st.heap_ty[n] = ty
        st.heap[n] = term
        if track:
            st.alloc.append(n)
        return V(ty, loc=CellLoc(n))

    def load(self, v, st):
        """z3 term (value sort) of a container value."""
        if v.loc is None:
            if v.t is None:
                raise Unsupported(f'no term for {v!r}')
            return v.t
        loc = v.loc
        if isinstance(loc, CellLoc):
            h = st.heap[loc.n]
            if isinstance(h, tuple):
                if h[0] == 'fwd':
                    return self.load(V(v.ty, loc=h[1]), st)
                raise Unsupported('read of escaped cell')
            return h
        if isinstance(loc, OptFieldLoc):
            arr = self.get_field_array(st, loc.fname, loc.oty)
            return T.opt_val(loc.oty, T.Sel(arr, loc.ref))
        arr = self.get_field_array(st, loc.fname, v.ty)
        return T.Sel(arr, loc.ref)

    def store(self, v, term, st):
        if v.loc is None:
            raise Unsupported(f'mutation of a container value without location ({v.ty!r})')
        loc = v.loc
        if isinstance(loc, CellLoc):
            h = st.heap[loc.n]
            if isinstance(h, tuple):
                if h[0] == 'fwd':
                    return self.store(V(v.ty, loc=h[1]), term, st)
                raise Unsupported('mutation of a container after it was stored by value into another container')
            st.heap[loc.n] = term
            return
        if st.guards:
            raise Unsupported('heap write under a short-circuit guard')
        if isinstance(loc, OptFieldLoc):
            arr = self.get_field_array(st, loc.fname, loc.oty)
            st.fields[loc.fname] = z3.Store(arr, loc.ref, T.opt_some(loc.oty, term))
            return
        arr = self.get_field_array(st, loc.fname, v.ty)
        st.fields[loc.fname] = z3.Store(arr, loc.ref, term)

    def as_term(self, v, st):
        """Value term of any V (containers are read through their location)."""
        if v.ty is PY:
            raise Unsupported(f'python-level object used as a value: {v.py!r}')
        if v.ty.is_container:
            return self.load(v, st)
        return v.t

    # ------------------------------------------------------------------ coercions
    def coerce(self, v, ty, st, what='value'):
        if v.ty == ty:
            return v
        if ty.kind == 'Real' and v.ty.kind in ('Int', 'Enum'):
            return V(REAL, z3.ToReal(v.t))
        if ty.kind == 'Real' and v.ty.kind == 'Bool':
            return V(REAL, z3.If(v.t, z3.RealVal(1), z3.RealVal(0)))
        if ty.kind == 'Int' and v.ty.kind == 'Bool':
            return V(INT, z3.If(v.t, I1, I0))
        if ty.kind == 'Int' and v.ty.kind == 'Enum':
            return V(INT, v.t)
        if ty.kind == 'Enum' and v.ty.kind == 'Int':
            return V(ty, v.t)
        if ty.kind == 'Optional':
            inner = ty.args[0]
            if v.ty.kind == 'NoneT':
                return V(ty, T.opt_none(ty))
            if v.ty.kind == 'Optional':
                # Optional[Int] -> Optional[Real] etc.
                a = v.ty.args[0]
                if a == inner:
                    return V(ty, v.t)
                iv = self.coerce(V(a, T.opt_val(v.ty, v.t)), inner, st)
                return V(ty, z3.If(T.opt_is_none(v.ty, v.t), T.opt_none(ty), T.opt_some(ty, self.as_term(iv, st))))
            iv = self.coerce(v, inner, st)
            return V(ty, T.opt_some(ty, self.as_term(iv, st)))
        if v.ty.kind == 'Optional':
            # implicit unwrap: the value must not be None here
            cur = self.opt_term(v, st)
            self.total(st, z3.Not(T.opt_is_none(v.ty, cur)), f'{what} is not None')
            inner = self.unbox(v.ty.args[0], T.opt_val(v.ty, cur), st)
            if isinstance(v.loc, FieldLoc) and v.ty.args[0].is_container:
                inner = V(v.ty.args[0], None, OptFieldLoc(v.loc.ref, v.loc.fname, v.ty))
            return self.coerce(inner, ty, st)
        if ty.kind == 'Ref' and v.ty.kind == 'Ref':
            return V(ty, v.t)
        if v.ty.kind in ('Set', 'Dict', 'List') and v.ty.kind == ty.kind and v.ty.args and v.ty.args[0].kind == 'Bottom':
            return self.materialize_empty(v, ty, st)    # untyped empty literal: gets its type here
        if ty.kind in ('List', 'Np1') and v.ty.kind in ('List', 'Np1') and ty.args == v.ty.args:
            return V(ty, v.t, v.loc)
        if ty.kind in ('List', 'Np1') and v.ty.kind in ('List', 'Np1'):
            # element-wise coercion Int->Real
            a, b = v.ty.args[0], ty.args[0]
            if (a.kind in ('Int', 'Bool') and b.kind in ('Real', 'Int')) or (b.kind == 'Optional' and a.kind != 'Optional'):
                # element-wise widening (Int -> Real, T -> Optional[T]): a new sequence value
                term = self.load(v, st)
                i = z3.Int(fresh_name('ci'))
                el = self.as_term(self.coerce(self.unbox(a, T.Sel(T.seq_arr(v.ty, term), i), st), b, st), st)
                return V(ty, T.seq_mk(ty, T.seq_len(v.ty, term), z3.Lambda([i], el)))
        if ty.kind == 'Tuple' and v.ty.kind == 'Tuple' and len(ty.args) == len(v.ty.args):
            parts = [self.as_term(self.coerce(self.tuple_get(v, i, st), a, st), st) for i, a in enumerate(ty.args)]
            return V(ty, T.tup_mk(ty, *parts))
        raise Unsupported(f'cannot coerce {v.ty!r} to {ty!r} ({what})')

    def opt_term(self, v, st):
        """Current term of an Optional value (re-read from its field when it aliases one)."""
        if v.ty.kind == 'Optional' and isinstance(v.loc, FieldLoc):
            return T.Sel(self.get_field_array(st, v.loc.fname, v.ty), v.loc.ref)
        return v.t

    def unbox(self, ty, term, st):
        """A value read out of a container/field: containers become value-Vs (no location)."""
        return V(ty, term)

    def unify(self, a, b, st):
        if a.ty == b.ty:
            return a, b, a.ty
        ka, kb = a.ty.kind, b.ty.kind
        if ka == 'NoneT' and kb == 'NoneT':
            return a, b, NONE
        num = ('Int', 'Real', 'Bool', 'Enum')
        if ka in num and kb in num:
            t = REAL if 'Real' in (ka, kb) else INT
            return self.coerce(a, t, st), self.coerce(b, t, st), t
        if ka == 'NoneT':
            t = Opt(b.ty)
        elif kb == 'NoneT':
            t = Opt(a.ty)
        elif ka == 'Optional' and kb != 'Optional':
            t = a.ty if a.ty.args[0] == b.ty else Opt(self._join(a.ty.args[0], b.ty))
        elif kb == 'Optional' and ka != 'Optional':
            t = b.ty if b.ty.args[0] == a.ty else Opt(self._join(b.ty.args[0], a.ty))
        elif ka == 'Optional' and kb == 'Optional':
            t = Opt(self._join(a.ty.args[0], b.ty.args[0]))
        else:
            t = self._join(a.ty, b.ty)
        return self.coerce(a, t, st), self.coerce(b, t, st), t

    def _join(self, a, b):
        if a == b:
            return a
        num = ('Int', 'Real', 'Bool', 'Enum')
        if a.kind in num and b.kind in num:
            return REAL if 'Real' in (a.kind, b.kind) else INT
        if a.kind in ('List', 'Np1') and b.kind in ('List', 'Np1'):
            return Ty(a.kind, (self._join(a.args[0], b.args[0]),))
        if a.kind == 'Tuple' and b.kind == 'Tuple' and len(a.args) == len(b.args):
            return TupleT(*[self._join(x, y) for x, y in zip(a.args, b.args)])
        raise Unsupported(f'cannot join types {a!r} and {b!r}')

    def truth(self, v, st):
        k = v.ty.kind
        if k == 'Bool':
            return v.t
        if k == 'Int' or k == 'Enum':
            return v.t != 0
        if k == 'Real':
            return v.t != 0
        if k == 'NoneT':
            return z3.BoolVal(False)
        if k == 'Optional':
            inner = self.unbox(v.ty.args[0], T.opt_val(v.ty, v.t), st)
            return z3.And(z3.Not(T.opt_is_none(v.ty, v.t)), self.truth(inner, st))
        if k in ('List', 'Np1'):
            if k == 'Np1':
                raise Unsupported('truth value of a numpy array')
            return T.seq_len(v.ty, self.load(v, st)) > 0
        if k == 'Tuple':
            return z3.BoolVal(len(v.ty.args) > 0)
        if k == 'Ref':
            return z3.BoolVal(True)
        if k == 'Dict':
            raise Unsupported('truth value of dict')
        if k == 'Set':
            raise Unsupported('truth value of set')
        raise Unsupported(f'truth of {v.ty!r}')

    # ------------------------------------------------------------------ constants
    def const(self, x):
        if x is None:
            return V(NONE, sort_of(NONE).constructor(0)()) if False else V(NONE, None)
        if isinstance(x, bool):
            return V(BOOL, z3.BoolVal(x))
        if isinstance(x, int):
            return V(INT, z3.IntVal(x))
        if isinstance(x, float):
            if x != x or x in (float('inf'), float('-inf')):
                raise Unsupported('nan/inf constant')
            from fractions import Fraction
            f = Fraction(x)
            return V(REAL, z3.RealVal(f'{f.numerator}/{f.denominator}'))
        if isinstance(x, str):
            return V(STR, T.str_const(x), py=x)
        raise Unsupported(f'constant {x!r}')

    # ------------------------------------------------------------------ sequences
    def seq_parts(self, v, st):
        term = self.load(v, st)
        ln = T.seq_len(v.ty, term)
        self.nonneg(ln, st)
        return ln, T.seq_arr(v.ty, term)

    def nonneg(self, ln, st):
        """Lengths of sequences are non-negative (a fact about every Python sequence, added once per term)."""
        if z3.is_int_value(ln):
            return
        key = ln.get_id()
        seen = st.env.get('!nonneg')
        if seen is None:
            seen = st.env['!nonneg'] = V(PY, py=set())
        if key in seen.py:
            return
        seen.py.add(key)
        if z3.is_app(ln) and ln.decl().name() in ('len', 'n0', 'n1'):
            st.pc.append(ln >= 0)

    def mk_list(self, st, elem_ty, ln, arr, kind='List', cell=True):
        t = Ty(kind, (elem_ty,))
        term = T.seq_mk(t, ln, arr)
        if cell:
            return self.new_cell(st, t, term)
        return V(t, term)

    def norm_index(self, idx, ln, st=None):
        """Python's negative indexing. Spec expressions index mathematically; in code the wrap-around term is only
        generated when the index is not known to be non-negative (keeps quantifier patterns matchable)."""
        if self.in_spec:
            return idx
        si = z3.simplify(idx)
        if z3.is_int_value(si):
            return si if si.as_long() >= 0 else z3.simplify(si + ln)
        if st is not None and self.valid(st, idx >= 0, 300):
            return idx
        return z3.If(idx < 0, idx + ln, idx)

    def tuple_get(self, v, i, st):
        if v.ty.kind != 'Tuple':
            raise Unsupported(f'tuple access on {v.ty!r}')
        if v.py is not None:
            return v.py[i]
        return self.unbox(v.ty.args[i], T.tup_get(v.ty, v.t, i), st)

    def mk_tuple(self, vals, st):
        t = TupleT(*[x.ty for x in vals])
        for x in vals:
            if x.ty is PY or x.ty.kind == 'NoneT' or (x.ty.args and x.ty.args[0].kind == 'Bottom'):
                # python-level tuple (cannot be stored in a container); untyped empty literals get their type on coercion
                return V(t, None, py=list(vals))
        return V(t, T.tup_mk(t, *[self.as_term(x, st) for x in vals]), py=list(vals))

    # ------------------------------------------------------------------ expression evaluation
    def eval(self, node, st):
        m = getattr(self, 'e_' + type(node).__name__, None)
        if m is None:
            raise Unsupported(f'expression {type(node).__name__} at line {getattr(node, "lineno", "?")}')
        return m(node, st)

    def e_Constant(self, node, st):
        return self.const(node.value)

    def e_Name(self, node, st):
        n = node.id
        if n in st.env:
            v = st.env[n]
            if v.ty.kind == 'Optional' and isinstance(v.loc, FieldLoc):
                # a local that aliases an Optional field (`x = self._f`): read with the field's CURRENT value
                return V(v.ty, self.opt_term(v, st), v.loc, v.py)
            return v
        if self.in_spec and n in self.spec_env:
            return self.spec_env[n]
        if self.in_spec and n in self.contract.get('defs', {}) and not self.contract['defs'][n][0]:
            return self.eval(ast.parse(self.contract['defs'][n][1].strip(), mode='eval').body, st)
        g = self.db.globals_for(self.key).get(n)
        if g is not None:
            return g if isinstance(g, V) else self.const(g) if isinstance(g, (int, float, str, bool)) else V(PY, py=g)
        if n in ('True', 'False', 'None'):
            return self.const({'True': True, 'False': False, 'None': None}[n])
        if n in BUILTINS:
            return V(PY, py=('builtin', n))
        if n in self.db.enums:
            return V(PY, py=('enumcls', n))
        if n in self.db.classes:
            return V(PY, py=('class', n))
        if self.in_spec and n in (self.contract.get('locals') or {}):
            # a declared local that this path never assigned: an arbitrary value (the clause has to guard its use)
            t = parse_type(self.contract['locals'][n])
            term = z3.Const(fresh_name('unassigned_' + n), sort_of(t))
            return self.new_cell(st, t, term, track=False) if t.is_container else V(t, term)
        raise Unsupported(f'unknown name {n!r} at line {getattr(node, "lineno", "?")}')

    def e_Tuple(self, node, st):
        return self.mk_tuple([self.eval(e, st) for e in node.elts], st)

    def e_List(self, node, st):
        vals = [self.eval(e, st) for e in node.elts]
        return self.list_from_vals(vals, st)

    def list_from_vals(self, vals, st, elem_ty=None):
        if not vals:
            et = elem_ty or Ty('Bottom')
            if et.kind == 'Bottom':
                return V(Ty('List', (et,)), None, py=[])
            arr = z3.K(z3.IntSort(), fresh(et, 'dflt'))
            return self.mk_list(st, et, I0, arr)
        et = elem_ty or vals[0].ty
        for x in vals[1:]:
            if elem_ty is None:
                et = self._join_opt(et, x.ty)
        arr = z3.K(z3.IntSort(), self.as_term(self.coerce(vals[0], et, st), st))
        for i, x in enumerate(vals):
            arr = z3.Store(arr, zint(i), self.as_term(self.coerce(x, et, st), st))
        return self.mk_list(st, et, zint(len(vals)), arr)

    def _join_opt(self, a, b):
        if a == b:
            return a
        if a.kind == 'NoneT':
            return Opt(b)
        if b.kind == 'NoneT':
            return Opt(a)
        if a.kind == 'Optional' and b.kind != 'Optional':
            return Opt(self._join(a.args[0], b))
        if b.kind == 'Optional' and a.kind != 'Optional':
            return Opt(self._join(a, b.args[0]))
        if a.kind == 'Optional':
            return Opt(self._join(a.args[0], b.args[0]))
        return self._join(a, b)

    def refuse_total_dict(self, v, what):
        if isinstance(v.loc, CellLoc) and v.loc.n in getattr(self, 'total_dicts', ()):
            raise Unsupported(f'{what} on a defaultdict (modelled as a total map)')

    def materialize_empty(self, v, ty, st):
        """An empty list literal gets its element type on first use."""
        if v.ty.kind == 'Set' and v.ty.args and v.ty.args[0].kind == 'Bottom' and ty.kind == 'Set':
            return self.new_cell(st, ty, z3.K(sort_of(ty.args[0]), z3.BoolVal(False)))
        if v.ty.kind == 'Dict' and v.ty.args and v.ty.args[0].kind == 'Bottom' and ty.kind == 'Dict' and \
                isinstance(v.py, dict) and '__default__' in v.py:
            if ty.args[1].kind != 'Int':
                raise Unsupported('defaultdict(int) declared with a non-Int value type')
            cell = self.new_cell(st, ty, T.dict_mk(ty, z3.K(sort_of(ty.args[0]), z3.BoolVal(True)),
                                                   z3.K(sort_of(ty.args[0]), z3.IntVal(v.py['__default__']))))
            self.total_dicts = getattr(self, 'total_dicts', set()) | {cell.loc.n}
            return cell
        if v.ty.kind == 'Dict' and v.ty.args and v.ty.args[0].kind == 'Bottom' and ty.kind == 'Dict':
            return self.new_cell(st, ty, T.dict_mk(ty, z3.K(sort_of(ty.args[0]), z3.BoolVal(False)),
                                                   z3.K(sort_of(ty.args[0]), fresh(ty.args[1], 'dflt'))))
        if v.ty.kind == 'List' and v.ty.args[0].kind == 'Bottom':
            et = ty.args[0]
            arr = z3.K(z3.IntSort(), fresh(et, 'dflt'))
            return self.mk_list(st, et, I0, arr)
        return v

    def e_Dict(self, node, st):
        if node.keys:
            raise Unsupported('non-empty dict literal')
        return V(Ty('Dict', (Ty('Bottom'), Ty('Bottom'))), None, py={})

    def e_Set(self, node, st):
        vals = [self.eval(e, st) for e in node.elts]
        et = vals[0].ty
        for x in vals[1:]:
            et = self._join_opt(et, x.ty)     # {a, b} with b Optional[T]: a set of Optional[T]
        term = z3.K(sort_of(et), z3.BoolVal(False))
        for x in vals:
            term = z3.Store(term, self.as_term(self.coerce(x, et, st), st), z3.BoolVal(True))
        return self.new_cell(st, SetT(et), term)

    def e_SetComp(self, node, st):
        """{f(e) for e in S if c(e)}: the image of the filtered source, as a characteristic function."""
        if len(node.generators) != 1:
            raise Unsupported('nested set comprehension')
        g = node.generators[0]
        src = self.eval(g.iter, st)
        if src.ty.kind == 'Optional':
            src = self.coerce(src, src.ty.args[0], st, 'iterated value')
        saved = dict(st.env)
        try:
            if src.ty.kind == 'Set':
                e = z3.Const(fresh_name('se'), sort_of(src.ty.args[0]))
                dom = T.Sel(self.load(src, st), e)
                item = self.unbox(src.ty.args[0], e, st)
                bv = [e]
            else:
                m = self.iter_model(src, st)
                if m.setlike is not None:
                    raise Unsupported('set comprehension over this iterable')
                i = z3.Int(fresh_name('si'))
                dom = z3.And(0 <= i, i < m.n)
                item = m.item(i, st)
                bv = [i]
            st.guards.append(dom)
            self.quant_depth = getattr(self, 'quant_depth', 0) + 1
            try:
                self.bind_target(g.target, item, st)
                conds = [self.truth(self.eval(c, st), st) for c in g.ifs]
                for c in conds:
                    st.guards.append(c)
                try:
                    elt = self.eval(node.elt, st)
                finally:
                    for _ in conds:
                        st.guards.pop()
            finally:
                st.guards.pop()
                self.quant_depth -= 1
        finally:
            st.env = saved
        x = z3.Const(fresh_name('sx'), sort_of(elt.ty))
        body = z3.Exists(bv, z3.And(dom, *conds, self.as_term(elt, st) == x))
        return self.new_cell(st, SetT(elt.ty), z3.Lambda([x], body))

    def e_DictComp(self, node, st):
        """{k(e): v(e) for e in L if c(e)} (one or two nested generators over indexed sources): a fresh dict whose
        domain is the image of the filtered source under k and whose value at k(e) is v(e) of the LAST such e in
        iteration order (Python's overwrite order)."""
        gens = node.generators
        if len(gens) not in (1, 2):
            raise Unsupported('dict comprehension with more than two generators')
        if getattr(self, 'quant_depth', 0):
            raise Unsupported('dict comprehension inside a quantified context')

        def instance(tag):
            """One symbolic iteration: position variables, the condition of being an iteration, key and value."""
            saved = dict(st.env)
            pos, conds, pushed = [], [], 0
            self.quant_depth = getattr(self, 'quant_depth', 0) + 1
            try:
                for g in gens:
                    src = self.eval(g.iter, st)
                    if src.ty.kind == 'Optional':
                        src = self.coerce(src, src.ty.args[0], st, 'iterated value')
                    m = self.iter_model(src, st)
                    if m.setlike is not None:
                        raise Unsupported('dict comprehension over an unordered iterable')
                    i = z3.Int(fresh_name('d' + tag))
                    pos.append(i)
                    dom = z3.And(0 <= i, i < m.n)
                    conds.append(dom)
                    st.guards.append(dom)
                    pushed += 1
                    self.bind_target(g.target, m.item(i, st), st)
                    for c in g.ifs:
                        b = self.truth(self.eval(c, st), st)
                        conds.append(b)
                        st.guards.append(b)
                        pushed += 1
                kv, vv = self.eval(node.key, st), self.eval(node.value, st)
            finally:
                for _ in range(pushed):
                    st.guards.pop()
                self.quant_depth -= 1
                st.env = saved
            return pos, z3.And(*conds), kv, vv
        pi, ci, ki, vi = instance('i')
        dt = Ty('Dict', (ki.ty, vi.ty))
        d = z3.Const(fresh_name('dictcomp'), sort_of(dt))
        dom_d, val_d = T.dict_dom(dt, d), T.dict_val(dt, d)
        kti, vti = self.as_term(ki, st), self.as_term(vi, st)
        x = z3.Const(fresh_name('dk'), sort_of(ki.ty))
        # w(x): the position of the LAST iteration that writes key x (it exists for every key of the result: the
        # iteration space is finite); the dict holds the value written there
        w = [z3.Function(fresh_name('dlast'), sort_of(ki.ty), z3.IntSort()) for _ in pi]
        at_w = [(p_, wf(x)) for p_, wf in zip(pi, w)]
        c_w, k_w, v_w = z3.substitute(ci, *at_w), z3.substitute(kti, *at_w), z3.substitute(vti, *at_w)
        wk = [wf(kti) for wf in w]
        not_later = pi[0] <= wk[0] if len(gens) == 1 else z3.Or(pi[0] < wk[0], z3.And(pi[0] == wk[0], pi[1] <= wk[1]))
        st.pc.append(z3.ForAll(pi, z3.Implies(ci, z3.And(T.Sel(dom_d, kti), not_later))))
        st.pc.append(z3.ForAll([x], z3.Implies(T.Sel(dom_d, x), z3.And(c_w, k_w == x, T.Sel(val_d, x) == v_w)),
                               patterns=[T.Sel(dom_d, x)]))
        return self.new_cell(st, dt, d)

    def e_JoinedStr(self, node, st):
        return V(STR, fresh(STR, 'fstr'))

    def e_UnaryOp(self, node, st):
        v = self.eval(node.operand, st)
        if isinstance(node.op, ast.Not):
            return V(BOOL, z3.Not(self.truth(v, st)))
        if isinstance(node.op, ast.USub):
            if v.ty.kind == 'Bool':
                v = self.coerce(v, INT, st)
            if v.ty.kind in ('Int', 'Real'):
                return V(v.ty, -v.t)
        if isinstance(node.op, ast.Invert) and v.ty.kind == 'Np1' and v.ty.args[0].kind == 'Bool':
            ln, arr = self.seq_parts(v, st)
            i = z3.Int(fresh_name('i'))
            return self.mk_list(st, BOOL, ln, z3.Lambda([i], z3.Not(T.Sel(arr, i))), kind='Np1')
        raise Unsupported(f'unary {type(node.op).__name__} on {v.ty!r}')

    def e_BoolOp(self, node, st):
        is_and = isinstance(node.op, ast.And)
        vals = []
        pushed = 0
        try:
            for i, e in enumerate(node.values):
                v = self.eval(e, st)
                vals.append(v)
                if i < len(node.values) - 1:
                    b = self.truth(v, st)
                    st.guards.append(b if is_and else z3.Not(b))
                    pushed += 1
        finally:
            for _ in range(pushed):
                st.guards.pop()
        if all(v.ty.kind == 'Bool' for v in vals):
            ts = [v.t for v in vals]
            return V(BOOL, z3.And(*ts) if is_and else z3.Or(*ts))
        # value semantics: a and b -> b if truth(a) else a
        res = vals[-1]
        for v in reversed(vals[:-1]):
            c = self.truth(v, st)
            if not is_and and v.ty.kind == 'Optional':
                # `x or y`: when x is truthy it is not None, so the result is never None because of x
                v = self.unbox(v.ty.args[0], T.opt_val(v.ty, v.t), st)
            a, b, t = self.unify(v, res, st)
            res = self.ite(c, b, a, t, st) if is_and else self.ite(c, a, b, t, st)
        return res

    def ite(self, c, a, b, t, st):
        if t.kind == 'NoneT':
            return a
        if t.is_container:
            return V(t, z3.If(c, self.as_term(a, st), self.as_term(b, st)))
        if t.kind == 'Optional':
            # an Optional operand may alias a field (`x = self._f`): take its CURRENT value, not the term it had when
            # the alias was made
            ta = self.opt_term(a, st) if a.ty.kind == 'Optional' else a.t
            tb = self.opt_term(b, st) if b.ty.kind == 'Optional' else b.t
            return V(t, z3.If(c, ta, tb))
        return V(t, z3.If(c, a.t, b.t))

    def e_IfExp(self, node, st):
        c = self.truth(self.eval(node.test, st), st)
        st.guards.append(c)
        try:
            a = self.eval(node.body, st)
        finally:
            st.guards.pop()
        st.guards.append(z3.Not(c))
        try:
            b = self.eval(node.orelse, st)
        finally:
            st.guards.pop()
        a, b, t = self.unify(a, b, st)
        return self.ite(c, a, b, t, st)

    def e_BinOp(self, node, st):
        a = self.eval(node.left, st)
        b = self.eval(node.right, st)
        return self.binop(node.op, a, b, st, node)

    def binop(self, op, a, b, st, node=None):
        ka, kb = a.ty.kind, b.ty.kind
        num = ('Int', 'Real', 'Bool')
        if ka == 'Optional':
            a = self.coerce(a, a.ty.args[0], st, 'operand')
            ka = a.ty.kind
        if kb == 'Optional':
            b = self.coerce(b, b.ty.args[0], st, 'operand')
            kb = b.ty.kind
        if ka == 'Str' and isinstance(op, (ast.Mod, ast.Add)):
            return V(STR, fresh(STR, 'fmt'))   # string formatting / concatenation: an opaque string
        if ka == 'Enum' and kb == 'Enum' and isinstance(op, (ast.BitAnd, ast.BitOr)):
            bits = self.db.enums[a.ty.cls].get('__bits__', 2)
            return V(a.ty, self.bitop(op, a.t, b.t, bits))
        if ka in num and kb in num:
            if isinstance(op, ast.Div):
                a2, b2 = self.coerce(a, REAL, st), self.coerce(b, REAL, st)
                self.total(st, b2.t != 0, f'divisor {self.src(node.right) if node else ""} != 0', node)
                return V(REAL, a2.t / b2.t)
            a2, b2, t = self.unify(a, b, st)
            if t.kind == 'Bool':
                a2, b2, t = self.coerce(a, INT, st), self.coerce(b, INT, st), INT
            if isinstance(op, ast.Add):
                return V(t, a2.t + b2.t)
            if isinstance(op, ast.Sub):
                return V(t, a2.t - b2.t)
            if isinstance(op, ast.Mult):
                return V(t, a2.t * b2.t)
            if isinstance(op, (ast.FloorDiv, ast.Mod)):
                if t.kind != 'Int':
                    raise Unsupported('// or % on reals')
                self.total(st, b2.t != 0, f'divisor {self.src(node.right) if node else ""} != 0', node)
                return V(INT, floordiv(a2.t, b2.t) if isinstance(op, ast.FloorDiv) else pymod(a2.t, b2.t))
            raise Unsupported(f'binop {type(op).__name__} on numbers')
        if ka in ('List',) and kb in ('List',) and isinstance(op, ast.Add):
            a = self.materialize_empty(a, b.ty, st)
            b = self.materialize_empty(b, a.ty, st)
            return self.concat(a, b, st)
        if ka == 'List' and kb in ('Int',) and isinstance(op, ast.Mult):
            raise Unsupported('list repetition')
        if ka == 'Np1' or kb == 'Np1':
            return self.np_binop(op, a, b, st)
        if ka == 'Set' and kb == 'Set':
            ta, tb = self.load(a, st), self.load(b, st)
            ea, eb = a.ty.args[0], b.ty.args[0]
            if ea != eb and (Opt(ea) == eb or ea == Opt(eb)):
                # Set[T] with Set[Optional[T]]: membership of a plain element in the optional-typed set goes through
                # Some(x); an intersection holds plain elements only
                plain, opt = (ea, eb) if Opt(ea) == eb else (eb, ea)

                def mem(term, ety, xt, xty):
                    if ety == xty:
                        return T.Sel(term, xt)
                    if ety == opt:       # x plain, set optional
                        return T.Sel(term, T.opt_some(opt, xt))
                    return z3.And(z3.Not(T.opt_is_none(opt, xt)), T.Sel(term, T.opt_val(opt, xt)))
                if isinstance(op, ast.BitAnd):
                    rty = plain
                elif isinstance(op, ast.Sub):
                    rty = ea
                elif isinstance(op, ast.BitOr):
                    rty = opt
                else:
                    raise Unsupported('set op')
                x = z3.Const(fresh_name('e'), sort_of(rty))
                ma, mb = mem(ta, ea, x, rty), mem(tb, eb, x, rty)
                body = z3.Or(ma, mb) if isinstance(op, ast.BitOr) else z3.And(ma, mb) if isinstance(op, ast.BitAnd) \
                    else z3.And(ma, z3.Not(mb))
                return self.new_cell(st, SetT(rty), self.def_set(SetT(rty), x, body, st))
            x = z3.Const(fresh_name('e'), sort_of(a.ty.args[0]))
            if isinstance(op, ast.BitOr):
                body = z3.Or(T.Sel(ta, x), T.Sel(tb, x))
            elif isinstance(op, ast.BitAnd):
                body = z3.And(T.Sel(ta, x), T.Sel(tb, x))
            elif isinstance(op, ast.Sub):
                body = z3.And(T.Sel(ta, x), z3.Not(T.Sel(tb, x)))
            else:
                raise Unsupported('set op')
            return self.new_cell(st, a.ty, self.def_set(a.ty, x, body, st))
        raise Unsupported(f'binop {type(op).__name__} on {a.ty!r}, {b.ty!r}')

    def def_set(self, sty, x, body, st):
        """A set defined by a membership condition: a named constant with its defining axiom (instantiated on
        membership terms) in code context; a lambda term inside contract expressions / guarded contexts."""
        if self.in_spec or st.guards or self.contract.get('set_defs') != 'named':
            return z3.Lambda([x], body)
        R = z3.Const(fresh_name('set'), sort_of(sty))
        st.pc.append(z3.ForAll([x], T.Sel(R, x) == body, patterns=[T.Sel(R, x)]))
        return R

    def bitop(self, op, a, b, bits):
        # small non-negative flags: bit-wise via div/mod on `bits` bits
        res = I0
        for k in range(bits):
            p = 2 ** k
            ba = (a / p) % 2
            bb = (b / p) % 2
            if isinstance(op, ast.BitAnd):
                bit = z3.If(z3.And(ba == 1, bb == 1), p, 0)
            else:
                bit = z3.If(z3.Or(ba == 1, bb == 1), p, 0)
            res = res + bit
        return res

    def concat(self, a, b, st):
        et = self._join(a.ty.args[0], b.ty.args[0])
        a = self.coerce(a, ListT(et), st)
        b = self.coerce(b, ListT(et), st)
        la, aa = self.seq_parts(a, st)
        lb, ab = self.seq_parts(b, st)
        i = z3.Int(fresh_name('i'))
        arr = z3.Lambda([i], z3.If(i < la, T.Sel(aa, i), T.Sel(ab, i - la)))
        if not hasattr(self, 'concat_prov'):
            self.concat_prov = {}
        self.concat_prov[arr.get_id()] = (arr, la, aa, lb, ab)
        return self.mk_list(st, et, la + lb, arr)

    def np_binop(self, op, a, b, st):
        if a.ty.kind == 'Optional':
            a = self.coerce(a, a.ty.args[0], st, 'operand')
        if b.ty.kind == 'Optional':
            b = self.coerce(b, b.ty.args[0], st, 'operand')

        def parts(v):
            if v.ty.kind == 'Np1':
                ln, arr = self.seq_parts(v, st)
                return ln, (lambda i: V(v.ty.args[0], T.Sel(arr, i)))
            return None, (lambda i: v)
        la, fa = parts(a)
        lb, fb = parts(b)
        if la is not None and lb is not None:
            self.total(st, la == lb, 'numpy operands have equal length')
        ln = la if la is not None else lb
        i = z3.Int(fresh_name('i'))
        r = self.binop(op, fa(i), fb(i), st) if not isinstance(op, (ast.BitAnd, ast.BitOr)) else None
        if r is None:
            x, y = fa(i), fb(i)
            if x.ty.kind != 'Bool' or y.ty.kind != 'Bool':
                raise Unsupported('bitwise numpy op on non-bool')
            r = V(BOOL, z3.And(x.t, y.t) if isinstance(op, ast.BitAnd) else z3.Or(x.t, y.t))
        return self.mk_list(st, r.ty, ln, z3.Lambda([i], r.t), kind='Np1')

    def np_compare(self, op, a, b, st):
        if a.ty.kind == 'Np2' or b.ty.kind == 'Np2':
            def parts2(v):
                if v.ty.kind == 'Np2':
                    t = self.load(v, st)
                    return (T.mat_n0(v.ty, t), T.mat_n1(v.ty, t)), \
                        (lambda i, j: V(v.ty.args[0], T.Sel(T.Sel(T.mat_arr(v.ty, t), i), j)))
                if v.ty.kind == 'Np1':
                    raise Unsupported('broadcast 1-D with 2-D')
                return None, (lambda i, j: v)
            sa, fa = parts2(a)
            sb, fb = parts2(b)
            if sa is not None and sb is not None:
                self.total(st, z3.And(sa[0] == sb[0], sa[1] == sb[1]), 'numpy operands have equal shape')
            shp = sa or sb
            i, j = z3.Int(fresh_name('i')), z3.Int(fresh_name('j'))
            c = self.compare(op, fa(i, j), fb(i, j), st)
            t = Ty('Np2', (BOOL,))
            return self.new_cell(st, t, T.mat_mk(t, shp[0], shp[1], z3.Lambda([i], z3.Lambda([j], c))))

        def parts(v):
            if v.ty.kind in ('Np1', 'List'):
                ln, arr = self.seq_parts(v, st)
                return ln, (lambda i: self.unbox(v.ty.args[0], T.Sel(arr, i), st))
            return None, (lambda i: v)
        la, fa = parts(a)
        lb, fb = parts(b)
        if la is not None and lb is not None:
            self.total(st, la == lb, 'numpy operands have equal length')
        ln = la if la is not None else lb
        i = z3.Int(fresh_name('i'))
        c = self.compare(op, fa(i), fb(i), st)
        return self.mk_list(st, BOOL, ln, z3.Lambda([i], c), kind='Np1')

    def e_Compare(self, node, st):
        left = self.eval(node.left, st)
        if len(node.ops) == 1 and not isinstance(node.ops[0], (ast.In, ast.NotIn, ast.Is, ast.IsNot)) and \
                not isinstance(node.comparators[0], (ast.List, ast.Tuple, ast.Set)):
            right0 = self.eval(node.comparators[0], st)
            if left.ty.kind in ('Np1', 'Np2') or right0.ty.kind in ('Np1', 'Np2'):
                if self.in_spec and left.ty == right0.ty and isinstance(node.ops[0], (ast.Eq, ast.NotEq)):
                    # contract expressions compare arrays as values (same length, same items)
                    eq = self.equals(left, right0, st)
                    return V(BOOL, eq if isinstance(node.ops[0], ast.Eq) else z3.Not(eq))
                return self.np_compare(node.ops[0], left, right0, st)
            return V(BOOL, self.compare(node.ops[0], left, right0, st, node))
        res = []
        pushed = 0
        try:
            for op, rn in zip(node.ops, node.comparators):
                if isinstance(op, (ast.In, ast.NotIn)) and isinstance(rn, (ast.List, ast.Tuple, ast.Set)) and rn.elts:
                    # membership in a literal: a disjunction of equalities
                    eqs = [self.equals(left, self.eval(e, st), st) for e in rn.elts]
                    c = z3.Or(*eqs)
                    c = z3.Not(c) if isinstance(op, ast.NotIn) else c
                    res.append(c)
                    continue
                right = self.eval(rn, st)
                c = self.compare(op, left, right, st, node)
                res.append(c)
                left = right
                if len(node.ops) > 1:
                    st.guards.append(c)
                    pushed += 1
        finally:
            for _ in range(pushed):
                st.guards.pop()
        return V(BOOL, And(*res) if len(res) > 1 else res[0])

    def compare(self, op, a, b, st, node=None):
        if isinstance(op, (ast.Is, ast.IsNot)):
            neg = isinstance(op, ast.IsNot)
            if b.ty.kind == 'NoneT' or a.ty.kind == 'NoneT':
                x = a if b.ty.kind == 'NoneT' else b
                if x.ty.kind == 'NoneT':
                    r = z3.BoolVal(True)
                elif x.ty.kind == 'Optional':
                    r = T.opt_is_none(x.ty, self.opt_term(x, st))
                else:
                    r = z3.BoolVal(False)
                return z3.Not(r) if neg else r
            if a.ty.kind == 'Ref' and b.ty.kind == 'Ref':
                r = a.t == b.t
                return z3.Not(r) if neg else r
            raise Unsupported('`is` on non-None/non-Ref')
        if isinstance(op, (ast.In, ast.NotIn)):
            r = self.contains(b, a, st)
            return z3.Not(r) if isinstance(op, ast.NotIn) else r
        if isinstance(op, (ast.Eq, ast.NotEq)):
            r = self.equals(a, b, st)
            return z3.Not(r) if isinstance(op, ast.NotEq) else r
        if a.ty.kind == 'Optional':
            a = self.coerce(a, a.ty.args[0], st, 'compared value')
        if b.ty.kind == 'Optional':
            b = self.coerce(b, b.ty.args[0], st, 'compared value')
        if a.ty.kind == 'NoneT' or b.ty.kind == 'NoneT':
            self.total(st, z3.BoolVal(False), 'ordering comparison with None', node)
            return z3.BoolVal(False)
        a2, b2, t = self.unify(a, b, st)
        if t.kind not in ('Int', 'Real'):
            if t.kind == 'Bool':
                a2, b2 = self.coerce(a2, INT, st), self.coerce(b2, INT, st)
            else:
                raise Unsupported(f'ordering on {t!r}')
        return {ast.Lt: lambda: a2.t < b2.t, ast.LtE: lambda: a2.t <= b2.t,
                ast.Gt: lambda: a2.t > b2.t, ast.GtE: lambda: a2.t >= b2.t}[type(op)]()

    def equals(self, a, b, st):
        if a.ty.kind == 'NoneT' and b.ty.kind == 'NoneT':
            return z3.BoolVal(True)
        if a.ty is PY or b.ty is PY:
            raise Unsupported('== on python-level objects')
        try:
            a2, b2, t = self.unify(a, b, st)
        except Unsupported:
            return z3.BoolVal(False) if self._disjoint(a.ty, b.ty) else (_ for _ in ()).throw(
                Unsupported(f'== between {a.ty!r} and {b.ty!r}'))
        if t.kind == 'Optional' and t.args[0].is_container:
            ta, tb = self.opt_term(a2, st) if a2.loc is not None else a2.t, self.opt_term(b2, st) if b2.loc is not None else b2.t
            na, nb = T.opt_is_none(t, ta), T.opt_is_none(t, tb)
            inner = self.equals(V(t.args[0], T.opt_val(t, ta)), V(t.args[0], T.opt_val(t, tb)), st)
            return z3.And(na == nb, z3.Implies(z3.Not(na), inner))
        if t.kind in ('List', 'Np1'):
            la, aa = self.seq_parts(a2, st)
            lb, ab = self.seq_parts(b2, st)
            i = z3.Int(fresh_name('i'))
            return z3.And(la == lb, z3.ForAll([i], z3.Implies(z3.And(0 <= i, i < la), T.Sel(aa, i) == T.Sel(ab, i))))
        if t.kind == 'Tuple' and (a2.t is None or b2.t is None):
            return And(*[self.equals(self.tuple_get(a2, i, st), self.tuple_get(b2, i, st), st)
                         for i in range(len(t.args))])
        if t.kind == 'Dict':
            ta, tb = self.as_term(a2, st), self.as_term(b2, st)
            k = z3.Const(fresh_name('dk'), sort_of(t.args[0]))
            da, db_ = T.dict_dom(t, ta), T.dict_dom(t, tb)
            return z3.ForAll([k], z3.And(T.Sel(da, k) == T.Sel(db_, k),
                                         z3.Implies(T.Sel(da, k), T.Sel(T.dict_val(t, ta), k) == T.Sel(T.dict_val(t, tb), k))))
        return self.as_term(a2, st) == self.as_term(b2, st)

    def _disjoint(self, a, b):
        groups = [('Int', 'Real', 'Bool', 'Enum'), ('Str',), ('Ref',), ('List', 'Np1'), ('Tuple',), ('Set',), ('Dict',)]

        def g(t):
            for i, gr in enumerate(groups):
                if t.kind in gr:
                    return i
            return -1
        return g(a) != g(b) and g(a) >= 0 and g(b) >= 0

    def contains(self, cont, x, st):
        k = cont.ty.kind
        if k == 'Optional':
            cont = self.coerce(cont, cont.ty.args[0], st, 'container')
            k = cont.ty.kind
        if k == 'Set':
            et = cont.ty.args[0]
            if x.ty.kind == 'Tuple' and et.kind == 'Tuple' and len(x.ty.args) != len(et.args):
                # a tuple of another length equals no element of a set whose elements all have the declared length
                # (the declared element type is the assumption; listed with the machine-arithmetic assumptions)
                return z3.BoolVal(False)
            xe = self.coerce(x, et, st)
            return T.Sel(self.load(cont, st), self.as_term(xe, st))
        if k == 'Dict':
            self.refuse_total_dict(cont, 'membership test')
            xe = self.coerce(x, cont.ty.args[0], st)
            return T.Sel(T.dict_dom(cont.ty, self.load(cont, st)), self.as_term(xe, st))
        if k == 'ODict':
            lt = ListT(TupleT(*cont.ty.args))
            xe = self.coerce(x, cont.ty.args[0], st)
            term = self.load(cont, st)
            j = z3.Int(fresh_name('j'))
            return z3.Exists([j], z3.And(0 <= j, j < T.seq_len(lt, term),
                                         T.tup_get(lt.args[0], T.Sel(T.seq_arr(lt, term), j), 0) == self.as_term(xe, st)))
        if k in ('List', 'Np1'):
            if cont.ty.args[0].kind == 'Bottom':
                return z3.BoolVal(False)
            xe = self.coerce(x, cont.ty.args[0], st)
            ln, arr = self.seq_parts(cont, st)
            return self.seq_member(ln, arr, self.as_term(xe, st))
        if k == 'Tuple':
            return z3.Or(*[self.equals(self.tuple_get(cont, i, st), x, st) for i in range(len(cont.ty.args))]) \
                if cont.ty.args else z3.BoolVal(False)
        if k == 'Py' and isinstance(cont.py, IterModel):
            # membership in a range
            raise Unsupported('`in` on iterator')
        if k == 'Ref':
            d = self.call_contract_for_method(cont, '__contains__', [x], {}, st, None)
            return self.truth(d, st)
        if cont.ty.kind == 'NoneT' and self.in_spec:
            # `x in None` inside a contract expression: only reachable behind an `is not None` conjunct, whose falsity
            # already decides the clause
            return z3.BoolVal(False)
        raise Unsupported(f'`in` on {cont.ty!r}')

    def seq_member(self, ln, arr, xt):
        """x in seq. A concatenation built by this engine is split into its two parts (membership in a + b is
        membership in a or in b), so that no index arithmetic is left to the solver's instantiation."""
        prov = getattr(self, 'concat_prov', {}).get(arr.get_id())
        if prov is not None and z3.eq(prov[0], arr):
            _, la, aa, lb, ab = prov
            if z3.is_int_value(lb) and lb.as_long() == 1:
                return z3.Or(self.seq_member(la, aa, xt), T.Sel(ab, I0) == xt)     # a one-element tail
            return z3.Or(self.seq_member(la, aa, xt), self.seq_member(lb, ab, xt))
        i = z3.Int(fresh_name('j'))
        return z3.Exists([i], z3.And(0 <= i, i < ln, T.Sel(arr, i) == xt))

    def src(self, node):
        try:
            return ast.unparse(node)
        except Exception:
            return '?'

    # ------------------------------------------------------------------ attributes
    def e_Attribute(self, node, st):
        # module constants / enum members
        dotted = self.dotted(node)
        if dotted is not None:
            head = dotted.split('.')[0]
            if head not in st.env and not (self.in_spec and head in self.spec_env):
                r = self.resolve_static(dotted)
                if r is not None:
                    return r
        obj = self.eval(node.value, st)
        return self.getattr_(obj, node.attr, st, node)

    def dotted(self, node):
        parts = []
        while isinstance(node, ast.Attribute):
            parts.append(node.attr)
            node = node.value
        if isinstance(node, ast.Name):
            parts.append(node.id)
            return '.'.join(reversed(parts))
        return None

    def resolve_static(self, dotted):
        parts = dotted.split('.')
        if len(parts) == 2 and parts[0] in self.db.enums:
            members = self.db.enums[parts[0]]
            if parts[1] in members:
                return V(Ty('Enum', (), parts[0]), z3.IntVal(members[parts[1]]))
        if dotted in ('math.nan', 'np.nan'):
            return V(REAL, self.db.nan_const())
        if parts[0] in ('np', 'math', 'itertools') and len(parts) == 2:
            return V(PY, py=('lib', dotted))
        return None

    def getattr_(self, obj, name, st, node=None):
        k = obj.ty.kind
        if k == 'Optional':
            obj = self.coerce(obj, obj.ty.args[0], st, f'object of .{name}')
            k = obj.ty.kind
        if k == 'Ref':
            cls = obj.ty.cls
            key, decl = self.field_decl(cls, name)
            if decl is None:
                # maybe a method: resolved at call time
                return V(PY, py=('method', obj, name))
            if isinstance(decl, tuple) and decl[0] == 'expr':
                return self.eval_spec_expr(decl[1], {'self': obj}, st)
            if isinstance(decl, tuple) and decl[0] == 'method':
                return V(PY, py=('method', obj, name))
            fty = parse_type(decl) if isinstance(decl, str) else decl
            if fty.is_container:
                return V(fty, loc=FieldLoc(obj.t, key))
            arr = self.get_field_array(st, key, fty)
            if fty.kind == 'Optional' and fty.args[0].is_container:
                return V(fty, T.Sel(arr, obj.t), FieldLoc(obj.t, key))
            return V(fty, T.Sel(arr, obj.t))
        if k == 'Enum' and name == 'value':
            return V(INT, obj.t)
        if k == 'Py' and obj.py and obj.py[0] == 'enumcls':
            members = self.db.enums[obj.py[1]]
            if name in members:
                return V(Ty('Enum', (), obj.py[1]), z3.IntVal(members[name]))
        if k == 'Np2' and name == 'shape':
            term = self.load(obj, st)
            return self.mk_tuple([V(INT, T.mat_n0(obj.ty, term)), V(INT, T.mat_n1(obj.ty, term))], st)
        if k == 'Np1' and name == 'shape':
            return self.mk_tuple([V(INT, self.seq_parts(obj, st)[0])], st)
        if k == 'ODict' and name == 'items_list':
            # contract-language view of an ordered dict: its items in insertion order
            lt = ListT(TupleT(*obj.ty.args))
            return V(lt, self.load(obj, st))
        if k in ('List', 'Set', 'Dict', 'Np1', 'Np2', 'Tuple', 'ODict'):
            return V(PY, py=('method', obj, name))
        raise Unsupported(f'attribute .{name} on {obj.ty!r}')

    def setattr_(self, obj, name, val, st):
        if obj.ty.kind == 'Optional':
            obj = self.coerce(obj, obj.ty.args[0], st, f'object of .{name}')
        if obj.ty.kind != 'Ref':
            raise Unsupported(f'attribute store on {obj.ty!r}')
        key, decl = self.field_decl(obj.ty.cls, name)
        if decl is None or isinstance(decl, tuple):
            raise Unsupported(f'store to undeclared field {obj.ty.cls}.{name}')
        if st.guards:
            raise Unsupported('field write under guard')
        fty = parse_type(decl)
        val = self.materialize_empty(val, fty, st) if fty.is_container else val
        val = self.coerce(val, fty, st)
        arr = self.get_field_array(st, key, fty)
        st.fields[key] = z3.Store(arr, obj.t, self.as_term(val, st))
        if fty.is_container and isinstance(val.loc, CellLoc):
            # the local name now aliases the field
            st.heap[val.loc.n] = ('fwd', FieldLoc(obj.t, key))

    # ------------------------------------------------------------------ subscripts
    def e_Subscript(self, node, st):
        obj = self.eval(node.value, st)
        return self.getitem(obj, node.slice, st, node)

    def getitem(self, obj, sl, st, node=None):
        k = obj.ty.kind
        if k == 'Optional':
            obj = self.coerce(obj, obj.ty.args[0], st, 'subscripted value')
            k = obj.ty.kind
        what = self.src(node) if node is not None else 'subscript'
        if k == 'Tuple':
            if isinstance(sl, ast.Slice):
                raise Unsupported('tuple slice')
            idx = self.eval(sl, st)
            c = self.concrete_int(idx)
            if c is None:
                raise Unsupported('symbolic tuple index')
            n = len(obj.ty.args)
            if not -n <= c < n:
                self.total(st, z3.BoolVal(False), f'tuple index in range: {what}', node)
            return self.tuple_get(obj, c % n, st)
        if k in ('List', 'Np1'):
            ln, arr = self.seq_parts(obj, st)
            et = obj.ty.args[0]
            if isinstance(sl, ast.Slice):
                return self.slice(obj, sl, st)
            idx = self.eval(sl, st)
            if idx.ty.kind in ('Np1', 'List') and k == 'Np1':
                return self.np_index(obj, idx, st, what)
            idx = self.coerce(idx, INT, st, 'index')
            self.total(st, z3.And(idx.t >= -ln, idx.t < ln), f'index in range: {what}', node)
            return self.unbox(et, T.Sel(arr, self.norm_index(idx.t, ln, st)), st)
        if k == 'ODict':
            kt, vt = obj.ty.args
            lt = ListT(TupleT(kt, vt))
            key = self.coerce(self.eval(sl, st), kt, st)
            kterm = self.as_term(key, st)
            term = self.load(obj, st)
            ln, arr = T.seq_len(lt, term), T.seq_arr(lt, term)
            j = z3.Int(fresh_name('j'))
            present = z3.Exists([j], z3.And(0 <= j, j < ln, T.tup_get(lt.args[0], T.Sel(arr, j), 0) == kterm))
            self.total(st, present, f'key present: {what}', node)
            r = z3.Int(fresh_name('oi'))
            st.pc.append(z3.Implies(present, z3.And(0 <= r, r < ln, T.tup_get(lt.args[0], T.Sel(arr, r), 0) == kterm)))
            return self.unbox(vt, T.tup_get(lt.args[0], T.Sel(arr, r), 1), st)
        if k == 'Dict':
            kt, vt = obj.ty.args
            key = self.coerce(self.eval(sl, st), kt, st)
            term = self.load(obj, st)
            kterm = self.as_term(key, st)
            if not (isinstance(obj.loc, CellLoc) and obj.loc.n in getattr(self, 'total_dicts', ())):
                self.total(st, T.Sel(T.dict_dom(obj.ty, term), kterm), f'key present: {what}', node)
            return self.unbox(vt, T.Sel(T.dict_val(obj.ty, term), kterm), st)
        if k == 'Np2':
            term = self.load(obj, st)
            n0, n1, arr = T.mat_n0(obj.ty, term), T.mat_n1(obj.ty, term), T.mat_arr(obj.ty, term)
            et = obj.ty.args[0]
            if isinstance(sl, ast.Tuple) and len(sl.elts) == 2:
                a, b = sl.elts
                if isinstance(a, ast.Slice) and not isinstance(b, ast.Slice) and self.is_full_slice(a):
                    j = self.coerce(self.eval(b, st), INT, st)
                    self.total(st, z3.And(j.t >= -n1, j.t < n1), f'index in range: {what}', node)
                    jj = self.norm_index(j.t, n1, st)
                    return self.mk_list(st, et, n0, T.mat_col(et, arr, jj), kind='Np1')
                if isinstance(b, ast.Slice) and not isinstance(a, ast.Slice) and self.is_full_slice(b):
                    i = self.coerce(self.eval(a, st), INT, st)
                    self.total(st, z3.And(i.t >= -n0, i.t < n0), f'index in range: {what}', node)
                    return self.mk_list(st, et, n1, T.Sel(arr, self.norm_index(i.t, n0, st)), kind='Np1')
                if not isinstance(a, ast.Slice) and not isinstance(b, ast.Slice):
                    i = self.coerce(self.eval(a, st), INT, st)
                    j = self.coerce(self.eval(b, st), INT, st)
                    self.total(st, z3.And(i.t >= -n0, i.t < n0, j.t >= -n1, j.t < n1), f'index in range: {what}', node)
                    return V(et, T.Sel(T.Sel(arr, self.norm_index(i.t, n0, st)), self.norm_index(j.t, n1, st)))
            elif not isinstance(sl, (ast.Slice, ast.Tuple)):
                i = self.coerce(self.eval(sl, st), INT, st)
                self.total(st, z3.And(i.t >= -n0, i.t < n0), f'index in range: {what}', node)
                return self.mk_list(st, et, n1, T.Sel(arr, self.norm_index(i.t, n0, st)), kind='Np1')
            raise Unsupported(f'2-D subscript form {what}')
        raise Unsupported(f'subscript on {obj.ty!r}')

    def is_full_slice(self, s):
        return s.lower is None and s.upper is None and s.step is None

    def concrete_int(self, v):
        if v.ty.kind != 'Int':
            return None
        s = z3.simplify(v.t)
        if z3.is_int_value(s):
            return s.as_long()
        return None

    def slice_bounds(self, sl, ln, st):
        if sl.step is not None:
            raise Unsupported('slice step')

        def clampi(x):
            x = z3.If(x < 0, x + ln, x)
            return z3.If(x < 0, I0, z3.If(x > ln, ln, x))
        lo = I0 if sl.lower is None else clampi(self.coerce(self.eval(sl.lower, st), INT, st).t)
        hi = ln if sl.upper is None else clampi(self.coerce(self.eval(sl.upper, st), INT, st).t)
        return lo, hi

    def slice(self, obj, sl, st):
        ln, arr = self.seq_parts(obj, st)
        lo, hi = self.slice_bounds(sl, ln, st)
        n = z3.If(hi > lo, hi - lo, I0)
        i = z3.Int(fresh_name('i'))
        return self.mk_list(st, obj.ty.args[0], n, z3.Lambda([i], T.Sel(arr, i + lo)), kind=obj.ty.kind)

    def np_index(self, obj, idx, st, what):
        ln, arr = self.seq_parts(obj, st)
        il, ia = self.seq_parts(idx, st)
        et = obj.ty.args[0]
        if idx.ty.args[0].kind == 'Int':
            i = z3.Int(fresh_name('i'))
            self.total(st, z3.ForAll([i], z3.Implies(z3.And(0 <= i, i < il),
                                                     z3.And(T.Sel(ia, i) >= -ln, T.Sel(ia, i) < ln))),
                       f'index array in range: {what}')
            return self.mk_list(st, et, il, z3.Lambda([i], T.Sel(arr, self.norm_index(T.Sel(ia, i), ln, st))),
                                kind='Np1')
        raise Unsupported('boolean mask indexing (read)')

    def setitem(self, target, val, st):
        obj = self.eval(target.value, st)
        if obj.ty.kind == 'Optional' and obj.ty.args[0].is_container:
            obj = self.coerce(obj, obj.ty.args[0], st, 'subscripted value')
        sl = target.slice
        k = obj.ty.kind
        what = self.src(target)
        if k in ('List', 'Np1'):
            et = obj.ty.args[0]
            ln, arr = self.seq_parts(obj, st)
            if isinstance(sl, ast.Slice):
                lo, hi = self.slice_bounds(sl, ln, st)
                if k == 'Np1' and val.ty.kind not in ('List', 'Np1'):
                    v = self.coerce(val, et, st)
                    i = z3.Int(fresh_name('i'))
                    new = z3.Lambda([i], z3.If(z3.And(lo <= i, i < hi), v.t, T.Sel(arr, i)))
                    self.store(obj, T.seq_mk(obj.ty, ln, new), st)
                    return
                val = self.coerce(val, Ty(val.ty.kind, (et,)), st)
                vl, va = self.seq_parts(val, st)
                if k == 'Np1':
                    self.total(st, vl == z3.If(hi > lo, hi - lo, I0), f'slice assignment shapes match: {what}')
                hi2 = z3.If(hi < lo, lo, hi)
                i = z3.Int(fresh_name('i'))
                new = z3.Lambda([i], z3.If(i < lo, T.Sel(arr, i),
                                           z3.If(i < lo + vl, T.Sel(va, i - lo), T.Sel(arr, i - vl + hi2 - lo))))
                self.store(obj, T.seq_mk(obj.ty, ln - (hi2 - lo) + vl, new), st)
                return
            idx = self.eval(sl, st)
            if idx.ty.kind in ('Np1', 'List') and k == 'Np1':
                return self.np_setitem(obj, idx, val, st, what)
            idx = self.coerce(idx, INT, st)
            self.total(st, z3.And(idx.t >= -ln, idx.t < ln), f'index in range: {what}', target)
            if et.kind == 'Bottom':
                raise Unsupported('store into untyped empty list')
            v = self.coerce(val, et, st)
            self.store(obj, T.seq_mk(obj.ty, ln, z3.Store(arr, self.norm_index(idx.t, ln, st), self.as_term(v, st))), st)
            self.mark_escaped(val, st)
            return
        if k == 'Dict':
            kt, vt = obj.ty.args
            key = self.coerce(self.eval(sl, st), kt, st)
            v = self.coerce(val, vt, st)
            term = self.load(obj, st)
            kterm = self.as_term(key, st)
            self.store(obj, T.dict_mk(obj.ty, z3.Store(T.dict_dom(obj.ty, term), kterm, z3.BoolVal(True)),
                                      z3.Store(T.dict_val(obj.ty, term), kterm, self.as_term(v, st))), st)
            self.mark_escaped(val, st)
            return
        if k == 'Np2' and isinstance(sl, ast.Tuple) and len(sl.elts) == 2 and \
                not any(isinstance(e, ast.Slice) for e in sl.elts):
            term = self.load(obj, st)
            n0, n1, arr = T.mat_n0(obj.ty, term), T.mat_n1(obj.ty, term), T.mat_arr(obj.ty, term)
            i = self.coerce(self.eval(sl.elts[0], st), INT, st)
            j = self.coerce(self.eval(sl.elts[1], st), INT, st)
            self.total(st, z3.And(i.t >= -n0, i.t < n0, j.t >= -n1, j.t < n1), f'index in range: {what}', target)
            ii, jj = self.norm_index(i.t, n0, st), self.norm_index(j.t, n1, st)
            v = self.coerce(val, obj.ty.args[0], st)
            new = z3.Store(arr, ii, z3.Store(T.Sel(arr, ii), jj, v.t))
            self.store(obj, T.mat_mk(obj.ty, n0, n1, new), st)
            return
        raise Unsupported(f'subscript store on {obj.ty!r}: {what}')

    def np_setitem(self, obj, idx, val, st, what):
        ln, arr = self.seq_parts(obj, st)
        il, ia = self.seq_parts(idx, st)
        et = obj.ty.args[0]
        if idx.ty.args[0].kind == 'Bool' and val.ty.kind not in ('List', 'Np1'):
            self.total(st, il == ln, f'mask length matches: {what}')
            v = self.coerce(val, et, st)
            i = z3.Int(fresh_name('i'))
            new = z3.Lambda([i], z3.If(z3.And(0 <= i, i < ln, T.Sel(ia, i)), v.t, T.Sel(arr, i)))
            self.store(obj, T.seq_mk(obj.ty, ln, new), st)
            return
        raise Unsupported(f'numpy fancy assignment {what}')

    def mark_escaped(self, val, st):
        if val.ty.is_container and isinstance(val.loc, CellLoc):
            h = st.heap[val.loc.n]
            if not isinstance(h, tuple):
                # keep contents readable but forbid later mutation through this name
                st.heap[val.loc.n] = h
                st.env.setdefault('!escaped', V(PY, py=set()))
                st.env['!escaped'] = V(PY, py=set(st.env['!escaped'].py) | {val.loc.n})


BUILTINS = {'len', 'range', 'enumerate', 'zip', 'int', 'float', 'bool', 'isinstance', 'min', 'max', 'abs', 'sum',
            'sorted', 'list', 'tuple', 'set', 'dict', 'any', 'all', 'print', 'reversed', 'iter', 'frozenset', 'str',
            'repr', 'round', 'defaultdict'}
