"""Contract database: loads the sidecar contract modules of /verif/contracts and locates the real functions."""
import ast
import hashlib
import importlib
import os
import z3
from . import ty as T
from .ty import Ty, INT, BOOL, REAL, parse_type, sort_of, SetT
from .core import V, PY, Unsupported, fresh_name


class ContractDB:
    def __init__(self, root='/repo'):
        self.root = root
        self.contracts = {}
        self.classes = {}
        self.enums = {}
        self.spec_funcs = {}
        self.exc_bases = {}
        self.module_globals = {}   # file -> {name: const}
        self.methods = {}          # (cls, name) -> callee spec | contract key
        self.replays = {}          # key -> callable
        self.domains = {}          # key -> generator of bounded real inputs
        self.axioms = []
        self._nan = None
        self._card = {}
        self._sum = {}
        self._count = {}
        self._isinst = {}
        self._src_cache = {}

    # -- loading -------------------------------------------------------------------------------
    def load_module(self, modname):
        m = importlib.import_module(modname)
        for k, c in getattr(m, 'CONTRACTS', {}).items():
            c = dict(c)
            c.setdefault('module', modname)
            self.contracts[k] = c
        for k, c in getattr(m, 'CLASSES', {}).items():
            self.classes.setdefault(k, {}).update(c)
        for k, c in getattr(m, 'ENUMS', {}).items():
            self.enums[k] = c
        for k, c in getattr(m, 'GLOBALS', {}).items():
            self.module_globals.setdefault(k, {}).update(c)
        for k, c in getattr(m, 'METHODS', {}).items():
            self.methods[k] = c
        for k, c in getattr(m, 'SPEC_FUNCS', {}).items():
            self.spec_funcs[k] = c
        for k, c in getattr(m, 'REPLAY', {}).items():
            self.replays[k] = c
        for k, c in getattr(m, 'DOMAIN', {}).items():
            self.domains[k] = c
        self.exc_bases.update(getattr(m, 'EXC_BASES', {}))
        return m

    def globals_for(self, key):
        return self.module_globals.get(key.split(':')[0], {})

    # -- locating the real source ------------------------------------------------------------------
    def source(self, relpath):
        p = os.path.join(self.root, relpath)
        if not os.path.exists(p) and os.path.exists(os.path.join(os.environ.get('VERIF_REPO', '/repo'), relpath)):
            p = os.path.join(os.environ.get('VERIF_REPO', '/repo'), relpath)   # self-test scratch roots hold one file
        if p not in self._src_cache:
            with open(p) as f:
                text = f.read()
            self._src_cache[p] = (text, ast.parse(text))
        return self._src_cache[p]

    def find_function(self, key):
        """key = 'relative/file.py:Qual.name' ('<locals>' allowed). Returns (FunctionDef node, source segment)."""
        relpath, qual = key.split(':', 1)
        qual = qual.split('@')[0]
        text, tree = self.source(relpath)
        node = tree
        for part in qual.split('.'):
            if part == '<locals>':
                continue
            found = None
            for ch in ast.walk(node) if isinstance(node, (ast.FunctionDef,)) else ast.iter_child_nodes(node):
                if isinstance(ch, (ast.FunctionDef, ast.ClassDef)) and ch.name == part and ch is not node:
                    found = ch
                    break
            if found is None:
                raise LookupError(f'function under contract not found: {key}')
            node = found
        if not isinstance(node, ast.FunctionDef):
            raise LookupError(f'not a function: {key}')
        seg = ast.get_source_segment(text, node)
        return node, seg

    def source_hash(self, key):
        node, seg = self.find_function(key)
        return hashlib.sha256(seg.encode()).hexdigest()[:16]

    # -- shared uninterpreted symbols -----------------------------------------------------------
    def nan_const(self):
        """NaN as a distinguished real-sorted constant: only identity (`is nan`) is ever used (assumption A-float)."""
        if self._nan is None:
            self._nan = z3.Real('NAN')
        return self._nan

    def card(self, setterm, sty):
        k = sty.key
        if k not in self._card:
            self._card[k] = z3.Function('card_' + k, sort_of(sty), z3.IntSort())
        return self._card[k](setterm)

    def seq_sum(self, lty, arr, n):
        k = lty.args[0].key
        et = lty.args[0] if lty.args[0].kind != 'Bool' else INT
        if k not in self._sum:
            self._sum[k] = z3.Function('sum_' + k, z3.ArraySort(z3.IntSort(), sort_of(lty.args[0])), z3.IntSort(),
                                       sort_of(et))
        return self._sum[k](arr, n)

    def seq_count(self, lty, arr, n, x, engine=None):
        """count(seq, x, n) = number of i < n with seq[i] == x: uninterpreted + the two definitional axioms,
        instantiated by the solver through patterns."""
        k = lty.args[0].key
        if k not in self._count:
            es = sort_of(lty.args[0])
            f = z3.Function('count_' + k, z3.ArraySort(z3.IntSort(), es), z3.IntSort(), es, z3.IntSort())
            self._count[k] = f
            a = z3.Const('cnt_a', z3.ArraySort(z3.IntSort(), es))
            n_ = z3.Int('cnt_n')
            x_ = z3.Const('cnt_x', es)
            self.axioms.append(z3.ForAll([a, x_], f(a, z3.IntVal(0), x_) == 0))
            self.axioms.append(z3.ForAll([a, n_, x_], z3.Implies(
                n_ >= 0, f(a, n_ + 1, x_) == f(a, n_, x_) + z3.If(z3.Select(a, n_) == x_, 1, 0)),
                patterns=[f(a, n_ + 1, x_)]))
            self.axioms.append(z3.ForAll([a, n_, x_], z3.Implies(n_ <= 0, f(a, n_, x_) == 0)))
            # range of a count (by induction over the two defining equations): 0 <= count <= max(n, 0)
            self.axioms.append(z3.ForAll([a, n_, x_], z3.And(f(a, n_, x_) >= 0, z3.Implies(n_ >= 0, f(a, n_, x_) <= n_)),
                                         patterns=[f(a, n_, x_)]))
        return self._count[k](arr, n, x)

    def isinst(self, cls):
        if cls not in self._isinst:
            self._isinst[cls] = z3.Function('isinst_' + cls, T.RefSort, z3.BoolSort())
        return self._isinst[cls]

    # -- callee contracts ---------------------------------------------------------------------------
    def callee_spec(self, key):
        """Call-site view of the contract of another function under contract (modular verification: the caller sees
        only this, never the body)."""
        c = self.contracts[key]
        node, _ = self.find_function(key)
        params = [a.arg for a in node.args.args]
        defaults = {}
        nd = len(node.args.defaults)
        for a, d in zip(node.args.args[len(params) - nd:], node.args.defaults):
            try:
                defaults[a.arg] = ast.literal_eval(d)
            except Exception:
                pass
        deco = [ast.unparse(d) for d in node.decorator_list]
        spec = dict(params=params, defaults=defaults, types=c.get('types', {}), requires=c.get('requires', ()),
                    ensures=c.get('ensures', ()), modifies=c.get('modifies', ()), returns=c.get('returns'),
                    raises=c.get('raises'), allocates=c.get('allocates'), ghost=list(c.get('ghost', {})),
                    defs=c.get('defs', {}), post_locals=[(n, c.get('locals', {}).get(n)) for n in c.get('post_locals', ())],
                    verified_as=key)
        if 'staticmethod' in deco:
            spec['static'] = True
        elif 'classmethod' in deco:
            spec['classmethod'] = True
        elif params and params[0] == 'self':
            spec['self'] = True
        return spec

    def method_spec(self, cls, name, engine):
        seen, todo = set(), [cls]
        while todo:
            c = todo.pop(0)
            if c is None or c in seen:
                continue
            seen.add(c)
            if (c, name) in self.methods:
                s = self.methods[(c, name)]
                if isinstance(s, str):
                    sp = self.callee_spec(s)
                    if sp.get('static'):
                        sp = dict(sp)
                        sp['params'] = ['!self'] + sp['params']
                    return sp
                return s
            todo += list(self.classes.get(c, {}).get('__bases__', ()))
        return None
