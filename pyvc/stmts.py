"""pyvc: statements, loops (cut by invariants), spec expressions, top-level driver."""
import ast
import z3
from . import ty as T
from .ty import Ty, INT, BOOL, REAL, STR, REF, NONE, sort_of, parse_type, Opt, ListT, SetT, DictT, TupleT
from .core import V, PY, CellLoc, FieldLoc, State, Obligation, Unsupported, fresh, fresh_name
from .engine import Engine, IterModel, Closure, Outcome, NORMAL, I0, I1, zint, And, Implies
from .calls import CallsMixin

EXC_BASES = {
    'ValueError': 'Exception', 'RuntimeError': 'Exception', 'KeyError': 'LookupError', 'IndexError': 'LookupError',
    'LookupError': 'Exception', 'TypeError': 'Exception', 'AssertionError': 'Exception',
    'NotImplementedError': 'RuntimeError', 'StopIteration': 'Exception', 'Exception': 'BaseException',
    'ZeroDivisionError': 'ArithmeticError', 'ArithmeticError': 'Exception', 'AttributeError': 'Exception',
}


def exc_matches(name, handler, extra):
    bases = dict(EXC_BASES)
    bases.update(extra)
    while name is not None:
        if name == handler:
            return True
        name = bases.get(name)
    return False


_hq = {}


def has_quant(t):
    i = t.get_id()
    r = _hq.get(i)
    if r is None:
        if z3.is_quantifier(t):
            r = True
        elif z3.is_app(t):
            r = any(has_quant(c) for c in t.children())
        else:
            r = False
        _hq[i] = (r, t)   # keep the term alive: z3 re-uses ids of collected terms
        return r
    return r[0]


def loop_sig(s):
    if isinstance(s, ast.For):
        t = ast.unparse(s.target)
        if t.startswith('(') and t.endswith(')'):
            t = t[1:-1]
        return f'for {t} in {ast.unparse(s.iter)}'
    return f'while {ast.unparse(s.test)}'


class FunctionEngine(CallsMixin, Engine):
    pending_raises = None
    spec_env = {}
    spec_pre = None

    # ------------------------------------------------------------------ spec expressions
    def eval_spec(self, src, env, st, pre=None, goal=False):
        """Evaluates a contract expression to a z3 Bool. `env` maps names to Vs; heap/fields are taken from `st`,
        `old(e)` from `pre`."""
        v = self.eval_spec_expr(src, env, st, pre)
        return self.truth(v, st)

    def eval_spec_expr(self, src, env, st, pre=None):
        tree = src if isinstance(src, ast.AST) else ast.parse(src.strip(), mode='eval').body
        s2 = st.copy()
        s2.env = dict(env)
        s2.guards = []
        saved = (self.spec_env, self.spec_pre)
        self.spec_env, self.spec_pre = env, (pre if pre is not None else self.spec_pre)
        self.in_spec += 1
        try:
            v = self.eval(tree, s2)
            if v.ty.is_container and v.loc is not None:
                v = V(v.ty, self.load(v, s2))
        finally:
            self.in_spec -= 1
            self.spec_env, self.spec_pre = saved
        extra = s2.pc[len(st.pc):]
        if extra:
            # definitional side conditions of spec-level constructs (index(), filtered comprehension)
            for e in extra:
                st.pc.append(e)
        return v

    def spec_call(self, node, st):
        if not isinstance(node.func, ast.Name):
            return None
        f = node.func.id
        a = node.args
        if f == 'old':
            pre = self.spec_pre
            if pre is None:
                raise Unsupported('old() without pre-state')
            s2 = pre.copy()
            if getattr(self, 'callee_env', None) is not None:
                # clause of a callee contract: names are the callee's parameters
                s2.env = dict(self.callee_env)
            else:
                s2.env = dict(self.pre_env if self.pre_env is not None else pre.env)
            s2.env.update({k: v for k, v in st.env.items() if k not in s2.env})
            v = self.eval(a[0], s2)
            if v.ty.is_container and v.loc is not None:
                v = V(v.ty, self.load(v, s2))
            elif v.ty.kind == 'Optional' and v.loc is not None:
                v = V(v.ty, self.opt_term(v, s2))   # snapshot: must not be re-read from the current state
            return v
        if f == 'implies':
            p = self.truth(self.eval(a[0], st), st)
            st.guards.append(p)
            try:
                q = self.truth(self.eval(a[1], st), st)
            finally:
                st.guards.pop()
            return V(BOOL, z3.Implies(p, q))
        if f == 'iff':
            return V(BOOL, self.truth(self.eval(a[0], st), st) == self.truth(self.eval(a[1], st), st))
        if f in ('forall', 'exists'):
            return self.spec_quant(f, a, st)
        if f == 'is_int':
            v = self.eval(a[0], st)
            if v.ty.kind in ('Int', 'Bool', 'Enum'):
                return V(BOOL, z3.BoolVal(True))
            if v.ty.kind == 'Optional':
                v = V(v.ty.args[0], T.opt_val(v.ty, v.t))
                if v.ty.kind in ('Int', 'Bool'):
                    return V(BOOL, z3.BoolVal(True))
            return V(BOOL, z3.IsInt(v.t))
        if f == 'unchanged':
            cur = self.eval(a[0], st)
            old = self.spec_call(ast.Call(func=ast.Name(id='old'), args=[a[0]], keywords=[]), st)
            return V(BOOL, self.equals(cur, old, st))
        if f == 'fresh':
            v = self.eval(a[0], st)
            if v.ty.is_container:
                ok = isinstance(v.loc, CellLoc) and v.loc.n in st.alloc and not isinstance(st.heap[v.loc.n], tuple)
                return V(BOOL, z3.BoolVal(bool(ok)))
            raise Unsupported('fresh() on non-container')
        if f == 'nondet':
            return V(BOOL, z3.Bool(fresh_name('nondet')))
        if f == 'allocated':
            v = self.eval(a[0], st)
            return V(BOOL, T.Sel(self.alloc_map(st), v.t))
        if f == 'fresh_object':
            v = self.eval(a[0], st)
            pre = self.spec_pre
            return V(BOOL, z3.And(z3.Not(T.Sel(self.alloc_map(pre), v.t)), T.Sel(self.alloc_map(st), v.t)))
        if f == 'same_object':
            x, y = self.eval(a[0], st), self.eval(a[1], st)
            if x.ty.is_container and y.ty.is_container:
                return V(BOOL, z3.BoolVal(self.same_loc(x.loc, y.loc, st)))
            raise Unsupported('same_object on non-containers')
        if f == 'subset':
            x, y = self.eval(a[0], st), self.eval(a[1], st)
            e = z3.Const(fresh_name('e'), sort_of(x.ty.args[0]))
            return V(BOOL, z3.ForAll([e], z3.Implies(T.Sel(self.load(x, st), e), T.Sel(self.load(y, st), e))))
        if f == 'count':
            s, x = self.eval(a[0], st), self.eval(a[1], st)
            ln, arr = self.seq_parts(s, st)
            upto = self.coerce(self.eval(a[2], st), INT, st).t if len(a) > 2 else ln
            return V(INT, self.db.seq_count(s.ty, arr, upto, self.as_term(self.coerce(x, s.ty.args[0], st), st), self))
        if f == 'ite':
            c = self.truth(self.eval(a[0], st), st)
            x, y, t = self.unify(self.eval(a[1], st), self.eval(a[2], st), st)
            return self.ite(c, x, y, t, st)
        if f == 'typed':
            # typed('Set[Ref]', name): a named free constant of that type (ghost)
            t = parse_type(a[0].value)
            name = a[1].value
            if name not in self.ghost_consts:
                self.ghost_consts[name] = V(t, z3.Const('ghost!' + name, sort_of(t)))
            return self.ghost_consts[name]
        cf = self.contract.get('funcs', {})
        if f in cf:
            argt, rett = cf[f]
            key = ('cfunc', f)
            if key not in self.ghost_consts:
                self.ghost_consts[key] = z3.Function('ghostfn!' + f, *[sort_of(parse_type(t)) for t in argt],
                                                     sort_of(parse_type(rett)))
            fn = self.ghost_consts[key]
            vals = [self.as_term(self.coerce(self.eval(x, st), parse_type(t), st), st) for x, t in zip(a, argt)]
            return V(parse_type(rett), fn(*vals))
        if f in self.db.spec_funcs:
            return self.db.spec_funcs[f](self, [self.eval(x, st) for x in a], st)
        macros = self.contract.get('defs', {})
        if f in macros:
            params, body = macros[f]
            vals = [self.eval(x, st) for x in a]
            saved = dict(st.env)
            saved_spec = self.spec_env
            self.spec_env = dict(self.spec_env)
            for p, v in zip(params, vals):
                self.spec_env[p] = v
                st.env[p] = v
            try:
                return self.eval(ast.parse(body.strip(), mode='eval').body, st)
            finally:
                st.env = saved
                self.spec_env = saved_spec
        return None

    def same_loc(self, a, b, st):
        def res(l):
            while isinstance(l, CellLoc) and isinstance(st.heap.get(l.n), tuple) and st.heap[l.n][0] == 'fwd':
                l = st.heap[l.n][1]
            return l
        a, b = res(a), res(b)
        if isinstance(a, CellLoc) and isinstance(b, CellLoc):
            return a.n == b.n
        if isinstance(a, FieldLoc) and isinstance(b, FieldLoc):
            return a.fname == b.fname and z3.eq(a.ref, b.ref)
        return False

    def spec_quant(self, f, a, st):
        """forall(i, lo, hi, P)  |  forall('x:Type', ..., P)  |  forall(x, S, P) with S a set/list value."""
        body = a[-1]
        bvs, doms = [], []
        saved = dict(st.env)
        saved_spec = self.spec_env
        self.spec_env = dict(self.spec_env)
        try:
            if isinstance(a[0], ast.Constant) and isinstance(a[0].value, str):
                for d in a[:-1]:
                    name, tname = d.value.split(':')
                    t = parse_type(tname)
                    c = z3.Const(fresh_name(name), sort_of(t))
                    bvs.append(c)
                    st.env[name.strip()] = self.spec_env[name.strip()] = V(t, c)
            elif len(a) == 4:
                name = a[0].id
                c = z3.Int(fresh_name(name))
                lo = self.coerce(self.eval(a[1], st), INT, st).t
                hi = self.coerce(self.eval(a[2], st), INT, st).t
                bvs.append(c)
                doms.append(z3.And(lo <= c, c < hi))
                st.env[name] = self.spec_env[name] = V(INT, c)
            elif len(a) == 3:
                name = a[0].id
                s = self.eval(a[1], st)
                if s.ty.kind == 'Set':
                    c = z3.Const(fresh_name(name), sort_of(s.ty.args[0]))
                    bvs.append(c)
                    doms.append(T.Sel(self.load(s, st), c))
                    st.env[name] = self.spec_env[name] = self.unbox(s.ty.args[0], c, st)
                elif s.ty.kind == 'Dict':
                    c = z3.Const(fresh_name(name), sort_of(s.ty.args[0]))
                    bvs.append(c)
                    doms.append(T.Sel(T.dict_dom(s.ty, self.load(s, st)), c))
                    st.env[name] = self.spec_env[name] = self.unbox(s.ty.args[0], c, st)
                else:
                    raise Unsupported('quantifier domain')
            else:
                raise Unsupported('quantifier form')
            st.guards.append(And(*doms))
            try:
                bv = self.eval(body, st)
                p = self.truth(bv, st)
            finally:
                st.guards.pop()
        finally:
            st.env = saved
            self.spec_env = saved_spec
        d = And(*doms)
        # flatten directly nested quantifiers of the same kind (gives the solver usable multi-patterns)
        if isinstance(bv.py, tuple) and bv.py and bv.py[0] == f:
            _, ibvs, idom, ip = bv.py
            bvs = bvs + ibvs
            d = And(d, idom)
            p = ip
        if f == 'forall':
            return V(BOOL, z3.ForAll(bvs, z3.Implies(d, p)), py=('forall', bvs, d, p))
        return V(BOOL, z3.Exists(bvs, z3.And(d, p)), py=('exists', bvs, d, p))

    # ------------------------------------------------------------------ solver helpers (path pruning)
    def feasible(self, st, cond=None):
        """Path pruning. Quantified facts are left out (over-approximation: a path is only dropped when its
        quantifier-free part is already contradictory)."""
        if not self.prune:
            return True
        s = z3.Solver()
        s.set('timeout', 500)
        for p in st.pc:
            if not has_quant(p):
                s.add(p)
        if cond is not None:
            s.add(cond)
        return s.check() != z3.unsat

    def valid(self, st, cond, timeout=2000):
        s = z3.Solver()
        s.set('timeout', timeout)
        for p in st.context():
            s.add(p)
        s.add(z3.Not(cond))
        return s.check() == z3.unsat

    def axioms_for_prune(self):
        return []

    # ------------------------------------------------------------------ statements
    def exec_block(self, stmts, st):
        states = [(st, NORMAL)]
        for s in stmts:
            nxt = []
            for (cur, out) in states:
                if out.kind != 'normal':
                    nxt.append((cur, out))
                    continue
                nxt.extend(self.exec_stmt(s, cur))
            states = nxt
            if len(states) > self.max_paths:
                raise Unsupported(f'path explosion (> {self.max_paths} paths)')
        return states

    def exec_stmt(self, s, st):
        m = getattr(self, 's_' + type(s).__name__, None)
        if m is None:
            raise Unsupported(f'statement {type(s).__name__} at line {s.lineno}')
        self.pending_raises = []
        res = m(s, st)
        return res

    def with_raises(self, st, results):
        """Adds the exceptional continuations of raising callees evaluated during the statement."""
        out = list(results)
        for exc, w, pre in (self.pending_raises or []):
            s2 = pre.copy()
            s2.assume(w)
            s2.trace.append(f'raise:{exc}')
            if self.feasible(s2):
                out.append((s2, Outcome('raise', exc=exc)))
        self.pending_raises = []
        return out

    def s_Pass(self, s, st):
        return [(st, NORMAL)]

    def s_Import(self, s, st):
        return [(st, NORMAL)]

    s_ImportFrom = s_Import

    def s_Expr(self, s, st):
        e = s.value
        if isinstance(e, ast.Constant):
            return [(st, NORMAL)]
        if isinstance(e, ast.Yield):
            v = self.eval(e.value, st) if e.value is not None else self.const(None)
            self.yield_val(v, st)
            return self.with_raises(st, [(st, NORMAL)])
        if isinstance(e, ast.YieldFrom):
            v = self.eval(e.value, st)
            m = self.iter_model(v, st)
            if m.setlike is not None:
                raise Unsupported('yield from set')
            y = self.Yv(st)
            ln, arr = self.seq_parts(y, st)
            i = z3.Int(fresh_name('i'))
            it = m.item(i - ln, st)
            itc = self.coerce(it, y.ty.args[0], st)
            self.store(y, T.seq_mk(y.ty, ln + m.n, z3.Lambda([i], z3.If(i < ln, T.Sel(arr, i), self.as_term(itc, st)))), st)
            return self.with_raises(st, [(st, NORMAL)])
        if isinstance(e, ast.Call) and self.src(e.func) in ('print', 'log.debug', 'log.info', 'warnings.warn'):
            return [(st, NORMAL)]
        self.eval(e, st)
        return self.with_raises(st, [(st, NORMAL)])

    def Yv(self, st):
        if st.Y is None:
            raise Unsupported('yield in a function whose contract does not declare `yields`')
        return st.Y

    def yield_val(self, v, st):
        y = self.Yv(st)
        ln, arr = self.seq_parts(y, st)
        vc = self.coerce(v, y.ty.args[0], st)
        self.store(y, T.seq_mk(y.ty, ln + 1, z3.Store(arr, ln, self.as_term(vc, st))), st)

    def declared_local(self, name):
        d = self.contract.get('locals', {})
        return parse_type(d[name]) if name in d else None

    def assign_name(self, name, val, st):
        want = self.declared_local(name)
        if want is not None:
            if want.is_container:
                val = self.materialize_empty(val, want, st)
                if val.ty != want:
                    cv = self.coerce(val, want, st)
                    # a coercion that keeps the identity of the container (e.g. Optional[T] -> T) keeps its location:
                    # the local is an alias, not a copy
                    val = cv if cv.loc is not None else self.new_cell(st, want, self.as_term(cv, st))
                elif val.loc is None:
                    val = self.new_cell(st, want, val.t)
                elif repr(val.ty) != repr(want):
                    # same sort, the declared type only names the class of the referenced objects (Ref -> Ref[C]):
                    # the declaration is what field accesses on the elements are resolved with
                    val = V(want, val.t, val.loc)
            else:
                val = self.coerce(val, want, st)
        elif val.ty.is_container and val.ty.args and val.ty.args[0].kind == 'Bottom' and val.ty.kind in ('Set', 'Dict'):
            raise Unsupported(f'untyped empty {val.ty.kind.lower()} assigned to `{name}`: declare it in the contract `locals`')
        elif val.ty.is_container and val.loc is None and val.t is not None:
            # value read out of another container: gets its own cell (copy semantics; aliasing with the source
            # element is not modelled -> mutation through it is refused, see store())
            val = self.new_cell(st, val.ty, val.t, track=False)
            st.env.setdefault('!escaped', V(PY, py=set()))
            st.env['!escaped'] = V(PY, py=set(st.env['!escaped'].py) | {val.loc.n})
        st.env[name] = val

    def store(self, v, term, st):
        if isinstance(v.loc, CellLoc) and '!escaped' in st.env and v.loc.n in st.env['!escaped'].py:
            raise Unsupported('mutation of a container that is shared by value with another container')
        return Engine.store(self, v, term, st)

    def s_Assign(self, s, st):
        dead = self.contract.get('dead_locals', ())
        if dead and all(isinstance(t, ast.Name) and t.id in dead for t in s.targets):
            # locals that are only read by an abstracted nested function: the assignment is dropped (its right-hand
            # side is assumed side-effect free); any later read of the name is an error (unknown name)
            return [(st, NORMAL)]
        val = self.eval(s.value, st)
        for tgt in s.targets:
            self.assign_to(tgt, val, st)
        return self.with_raises(st, [(st, NORMAL)])

    def s_AnnAssign(self, s, st):
        if s.value is None:
            return [(st, NORMAL)]
        val = self.eval(s.value, st)
        self.assign_to(s.target, val, st)
        return self.with_raises(st, [(st, NORMAL)])

    def assign_to(self, tgt, val, st):
        if isinstance(tgt, ast.Name):
            self.assign_name(tgt.id, val, st)
        elif isinstance(tgt, (ast.Tuple, ast.List)) and not all(isinstance(e, (ast.Name, ast.Tuple, ast.List)) for e in tgt.elts):
            # unpacking into subscripts / attributes: element-wise assignment
            if val.ty.kind == 'Optional':
                val = self.coerce(val, val.ty.args[0], st, 'unpacked value')
            if val.ty.kind != 'Tuple' or len(val.ty.args) != len(tgt.elts):
                raise Unsupported('unpacking into non-name targets needs a tuple of matching arity')
            for i, e in enumerate(tgt.elts):
                self.assign_to(e, self.tuple_get(val, i, st), st)
        elif isinstance(tgt, (ast.Tuple, ast.List)):
            tmp = State()
            tmp2 = {}
            # unpack via bind_target into a scratch env, then assign (to honour declared local types)
            saved = st.env
            st.env = dict(saved)
            self.bind_target(tgt, val, st)
            new = st.env
            st.env = saved
            for n in self.target_names(tgt):
                self.assign_name(n, new[n], st)
        elif isinstance(tgt, ast.Subscript):
            self.setitem(tgt, val, st)
        elif isinstance(tgt, ast.Attribute):
            obj = self.eval(tgt.value, st)
            self.setattr_(obj, tgt.attr, val, st)
        else:
            raise Unsupported(f'assignment target {type(tgt).__name__}')

    def target_names(self, tgt):
        if isinstance(tgt, ast.Name):
            return [tgt.id]
        if isinstance(tgt, (ast.Tuple, ast.List)):
            return sum((self.target_names(e) for e in tgt.elts), [])
        return []

    def s_AugAssign(self, s, st):
        tgt = s.target
        cur = self.eval(tgt, st) if not isinstance(tgt, ast.Name) else st.env.get(tgt.id) or self.eval(tgt, st)
        val = self.eval(s.value, st)
        if cur.ty.kind == 'Optional' and cur.ty.args[0].is_container:
            cur = self.coerce(cur, cur.ty.args[0], st, 'augmented-assignment target')
        k = cur.ty.kind
        if k == 'List' and isinstance(s.op, ast.Add):
            # in-place extend
            cur = self.materialize_empty(cur, val.ty, st)
            if cur.loc is None:
                raise Unsupported('+= on list value')
            o = self.coerce(self.to_list(val, st), cur.ty, st) if val.ty != cur.ty else val
            ln, arr = self.seq_parts(cur, st)
            ol, oa = self.seq_parts(o, st)
            i = z3.Int(fresh_name('i'))
            carr = z3.Lambda([i], z3.If(i < ln, T.Sel(arr, i), T.Sel(oa, i - ln)))
            if not hasattr(self, 'concat_prov'):
                self.concat_prov = {}
            self.concat_prov[carr.get_id()] = (carr, ln, arr, ol, oa)
            self.store(cur, T.seq_mk(cur.ty, ln + ol, carr), st)
            if isinstance(tgt, ast.Name):
                st.env[tgt.id] = cur
            return self.with_raises(st, [(st, NORMAL)])
        if k == 'Np1':
            # numpy in-place operators write through to the shared buffer
            r = self.np_binop(s.op, cur, val, st)
            self.store(cur, self.load(r, st), st)
            return self.with_raises(st, [(st, NORMAL)])
        if k == 'Set':
            r = self.binop(s.op, cur, val, st)
            self.store(cur, self.load(r, st), st)
            return self.with_raises(st, [(st, NORMAL)])
        r = self.binop(s.op, cur, val, st, ast.BinOp(left=tgt, op=s.op, right=s.value))
        self.assign_to(tgt, r, st)
        return self.with_raises(st, [(st, NORMAL)])

    def s_Delete(self, s, st):
        for tgt in s.targets:
            if isinstance(tgt, ast.Subscript):
                obj = self.eval(tgt.value, st)
                if obj.ty.kind == 'Dict':
                    self.refuse_total_dict(obj, 'del')
                    key = self.coerce(self.eval(tgt.slice, st), obj.ty.args[0], st)
                    d = self.load(obj, st)
                    kt = self.as_term(key, st)
                    self.total(st, T.Sel(T.dict_dom(obj.ty, d), kt), f'key present: {self.src(tgt)}', tgt)
                    self.store(obj, T.dict_mk(obj.ty, z3.Store(T.dict_dom(obj.ty, d), kt, z3.BoolVal(False)),
                                              T.dict_val(obj.ty, d)), st)
                    continue
            raise Unsupported('del form')
        return [(st, NORMAL)]

    def s_Return(self, s, st):
        v = self.eval(s.value, st) if s.value is not None else self.const(None)
        return self.with_raises(st, [(st, Outcome('return', val=v))])

    def s_Raise(self, s, st):
        if s.exc is None:
            exc = st.env.get('!handled')
            return [(st, Outcome('raise', exc=exc.py if exc else 'Exception'))]
        e = s.exc
        name = self.src(e.func) if isinstance(e, ast.Call) else self.src(e)
        return [(st, Outcome('raise', exc=name))]

    def s_Assert(self, s, st):
        c = self.truth(self.eval(s.test, st), st)
        a, b = st, st.copy()
        out = []
        a.assume(c)
        if self.feasible(a):
            out.append((a, NORMAL))
        b.assume(z3.Not(c))
        b.trace.append('assert-fails')
        if self.feasible(b):
            out.append((b, Outcome('raise', exc='AssertionError')))
        return out

    def s_Break(self, s, st):
        return [(st, Outcome('break'))]

    def s_Continue(self, s, st):
        return [(st, Outcome('continue'))]

    def s_FunctionDef(self, s, st):
        st.env[s.name] = V(PY, py=Closure(s, dict(st.env), s.name))
        return [(st, NORMAL)]

    def s_If(self, s, st):
        c = self.truth(self.eval(s.test, st), st)
        pend = self.with_raises(st, [])
        out = list(pend)
        a = st
        b = st.copy()
        a.assume(c)
        b.assume(z3.Not(c))
        tag = f'L{s.lineno - self.line0}'
        if self.feasible(a):
            a.trace.append(tag + 'T')
            out += self.exec_block(s.body, a)
        if self.feasible(b):
            b.trace.append(tag + 'F')
            out += self.exec_block(s.orelse, b)
        return out

    def s_Try(self, s, st):
        if s.finalbody:
            raise Unsupported('try/finally')
        res = self.exec_block(s.body, st)
        out = []
        for (cur, o) in res:
            if o.kind == 'raise':
                handled = False
                for h in s.handlers:
                    names = [self.src(h.type)] if h.type is not None and not isinstance(h.type, ast.Tuple) else \
                        ([self.src(e) for e in h.type.elts] if h.type is not None else ['BaseException'])
                    if any(exc_matches(o.exc, n, self.db.exc_bases) for n in names):
                        cur.env = dict(cur.env)
                        cur.env['!handled'] = V(PY, py=o.exc)
                        if h.name:
                            cur.env[h.name] = V(REF, fresh(REF, 'exc'))
                        out += self.exec_block(h.body, cur)
                        handled = True
                        break
                if not handled:
                    out.append((cur, o))
            elif o.kind == 'normal' and s.orelse:
                out += self.exec_block(s.orelse, cur)
            else:
                out.append((cur, o))
        return out

    # ------------------------------------------------------------------ loops
    def loop_contract(self, s):
        loops = self.contract.get('loops', {})
        sig = loop_sig(s)
        n = self.loop_ord.get(id(s), 0)
        for key in (f'{sig}#{n}', sig):
            if key in loops:
                self.used_loops.add(key)
                return sig, loops[key]
        return sig, None

    def assigned_in(self, stmts):
        names, mutated, fields = set(), set(), set()
        for node in ast.walk(ast.Module(body=list(stmts), type_ignores=[])):
            if isinstance(node, ast.Assign):
                for t in node.targets:
                    self._collect_target(t, names, mutated, fields)
            elif isinstance(node, (ast.AugAssign, ast.AnnAssign)):
                self._collect_target(node.target, names, mutated, fields)
                if isinstance(node, ast.AugAssign) and isinstance(node.target, ast.Name):
                    mutated.add(node.target.id)
            elif isinstance(node, ast.For):
                self._collect_target(node.target, names, mutated, fields)
            elif isinstance(node, ast.Delete):
                for t in node.targets:
                    self._collect_target(t, names, mutated, fields)
            elif isinstance(node, ast.Call) and isinstance(node.func, ast.Attribute):
                if node.func.attr in ('append', 'extend', 'add', 'update', 'discard', 'remove', 'pop', 'insert',
                                      'clear', 'difference_update', 'intersection_update', 'setdefault', 'sort'):
                    base = node.func.value
                    self._collect_base(base, mutated, fields)
            elif isinstance(node, (ast.Yield, ast.YieldFrom)):
                mutated.add('!Y')
            elif isinstance(node, ast.NamedExpr):
                names.add(node.target.id)
        return names, mutated, fields

    def _collect_target(self, t, names, mutated, fields):
        if isinstance(t, ast.Name):
            names.add(t.id)
        elif isinstance(t, (ast.Tuple, ast.List)):
            for e in t.elts:
                self._collect_target(e, names, mutated, fields)
        elif isinstance(t, ast.Subscript):
            self._collect_base(t.value, mutated, fields)
        elif isinstance(t, ast.Attribute):
            fields.add(t.attr)

    def _collect_base(self, base, mutated, fields):
        while isinstance(base, ast.Subscript):
            base = base.value
        if isinstance(base, ast.Name):
            mutated.add(base.id)
        elif isinstance(base, ast.Attribute) and isinstance(base.value, ast.Name):
            fields.add((base.value.id, base.attr))   # container held by a field of a named object
        elif isinstance(base, ast.Attribute):
            fields.add(base.attr)
        else:
            mutated.add('!unknown')

    def havoc_loop(self, st, body, spec, extra_names=()):
        names, mutated, fields = self.assigned_in(body)
        calls_mod = (spec or {}).get('modifies', ())
        if '!unknown' in mutated:
            raise Unsupported('loop mutates an unnamed container')
        # names that the body only ever updates with an augmented assignment (`xs += ...` on a list / set / array keeps
        # the object: every alias sees the change), never re-binds with a plain assignment
        plain, aug = set(), set()
        for node in ast.walk(ast.Module(body=list(body), type_ignores=[])):
            if isinstance(node, ast.AugAssign) and isinstance(node.target, ast.Name):
                aug.add(node.target.id)
            elif isinstance(node, (ast.Assign, ast.AnnAssign, ast.For, ast.NamedExpr)):
                tg = node.targets if isinstance(node, ast.Assign) else [node.target]
                for t in tg:
                    for sub in ast.walk(t):
                        if isinstance(sub, ast.Name) and isinstance(sub.ctx, ast.Store):
                            plain.add(sub.id)
        inplace_only = {n for n in aug - plain - set(extra_names)
                        if n in st.env and st.env[n].ty.kind in ('List', 'Set', 'Np1', 'Np2') and st.env[n].loc is not None}
        for n in sorted(names | set(extra_names)):
            if n in inplace_only:
                continue      # contents are havocked in place below (it is in `mutated`)
            if n in st.env:
                v = st.env[n]
                if v.ty is PY:
                    continue
                if v.ty.is_container:
                    # rebinding of a container variable inside a loop: new cell with unknown contents
                    if v.ty.args and v.ty.args[0].kind == 'Bottom':
                        raise Unsupported(f'loop assigns untyped list {n}: declare it in `locals`')
                    st.env[n] = self.new_cell(st, v.ty, fresh(v.ty, f'lh_{n}'))
                elif v.ty.kind == 'NoneT':
                    t = self.declared_local(n)
                    if t is None:
                        raise Unsupported(f'loop reassigns `{n}` (None before the loop): declare it in `locals`')
                    st.env[n] = V(t, fresh(t, f'lh_{n}'))
                elif v.ty.kind == 'Tuple' and v.t is None:
                    raise Unsupported(f'loop reassigns python-level tuple {n}')
                else:
                    st.env[n] = V(v.ty, fresh(v.ty, f'lh_{n}'))
        for n in sorted(mutated):
            if n == '!Y':
                y = self.Yv(st)
                self.store(y, fresh(y.ty, 'lh_Y'), st)
                continue
            if n in st.env and st.env[n].ty.kind == 'Optional' and st.env[n].ty.args[0].is_container:
                v = st.env[n]
                if isinstance(v.loc, FieldLoc):
                    # alias of an Optional[container] field: the field entry may change in the loop
                    arr = self.get_field_array(st, v.loc.fname, v.ty)
                    st.fields[v.loc.fname] = z3.Store(arr, v.loc.ref, fresh(v.ty, f'lh_{n}'))
                    continue
                raise Unsupported(f'loop mutates optional container {n} without a known location')
            if n in st.env and st.env[n].ty.is_container:
                v = st.env[n]
                if v.loc is None:
                    raise Unsupported(f'loop mutates container value {n}')
                if v.ty.args and v.ty.args[0].kind == 'Bottom':
                    raise Unsupported(f'loop appends to untyped list {n}: declare it in `locals`')
                self.store(v, fresh(v.ty, f'lh_{n}'), st)
        precise = [f for f in fields if isinstance(f, tuple)]
        fields = {f for f in fields if not isinstance(f, tuple)}
        for oname, f in sorted(precise):
            obj = st.env.get(oname)
            if obj is not None and obj.ty.kind == 'Ref' and oname not in names:
                key, decl = self.field_decl(obj.ty.cls, f)
                if decl is not None and isinstance(decl, str):
                    # only this object's container may change
                    fty = parse_type(decl)
                    arr = self.get_field_array(st, key, fty)
                    st.fields[key] = z3.Store(arr, obj.t, fresh(fty, f'lh_{oname}_{f}'))
                    continue
            fields.add(f)
        for f in sorted(fields):
            # every declared field with that name, on every object
            hit = False
            for cls, info in self.db.classes.items():
                if f in info and isinstance(info[f], str):
                    key = f'{cls}.{f}'
                    fty = parse_type(info[f])
                    st.fields[key] = z3.Const(fresh_name(f'lhfld_{key}'), z3.ArraySort(T.RefSort, sort_of(fty)))
                    st.field_ty[key] = fty
                    hit = True
            if not hit:
                raise Unsupported(f'loop writes undeclared field .{f}')
        for m in calls_mod:
            self.havoc_target(m, dict(st.env), st)

    def check_invs(self, st, spec, kind, sig, env_extra, pre):
        if not spec:
            return
        env = dict(st.env)
        env.update(env_extra)
        if st.Y is not None:
            env['Y'] = st.Y
        for lab, inv in self.norm_clauses(spec.get('invariant', ())):
            g = self.eval_spec(inv, env, st, pre=pre)
            self.emit(st, kind, f'{sig}:{lab}', g, tag='carrier')

    def assume_invs(self, st, spec, env_extra, pre):
        if not spec:
            return
        env = dict(st.env)
        env.update(env_extra)
        if st.Y is not None:
            env['Y'] = st.Y
        for lab, inv in self.norm_clauses(spec.get('invariant', ())):
            st.assume(self.eval_spec(inv, env, st, pre=pre))

    def only_writes_current_position(self, s, name):
        """The loop is `for i, x in enumerate(name)` and every mutation of `name` in its body is `name[i] = ...`
        with `i` not reassigned: iteration then sees exactly the elements of the sequence at loop entry."""
        if not (isinstance(s.iter, ast.Call) and self.src(s.iter.func) == 'enumerate' and len(s.iter.args) == 1
                and isinstance(s.iter.args[0], ast.Name) and s.iter.args[0].id == name
                and isinstance(s.target, ast.Tuple) and isinstance(s.target.elts[0], ast.Name)):
            return False
        idx = s.target.elts[0].id
        for node in ast.walk(ast.Module(body=list(s.body), type_ignores=[])):
            if isinstance(node, (ast.Assign, ast.AugAssign)):
                tgts = node.targets if isinstance(node, ast.Assign) else [node.target]
                for t in tgts:
                    for n in self.target_names(t):
                        if n == idx or n == name:
                            return False
                    if isinstance(t, ast.Subscript) and isinstance(t.value, ast.Name) and t.value.id == name:
                        if not (isinstance(t.slice, ast.Name) and t.slice.id == idx):
                            return False
            elif isinstance(node, ast.Call) and isinstance(node.func, ast.Attribute) and isinstance(node.func.value, ast.Name) \
                    and node.func.value.id == name:
                return False
        return True

    def s_For(self, s, st):
        sig, spec = self.loop_contract(s)
        itv = self.eval(s.iter, st)
        m = self.iter_model(itv, st)
        pre = self.func_pre
        kname = (spec or {}).get('index', '_k')
        if m.setlike is not None:
            return self.for_set(s, st, m, sig, spec)
        names, mutated, fields = self.assigned_in(s.body)
        # iteration source must not be mutated by the body
        for loc in m.src_locs:
            for n in mutated:
                if n in st.env and st.env[n].loc is not None and self.same_loc(st.env[n].loc, loc, st):
                    if self.only_writes_current_position(s, n):
                        continue   # `for i, x in enumerate(L): L[i] = ...` reads every element before it is written
                    raise Unsupported('loop body mutates the sequence it iterates over')
        n = m.n
        # `seq`: the name under which the invariants see the sequence that is iterated (e.g. the list a call returned)
        seqenv = {}
        if (spec or {}).get('seq'):
            if itv.ty.kind in ('List', 'Np1'):
                seqenv[spec['seq']] = itv
            else:
                raise Unsupported('loop contract `seq` on an iterable that is not a list value')
        # inv-init with k = 0
        self.check_invs(st, spec, 'inv-init', sig, dict(seqenv, **{kname: V(INT, I0)}), pre)
        self.havoc_loop(st, s.body, spec, extra_names=self.target_names(s.target))
        k = z3.Int(fresh_name('k'))
        st.assume(z3.And(0 <= k, k <= n))
        self.assume_invs(st, spec, dict(seqenv, **{kname: V(INT, k)}), pre)
        out = []
        # (A) one more iteration
        a = st.copy()
        a.assume(k < n)
        a.trace.append(f'L{s.lineno - self.line0}iter')
        if self.feasible(a):
            self.bind_target(s.target, m.item(k, a), a)
            if kname != '_k' or True:
                a.env['!k:' + sig] = V(INT, k)
            if spec:
                # ghost names of this loop (index, iterated sequence) are visible to the contracts of nested loops
                for gn, gv in dict(seqenv, **({kname: V(INT, k)} if kname != '_k' else {})).items():
                    if gn in names or gn in a.env:
                        raise Unsupported(f'loop ghost name {gn} clashes with a program variable')
                    a.env[gn] = gv
            for (cur, o) in self.exec_block(s.body, a):
                if o.kind in ('normal', 'continue'):
                    self.check_invs(cur, spec, 'inv-step', sig, dict(seqenv, **{kname: V(INT, k + 1)}), pre)
                elif o.kind == 'break':
                    cur.trace.append('break')
                    out.append((cur, NORMAL))
                else:
                    out.append((cur, o))
        # (B) loop finished
        b = st
        b.assume(k == n)
        b.trace.append(f'L{s.lineno - self.line0}exit')
        if self.feasible(b):
            # for/else: the else block runs when the loop ends without `break`
            out += self.exec_block(s.orelse, b) if s.orelse else [(b, NORMAL)]
        return out

    def for_set(self, s, st, m, sig, spec):
        """Order-agnostic iteration over a set / dict: ghost set P of processed elements."""
        sv = m.setlike
        mode = 'set'
        if isinstance(sv, tuple):
            mode, sv = sv
        if mode == 'set':
            et = sv.ty.args[0]
            dom0 = self.load(sv, st)
        else:
            et = sv.ty.args[0]
            d0 = self.load(sv, st)
            dom0 = T.dict_dom(sv.ty, d0)
        pre = self.func_pre
        pname = (spec or {}).get('processed', '_P')
        pty = SetT(et)
        empty = z3.K(sort_of(et), z3.BoolVal(False))
        self.check_invs(st, spec, 'inv-init', sig, {pname: V(pty, empty)}, pre)
        self.havoc_loop(st, s.body, spec, extra_names=self.target_names(s.target))
        P = z3.Const(fresh_name('P'), sort_of(pty))
        e = z3.Const(fresh_name('e'), sort_of(et))
        st.assume(z3.ForAll([e], z3.Implies(T.Sel(P, e), T.Sel(dom0, e))))
        self.assume_invs(st, spec, {pname: V(pty, P)}, pre)
        out = []
        a = st.copy()
        x = z3.Const(fresh_name('x'), sort_of(et))
        a.assume(z3.And(T.Sel(dom0, x), z3.Not(T.Sel(P, x))))
        a.trace.append(f'L{s.lineno - self.line0}iter')
        if self.feasible(a):
            xv = self.unbox(et, x, a)
            if mode in ('set', 'dictkeys'):
                item = xv
            elif mode == 'dictitems':
                item = self.mk_tuple([xv, self.unbox(sv.ty.args[1], T.Sel(T.dict_val(sv.ty, d0), x), a)], a)
            else:
                item = self.unbox(sv.ty.args[1], T.Sel(T.dict_val(sv.ty, d0), x), a)
            self.bind_target(s.target, item, a)
            if spec and pname != '_P':
                # the set of processed elements is visible to the contracts of nested loops
                if pname in a.env:
                    raise Unsupported(f'loop ghost name {pname} clashes with a program variable')
                a.env[pname] = V(pty, P)
            for (cur, o) in self.exec_block(s.body, a):
                if o.kind in ('normal', 'continue'):
                    self.check_invs(cur, spec, 'inv-step', sig, {pname: V(pty, z3.Store(P, x, z3.BoolVal(True)))}, pre)
                elif o.kind == 'break':
                    out.append((cur, NORMAL))
                else:
                    out.append((cur, o))
        b = st
        b.assume(z3.ForAll([e], T.Sel(P, e) == T.Sel(dom0, e)))
        b.trace.append(f'L{s.lineno - self.line0}exit')
        if self.feasible(b):
            out += self.exec_block(s.orelse, b) if s.orelse else [(b, NORMAL)]
        return out

    def s_While(self, s, st):
        if s.orelse:
            raise Unsupported('while/else')
        sig, spec = self.loop_contract(s)
        pre = self.func_pre
        self.check_invs(st, spec, 'inv-init', sig, {}, pre)
        self.havoc_loop(st, s.body, spec)
        self.assume_invs(st, spec, {}, pre)
        c = self.truth(self.eval(s.test, st), st)
        out = []
        a = st.copy()
        a.assume(c)
        a.trace.append(f'L{s.lineno - self.line0}iter')
        if self.feasible(a):
            for (cur, o) in self.exec_block(s.body, a):
                if o.kind in ('normal', 'continue'):
                    self.check_invs(cur, spec, 'inv-step', sig, {}, pre)
                elif o.kind == 'break':
                    out.append((cur, NORMAL))
                else:
                    out.append((cur, o))
        st.assume(z3.Not(c))
        st.trace.append(f'L{s.lineno - self.line0}exit')
        if self.feasible(st):
            out.append((st, NORMAL))
        return out
