"""pyvc: run all functions under contract for one property (process pool), replay counter-models, summarise."""
import json
import os
import sys
import time
import traceback
from concurrent.futures import ProcessPoolExecutor

CONTRACT_MODULES = ['contracts.c_nodes']


def contract_modules():
    d = os.path.join(os.path.dirname(os.path.dirname(os.path.abspath(__file__))), 'contracts')
    return sorted('contracts.' + f[:-3] for f in os.listdir(d) if f.startswith('c_') and f.endswith('.py'))


def load_db(root='/repo'):
    from .db import ContractDB
    db = ContractDB(root)
    for m in contract_modules():
        db.load_module(m)
    return db


def props_of(contract):
    p = contract.get('properties') or contract.get('property') or ()
    return [p] if isinstance(p, str) else list(p)


def keys_for(db, prop):
    return sorted(k for k, c in db.contracts.items() if prop in props_of(c))


def _worker(args):
    key, root, timeout_ms, domain_n, use_cvc5 = args
    out = dict(key=key, results=[], error=None, npaths=0, assumed=[], wall_s=0.0, source_hash=None)
    try:
        sys.setrecursionlimit(10000)
        from .verify import verify_function
        from .replay import model_inputs, run_exec_contract
        db = load_db(root)
        r = verify_function(db, key, timeout_ms=timeout_ms, use_cvc5=use_cvc5)
        out.update(error=r['error'], npaths=r['npaths'], assumed=r['assumed'], wall_s=r['wall_s'],
                   source_hash=r.get('source_hash'))
        c = db.contracts[key]
        for res in r['results']:
            j = res.to_json()
            if res.status == 'failed':
                j['replay'] = None
                j['model_text'] = str(res.model)[:4000] if res.model is not None else None
                if res.model is not None and key in db.replays:
                    try:
                        inputs = model_inputs(r['engine'], res.model)
                        j['inputs'] = json.loads(json.dumps(inputs, default=str))
                        confirmed = []
                        for env, call, universe, desc in db.replays[key](inputs, label=res.name):
                            viol = run_exec_contract(c, env, call, universe)
                            if viol:
                                confirmed.append(dict(call=desc, violations=[list(v) for v in viol]))
                                break
                        j['replay'] = confirmed
                    except Exception as e:
                        j['replay_error'] = f'{type(e).__name__}: {e}\n{traceback.format_exc()[-1500:]}'
            out['results'].append(j)
        # bounded domain of the function: the executable form of the same contract on the real function.
        # (i) CPython cross-check of engine + contract on every run, (ii) search for a real failing input when an
        # obligation failed or stayed undecided. Bounded, never counted as proved.
        if key in db.domains:
          try:
            import itertools
            n = nviol = 0
            first = []
            t1 = __import__('time').time()
            for env, call, universe, desc in itertools.islice(db.domains[key](domain_n), domain_n):
                viol = run_exec_contract(c, env, call, universe)
                if viol is None:
                    continue
                n += 1
                if viol:
                    nviol += 1
                    if len(first) < 3:
                        first.append(dict(call=desc, violations=[list(v) for v in viol]))
            from .replay import EXEC_STATS
            out['domain'] = dict(evaluated=n, violating=nviol, first=first,
                                 wall_s=round(__import__('time').time() - t1, 2),
                                 clause_evaluations=EXEC_STATS['clauses'],
                                 clauses_not_executable=sorted(EXEC_STATS['not_executable']))
          except LookupError as e:
            if type(e).__name__ != 'SegmentNotFound':
                out['domain_error'] = f'{type(e).__name__}: {e}\n{traceback.format_exc()[-1500:]}'
            else:
                # the bounded domain executes a segment of the function; its boundary statement is gone from the
                # (changed) source: no executable contract for this function in this run (reported, not a failure)
                out['domain_note'] = str(e)
          except Exception as e:
            out['domain_error'] = f'{type(e).__name__}: {e}\n{traceback.format_exc()[-1500:]}'
    except Exception as e:
        out['error'] = f'checker crash: {type(e).__name__}: {e}\n{traceback.format_exc()[-3000:]}'
        out['crash'] = True
    return out


def run_property(prop, root='/repo', timeout_ms=10000, jobs=None, use_cvc5=True, keys=None, domain_n=300):
    db = load_db(root)
    keys = keys if keys is not None else keys_for(db, prop)
    jobs = jobs or min(16, max(1, len(keys)))
    t0 = time.time()
    outs = []
    if keys:
        # one fresh process per function (`max_tasks_per_child=1`, started from a fork server that has not built any
        # z3 term): the solver's effort on a query depends on what its process has solved before, so a re-used worker
        # would make verdicts near the budget depend on how the pool happened to distribute the work
        import multiprocessing
        with ProcessPoolExecutor(max_workers=jobs, max_tasks_per_child=1,
                                 mp_context=multiprocessing.get_context('forkserver')) as ex:
            outs = list(ex.map(_worker, [(k, root, timeout_ms, domain_n, use_cvc5) for k in keys]))
    return dict(outs=outs, wall_s=time.time() - t0, db=db)
