"""pyvc core data structures: symbolic values, locations, state, obligations."""
import itertools
import z3
from . import ty as T
from .ty import Ty, INT, BOOL, REAL, STR, REF, NONE, sort_of


class Unsupported(Exception):
    """The function (or clause) uses something outside the modelled subset: it is out of reach, never 'proved'."""


class V:
    """Symbolic value. `t` is a z3 term of sort_of(ty) (immutable value); containers bound to a location carry
    `loc` instead (see State.load/store). `py` carries python-level payloads (functions, classes, modules)."""
    __slots__ = ('ty', 't', 'loc', 'py')

    def __init__(self, ty, t=None, loc=None, py=None):
        self.ty = ty
        self.t = t
        self.loc = loc
        self.py = py

    def __repr__(self):
        return f'V({self.ty!r}, {self.t if self.t is not None else self.loc or self.py})'


PY = Ty('Py')  # python-level object (function, class, module, iterator model)


class CellLoc:
    __slots__ = ('n',)

    def __init__(self, n):
        self.n = n

    def __repr__(self):
        return f'cell{self.n}'


class FieldLoc:
    """Container stored in field `fname` of object `ref` (a z3 Ref term)."""
    __slots__ = ('ref', 'fname')

    def __init__(self, ref, fname):
        self.ref = ref
        self.fname = fname

    def __repr__(self):
        return f'{self.ref}.{self.fname}'


class OptFieldLoc:
    """The container inside an Optional[container] field of object `ref` (the field is known to be not None)."""
    __slots__ = ('ref', 'fname', 'oty')

    def __init__(self, ref, fname, oty):
        self.ref = ref
        self.fname = fname
        self.oty = oty

    def __repr__(self):
        return f'{self.ref}.{self.fname}!'


_fresh = itertools.count()


def fresh_name(base):
    return f'{base}!{next(_fresh)}'


def fresh(ty, base='v'):
    return z3.Const(fresh_name(base), sort_of(ty))


class State:
    def __init__(self):
        self.env = {}
        self.heap = {}      # cell id -> z3 term | ('fwd', FieldLoc) | ('escaped',)
        self.heap_ty = {}
        self.fields = {}    # field key -> z3 Array(Ref -> sort)
        self.field_ty = {}
        self.pc = []        # path condition (list of z3 Bool)
        self.guards = []    # short-circuit guards while evaluating an expression
        self.Y = None       # ghost yield sequence (CellLoc V)
        self.trace = []     # branch decisions (for path labels)
        self.alloc = []     # cells allocated in this activation (for fresh())

    def copy(self):
        s = State()
        s.env = dict(self.env)
        s.heap = dict(self.heap)
        s.heap_ty = self.heap_ty  # shared (monotone)
        s.fields = dict(self.fields)
        s.field_ty = self.field_ty
        s.pc = list(self.pc)
        s.guards = list(self.guards)
        s.Y = self.Y
        s.trace = list(self.trace)
        s.alloc = list(self.alloc)
        return s

    def assume(self, b):
        if z3.is_true(b):
            return
        self.pc.append(b)

    def context(self):
        return self.pc + self.guards


class Obligation:
    __slots__ = ('func', 'kind', 'label', 'tag', 'assumptions', 'goal', 'path', 'expect_sat', 'line')

    def __init__(self, func, kind, label, tag, assumptions, goal, path='', expect_sat=False, line=None):
        self.func = func
        self.kind = kind
        self.label = label
        self.tag = tag
        self.assumptions = list(assumptions)
        self.goal = goal
        self.path = path
        self.expect_sat = expect_sat
        self.line = line

    @property
    def name(self):
        return f'{self.func}::{self.kind}[{self.label}]'
