"""pyvc: calls (builtins, container methods, callee contracts), comprehensions."""
import ast
import z3
from . import ty as T
from .ty import Ty, INT, BOOL, REAL, STR, REF, NONE, sort_of, parse_type, Opt, ListT, SetT, DictT, TupleT
from .core import V, PY, CellLoc, FieldLoc, State, Obligation, Unsupported, fresh, fresh_name
from .engine import Engine, IterModel, Closure, I0, I1, zint, And, Implies


class CallsMixin:
    # ------------------------------------------------------------------ iteration models
    def iter_model(self, v, st):
        """IterModel for a value being iterated."""
        if v.ty is PY and isinstance(v.py, IterModel):
            return v.py
        k = v.ty.kind
        if k == 'Optional':
            v = self.coerce(v, v.ty.args[0], st, 'iterated value')
            k = v.ty.kind
        if k in ('List', 'Np1'):
            if v.ty.args[0].kind == 'Bottom':
                return IterModel(I0, lambda i, s: (_ for _ in ()).throw(Unsupported('item of empty list')))
            term = self.load(v, st)  # snapshot: iteration over the contents at loop entry
            ln, arr = T.seq_len(v.ty, term), T.seq_arr(v.ty, term)
            et = v.ty.args[0]
            locs = (v.loc,) if v.loc is not None else ()
            return IterModel(ln, lambda i, s: self.unbox(et, T.Sel(arr, i), s), src_locs=locs)
        if k == 'Tuple':
            n = len(v.ty.args)
            items = [self.tuple_get(v, i, st) for i in range(n)]
            if n == 0:
                return IterModel(I0, lambda i, s: None)
            ts = set(x.ty for x in items)
            if len(ts) != 1:
                raise Unsupported('iteration over heterogeneous tuple')
            et = items[0].ty

            def item(i, s):
                r = self.as_term(items[-1], s)
                for j in range(n - 2, -1, -1):
                    r = z3.If(i == j, self.as_term(items[j], s), r)
                return V(et, r)
            return IterModel(zint(n), item)
        if k == 'Set':
            return IterModel(None, None, setlike=v)
        if k == 'Dict':
            # iteration over keys
            self.refuse_total_dict(v, 'iteration')
            return IterModel(None, None, setlike=('dictkeys', v))
        if k == 'Np2':
            term = self.load(v, st)
            n0, n1, arr = T.mat_n0(v.ty, term), T.mat_n1(v.ty, term), T.mat_arr(v.ty, term)
            et = v.ty.args[0]
            return IterModel(n0, lambda i, s: V(Ty('Np1', (et,)), T.seq_mk(Ty('Np1', (et,)), n1, T.Sel(arr, i))))
        raise Unsupported(f'iteration over {v.ty!r}')

    def range_model(self, args, st):
        a = [self.coerce(x, INT, st).t for x in args]
        if len(a) == 1:
            start, stop, step = I0, a[0], I1
        elif len(a) == 2:
            start, stop, step = a[0], a[1], I1
        else:
            start, stop, step = a
        cs = z3.simplify(step)
        if z3.is_int_value(cs) and cs.as_long() == 1:
            n = z3.If(stop > start, stop - start, I0)
        elif z3.is_int_value(cs) and cs.as_long() == -1:
            n = z3.If(start > stop, start - stop, I0)
        else:
            self.total(st, step != 0, 'range step != 0')
            # positive step only (negative symbolic steps unsupported): n = ceil((stop-start)/step)
            if self.prune and not self.valid(st, step > 0):
                raise Unsupported('range with possibly non-positive symbolic step')
            n = z3.If(stop > start, (stop - start + step - 1) / step, I0)
        return IterModel(n, lambda i, s: V(INT, start + i * step))

    def to_list(self, v, st, kind='List'):
        """list(x) / tuple(x) / np.array(x): a fresh list with the items of the iteration model."""
        if v.ty.kind in ('List', 'Np1'):
            if v.ty.args[0].kind == 'Bottom':
                return v
            ln, arr = self.seq_parts(v, st)
            return self.mk_list(st, v.ty.args[0], ln, arr, kind=kind)
        m = self.iter_model(v, st)
        if m.setlike is not None:
            if v.ty.kind != 'Set':
                raise Unsupported('list(set-like): order is unspecified')
            # an arbitrary enumeration of the set: fresh array `a`, fresh position function `pos`, length = card(S);
            # a[0..n) are members, every member sits at pos(x), pos(a[i]) == i (so the items are distinct)
            ety = v.ty.args[0]
            sterm = self.load(v, st)
            n = self.call_builtin_vals('len', [v], st).t
            a = z3.Const(fresh_name('enum'), z3.ArraySort(z3.IntSort(), sort_of(ety)))
            pos = z3.Function(fresh_name('enum_pos'), sort_of(ety), z3.IntSort())
            i = z3.Int(fresh_name('i'))
            x = z3.Const(fresh_name('x'), sort_of(ety))
            st.pc.append(z3.ForAll([i], z3.Implies(z3.And(i >= 0, i < n), z3.And(T.Sel(sterm, z3.Select(a, i)), pos(z3.Select(a, i)) == i))))
            st.pc.append(z3.ForAll([x], z3.Implies(T.Sel(sterm, x), z3.And(pos(x) >= 0, pos(x) < n, z3.Select(a, pos(x)) == x))))
            return self.mk_list(st, ety, n, a, kind=kind)
        i = z3.Int(fresh_name('i'))
        it = m.item(i, st)
        if it.ty.kind == 'Tuple' and it.t is None:
            raise Unsupported('list of python-level tuples')
        return self.mk_list(st, it.ty, m.n, z3.Lambda([i], self.as_term(it, st)), kind=kind)

    # ------------------------------------------------------------------ comprehensions
    def e_ListComp(self, node, st):
        return self.comprehension(node, st)

    def e_GeneratorExp(self, node, st):
        return self.comprehension(node, st)

    def comprehension(self, node, st, kind='List'):
        if len(node.generators) != 1:
            raise Unsupported('nested comprehension')
        g = node.generators[0]
        srcv = self.eval(g.iter, st)
        m = self.iter_model(srcv, st)
        if m.setlike is not None:
            raise Unsupported('comprehension over set')
        # one canonical index symbol for all (non-nested) comprehensions of a function: equal filter conditions then
        # are syntactically equal terms and can share their position maps
        i = z3.Int('comp!i')
        inner = st  # bindings are local to the comprehension
        saved = dict(st.env)
        st.guards.append(z3.And(0 <= i, i < m.n))
        self.quant_depth = getattr(self, 'quant_depth', 0) + 1
        try:
            self.bind_target(g.target, m.item(i, st), st)
            conds = [self.truth(self.eval(c, st), st) for c in g.ifs]
            for c in conds:
                st.guards.append(c)
            try:
                elt = self.eval(node.elt, st)
                elt_t = self.as_term(elt, st) if not (elt.ty.kind == 'Tuple' and elt.t is None) else None
            finally:
                for _ in conds:
                    st.guards.pop()
        finally:
            st.guards.pop()
            st.env = saved
            self.quant_depth -= 1
        if elt_t is None:
            raise Unsupported('comprehension of python-level tuples')
        if not conds:
            if srcv.ty.kind in ('List', 'Np1') and srcv.ty.args[0] == elt.ty and isinstance(g.target, ast.Name) and \
                    isinstance(node.elt, ast.Name) and node.elt.id == g.target.id:
                # [x for x in L]: a copy of L (same length, same items)
                ln0, arr0 = self.seq_parts(srcv, st)
                return self.mk_list(st, elt.ty, ln0, arr0, kind=kind)
            if self.contract.get('comprehension_as_array') and not st.guards:
                # opt-in per contract: the mapped list is a fresh array constant with a defining axiom instead of a
                # lambda term (a lambda under the quantified facts of the path makes z3 answer `unknown` at once --
                # incomplete array theory -- and is not exported to cvc5)
                arr = z3.Const(fresh_name('mapped'), z3.ArraySort(z3.IntSort(), sort_of(elt.ty)))
                st.assume(z3.ForAll([i], z3.Select(arr, i) == elt_t))
                return self.mk_list(st, elt.ty, m.n, arr, kind=kind)
            return self.mk_list(st, elt.ty, m.n, z3.Lambda([i], elt_t), kind=kind)
        # filtered comprehension: characterised by an order-preserving bijection between kept source indices and
        # result indices (consequence of Python's semantics)
        c = And(*conds)
        cf = z3.Lambda([i], c)
        ef = z3.Lambda([i], elt_t)
        cache = getattr(self, '_filter_cache', None)
        if cache is None:
            cache = self._filter_cache = {}
        ck = z3.simplify(c).sexpr()
        if ck in cache and any(z3.eq(cache[ck][4][0], p) for p in st.pc) and self.valid(st, cache[ck][5] == m.n, 1000):
            # the same filter (same condition on the same index range) was already characterised on this path:
            # the kept positions are the same, only the element expression differs
            src, dst, rl = cache[ck][:3]
            r = z3.Int(fresh_name('r'))
            return self.mk_list(st, elt.ty, rl, z3.Lambda([r], T.Sel(ef, src(r))), kind=kind)
        src = z3.Function(fresh_name('flt_src'), z3.IntSort(), z3.IntSort())   # result idx -> source idx
        dst = z3.Function(fresh_name('flt_dst'), z3.IntSort(), z3.IntSort())   # source idx -> result idx
        rl = z3.Int(fresh_name('flt_len'))
        a, b = z3.Int(fresh_name('a')), z3.Int(fresh_name('b'))
        ax = [rl >= 0, rl <= m.n,
              z3.ForAll([a], z3.Implies(z3.And(0 <= a, a < rl),
                                        z3.And(0 <= src(a), src(a) < m.n, T.Sel(cf, src(a)), dst(src(a)) == a))),
              z3.ForAll([a], z3.Implies(z3.And(0 <= a, a < m.n, T.Sel(cf, a)),
                                        z3.And(0 <= dst(a), dst(a) < rl, src(dst(a)) == a)),
                        patterns=self._kept_patterns(dst(a), T.Sel(ef, a), a)),
              z3.ForAll([a, b], z3.Implies(z3.And(0 <= a, a < b, b < rl), src(a) < src(b)))]
        for x in ax:
            st.assume(x) if not st.guards else (_ for _ in ()).throw(Unsupported('filtered comprehension under guard'))
        r = z3.Int(fresh_name('r'))
        if self.contract.get('comprehension_as_array'):
            # opt-in (see the unfiltered case above): the kept items as a fresh array constant with a defining axiom
            farr = z3.Const(fresh_name('kept'), z3.ArraySort(z3.IntSort(), sort_of(elt.ty)))
            st.assume(z3.ForAll([r], z3.Select(farr, r) == T.Sel(ef, src(r))))
            res = self.mk_list(st, elt.ty, rl, farr, kind=kind)
        else:
            res = self.mk_list(st, elt.ty, rl, z3.Lambda([r], T.Sel(ef, src(r))), kind=kind)
        cache[ck] = (src, dst, rl, None, ax, m.n)
        return res

    @staticmethod
    def _kept_patterns(dst_a, elt_a, a):
        """Triggers for 'a kept source position has a result position': the position term itself, and the element
        at the source position (so that a goal that only mentions the source element finds its result index)."""
        pats = [dst_a]
        try:
            if z3.is_app(elt_a) and not z3.is_const(elt_a) and any(z3.eq(v, a) for v in z3.z3util.get_vars(elt_a)) \
                    and elt_a.decl().kind() in (z3.Z3_OP_SELECT, z3.Z3_OP_UNINTERPRETED):
                pats.append(elt_a)
        except Exception:  # noqa
            pass
        return pats

    def quant_over(self, node, st, is_all):
        """all(...) / any(...) over a generator expression."""
        if len(node.generators) != 1:
            raise Unsupported('nested generator')
        g = node.generators[0]
        m = self.iter_model(self.eval(g.iter, st), st)
        saved = dict(st.env)
        if m.setlike is not None:
            sv = m.setlike
            if isinstance(sv, tuple):
                raise Unsupported('all/any over dict')
            x = z3.Const(fresh_name('e'), sort_of(sv.ty.args[0]))
            dom = T.Sel(self.load(sv, st), x)
            item = self.unbox(sv.ty.args[0], x, st)
            bv = [x]
        else:
            i = z3.Int(fresh_name('qi'))
            dom = z3.And(0 <= i, i < m.n)
            item = m.item(i, st)
            bv = [i]
        st.guards.append(dom)
        self.quant_depth = getattr(self, 'quant_depth', 0) + 1
        try:
            self.bind_target(g.target, item, st)
            conds = [self.truth(self.eval(c, st), st) for c in g.ifs]
            for c in conds:
                st.guards.append(c)
            try:
                body = self.truth(self.eval(node.elt, st), st)
            finally:
                for _ in conds:
                    st.guards.pop()
        finally:
            st.guards.pop()
            st.env = saved
            self.quant_depth -= 1
        d = And(dom, *conds)
        return V(BOOL, z3.ForAll(bv, z3.Implies(d, body)) if is_all else z3.Exists(bv, z3.And(d, body)))

    def bind_target(self, target, val, st):
        if isinstance(target, ast.Name):
            st.env[target.id] = val
            return
        if isinstance(target, (ast.Tuple, ast.List)):
            if val.ty.kind == 'Optional':
                val = self.coerce(val, val.ty.args[0], st, 'unpacked value')
            if val.ty.kind == 'Tuple':
                if len(val.ty.args) != len(target.elts):
                    self.total(st, z3.BoolVal(False), f'unpack arity {len(target.elts)}')
                    raise Unsupported('unpack arity mismatch')
                for i, e in enumerate(target.elts):
                    self.bind_target(e, self.tuple_get(val, i, st), st)
                return
            if val.ty.kind in ('List', 'Np1'):
                ln, arr = self.seq_parts(val, st)
                self.total(st, ln == len(target.elts), f'unpack arity {len(target.elts)}')
                for i, e in enumerate(target.elts):
                    self.bind_target(e, self.unbox(val.ty.args[0], T.Sel(arr, zint(i)), st), st)
                return
            raise Unsupported(f'unpack of {val.ty!r}')
        raise Unsupported(f'binding target {type(target).__name__}')

    # ------------------------------------------------------------------ calls
    def e_Call(self, node, st):
        if self.in_spec:
            r = self.spec_call(node, st)
            if r is not None:
                return r
        fsrc = self.src(node.func)
        # explicit call entry in the contract (by source text of the callee expression)
        calls = self.contract.get('calls', {})
        if fsrc in calls:
            return self.call_spec(calls[fsrc], node, st, fsrc)
        f = self.eval(node.func, st)
        if any(isinstance(a, ast.Starred) for a in node.args) or any(k.arg is None for k in node.keywords):
            raise Unsupported('star-args')
        if f.ty is PY and f.py and f.py[0] == 'builtin':
            return self.call_builtin(f.py[1], node, st)
        if f.ty is PY and f.py and f.py[0] == 'lib':
            return self.call_lib(f.py[1], node, st)
        if f.ty is PY and f.py and f.py[0] == 'method':
            obj, name = f.py[1], f.py[2]
            if obj.ty.kind == 'Ref':
                args = [self.eval(a, st) for a in node.args]
                kwargs = {k.arg: self.eval(k.value, st) for k in node.keywords}
                return self.call_contract_for_method(obj, name, args, kwargs, st, node)
            return self.call_container_method(obj, name, node, st)
        if f.ty is PY and isinstance(f.py, Closure):
            return self.call_closure(f.py, node, st)
        if f.ty is PY and f.py and f.py[0] == 'enumcls':
            v = self.eval(node.args[0], st)
            return V(Ty('Enum', (), f.py[1]), self.coerce(v, INT, st).t)
        raise Unsupported(f'call to {fsrc} (no contract, no model) at line {node.lineno}')

    def call_closure(self, clo, node, st):
        fn = clo.node
        if isinstance(fn, ast.Lambda):
            args = [self.eval(a, st) for a in node.args]
            saved = dict(st.env)
            st.env.update(clo.env)
            for p, a in zip(fn.args.args, args):
                st.env[p.arg] = a
            try:
                return self.eval(fn.body, st)
            finally:
                st.env = saved
        raise Unsupported('call of nested function (give it its own contract)')

    def call_builtin(self, name, node, st):
        args = node.args
        if name in ('all', 'any') and len(args) == 1 and isinstance(args[0], (ast.GeneratorExp, ast.ListComp)):
            return self.quant_over(args[0], st, name == 'all')
        if name in ('list', 'tuple', 'set', 'frozenset', 'sum') and len(args) == 1 and \
                isinstance(args[0], ast.GeneratorExp):
            lst = self.comprehension(args[0], st)
            if name in ('list', 'tuple'):
                return lst
            return self.call_builtin_vals(name, [lst], st, node)
        vals = [self.eval(a, st) for a in args]
        return self.call_builtin_vals(name, vals, st, node)

    def call_builtin_vals(self, name, vals, st, node=None):
        if name == 'len':
            v = vals[0]
            if v.ty.kind == 'Optional':
                v = self.coerce(v, v.ty.args[0], st, 'argument of len')
            k = v.ty.kind
            if k in ('List', 'Np1'):
                if v.ty.args[0].kind == 'Bottom':
                    return V(INT, I0)
                return V(INT, self.seq_parts(v, st)[0])
            if k == 'Tuple':
                return V(INT, zint(len(v.ty.args)))
            if k == 'Np2':
                return V(INT, T.mat_n0(v.ty, self.load(v, st)))
            if k == 'Set':
                sterm = self.load(v, st)
                c = self.db.card(sterm, v.ty)
                x = z3.Const(fresh_name('ce'), sort_of(v.ty.args[0]))
                # the two facts about cardinality that code relies on: non-negative, zero iff empty
                st.pc.append(c >= 0)
                st.pc.append((c == 0) == z3.ForAll([x], z3.Not(T.Sel(sterm, x))))
                return V(INT, c)
            if k == 'Dict':
                self.refuse_total_dict(v, 'len')
                return V(INT, self.db.card(T.dict_dom(v.ty, self.load(v, st)), SetT(v.ty.args[0])))
            raise Unsupported(f'len of {v.ty!r}')
        if name == 'range':
            return V(PY, py=self.range_model(vals, st))
        if name == 'enumerate':
            m = self.iter_model(vals[0], st)
            if m.setlike is not None:
                raise Unsupported('enumerate over set')
            start = self.coerce(vals[1], INT, st).t if len(vals) > 1 else None
            return V(PY, py=IterModel(m.n, lambda i, s: self.mk_tuple([V(INT, i if start is None else i + start), m.item(i, s)], s),
                                      src_locs=m.src_locs))
        if name == 'zip':
            ms = [self.iter_model(v, st) for v in vals]
            if any(m.setlike is not None for m in ms):
                raise Unsupported('zip over set')
            n = ms[0].n
            for m in ms[1:]:
                n = z3.If(m.n < n, m.n, n)
            return V(PY, py=IterModel(n, lambda i, s: self.mk_tuple([m.item(i, s) for m in ms], s),
                                      src_locs=sum((m.src_locs for m in ms), ())))
        if name == 'reversed':
            m = self.iter_model(vals[0], st)
            return V(PY, py=IterModel(m.n, lambda i, s: m.item(m.n - 1 - i, s), src_locs=m.src_locs))
        if name == 'iter':
            return V(PY, py=self.iter_model(vals[0], st))
        if name == 'int':
            v = vals[0]
            if v.ty.kind == 'Optional':
                v = self.coerce(v, v.ty.args[0], st, 'argument of int')
            if v.ty.kind in ('Int', 'Bool', 'Enum'):
                return self.coerce(v, INT, st)
            if v.ty.kind == 'Real':
                # truncation toward zero
                f = z3.ToInt(v.t)
                return V(INT, z3.If(v.t >= 0, f, z3.If(z3.ToReal(f) == v.t, f, f + 1)))
            raise Unsupported(f'int({v.ty!r})')
        if name == 'float':
            v = vals[0]
            if v.ty.kind == 'Optional':
                v = self.coerce(v, v.ty.args[0], st, 'argument of float')
            return self.coerce(v, REAL, st)
        if name == 'bool':
            return V(BOOL, self.truth(vals[0], st))
        if name == 'abs':
            v = vals[0]
            return V(v.ty, z3.If(v.t >= 0, v.t, -v.t))
        if name in ('min', 'max'):
            if len(vals) == 1:
                v = vals[0]
                if v.ty.kind == 'Optional' and v.ty.args[0].kind in ('List', 'Np1'):
                    v = self.coerce(v, v.ty.args[0], st, 'iterated value')     # max(None) raises TypeError
                if v.ty.kind in ('List', 'Np1') and v.ty.args[0].kind in ('Int', 'Real'):
                    # extremum of a non-empty sequence: a fresh value that bounds every item and is one of them
                    ln, arr = self.seq_parts(v, st)
                    self.total(st, ln > 0, f'{name}() of a non-empty sequence', node)
                    et = v.ty.args[0]
                    m = fresh(et, name)
                    i = z3.Int(fresh_name('mi'))
                    w = z3.Int(fresh_name('mw'))
                    cmp_ = (lambda a, b: a >= b) if name == 'max' else (lambda a, b: a <= b)
                    st.pc.append(z3.ForAll([i], z3.Implies(z3.And(0 <= i, i < ln), cmp_(m, T.Sel(arr, i)))))
                    st.pc.append(z3.And(0 <= w, w < ln, T.Sel(arr, w) == m))
                    return V(et, m)
                raise Unsupported(f'{name} over iterable')
            r = vals[0]
            for v in vals[1:]:
                a, b, t = self.unify(r, v, st)
                if t.kind == 'Optional' and t.args[0].kind in ('Int', 'Real'):
                    # comparing None raises TypeError in Python: an implicit-exception site (totality obligation)
                    t = t.args[0]
                    a, b = self.coerce(a, t, st, 'compared value'), self.coerce(b, t, st, 'compared value')
                c = (b.t < a.t) if name == 'min' else (b.t > a.t)
                r = V(t, z3.If(c, b.t, a.t))
            return r
        if name == 'isinstance':
            return self.isinstance_(vals[0], node.args[1], st)
        if name in ('list', 'tuple'):
            if not vals:
                return V(Ty('List', (Ty('Bottom'),)), None, py=[])
            return self.to_list(vals[0], st)
        if name in ('set', 'frozenset'):
            if not vals:
                return V(Ty('Set', (Ty('Bottom'),)), None, py=set())
            return self.to_set(vals[0], st)
        if name == 'sorted' and len(vals) == 1 and not (node is not None and node.keywords):
            # sorted(list of numbers): a fresh list characterised by facts that hold for every sorted permutation --
            # same length, ascending, the same elements (with witness positions both ways), pairwise distinct if the
            # argument is. (Multiplicities beyond that are not stated: weaker than "is a permutation", never wrong.)
            v = self.to_list(vals[0], st)
            et = v.ty.args[0]
            if et.kind not in ('Int', 'Real'):
                raise Unsupported(f'sorted of {v.ty!r}')
            ln, arr = self.seq_parts(v, st)
            r = z3.Const(fresh_name('sorted'), z3.ArraySort(z3.IntSort(), sort_of(et)))
            a, b_ = z3.Int(fresh_name('a')), z3.Int(fresh_name('b'))
            to_src = z3.Function(fresh_name('srcpos'), z3.IntSort(), z3.IntSort())
            to_dst = z3.Function(fresh_name('dstpos'), z3.IntSort(), z3.IntSort())
            inr = lambda q: z3.And(0 <= q, q < ln)
            st.pc.append(z3.ForAll([a, b_], z3.Implies(z3.And(inr(a), inr(b_), a <= b_), z3.Select(r, a) <= z3.Select(r, b_))))
            st.pc.append(z3.ForAll([a], z3.Implies(inr(a), z3.And(inr(to_src(a)), T.Sel(arr, to_src(a)) == z3.Select(r, a)))))
            st.pc.append(z3.ForAll([a], z3.Implies(inr(a), z3.And(inr(to_dst(a)), z3.Select(r, to_dst(a)) == T.Sel(arr, a)))))
            st.pc.append(z3.Implies(z3.ForAll([a, b_], z3.Implies(z3.And(inr(a), inr(b_), a != b_), T.Sel(arr, a) != T.Sel(arr, b_))),
                                    z3.ForAll([a, b_], z3.Implies(z3.And(inr(a), inr(b_), a != b_), z3.Select(r, a) != z3.Select(r, b_)))))
            return self.mk_list(st, et, ln, r)
        if name == 'defaultdict':
            if len(node.args) == 1 and isinstance(node.args[0], ast.Name) and node.args[0].id == 'int':
                # a total map with value 0 everywhere (reads of absent keys give 0); membership / len / iteration of
                # such a map are refused below (they would differ from Python's defaultdict)
                return V(Ty('Dict', (Ty('Bottom'), Ty('Bottom'))), None, py={'__default__': 0})
            raise Unsupported('defaultdict with a factory other than int')
        if name == 'dict':
            if not vals:
                raise Unsupported('untyped empty dict')
            if len(vals) == 1 and vals[0].ty.kind == 'Dict' and not (node is not None and node.keywords):
                return self.new_cell(st, vals[0].ty, self.load(vals[0], st))      # dict(d): a new dict, same content
        if name == 'sum':
            v = vals[0]
            if v.ty.kind == 'Optional':
                v = self.coerce(v, v.ty.args[0], st, 'argument of sum')
            if v.ty.kind == 'Tuple':
                r = self.tuple_get(v, 0, st)
                for i in range(1, len(v.ty.args)):
                    r = self.binop(ast.Add(), r, self.tuple_get(v, i, st), st)
                return r
            if v.ty.kind in ('List', 'Np1'):
                ln, arr = self.seq_parts(v, st)
                return V(v.ty.args[0] if v.ty.args[0].kind != 'Bool' else INT, self.db.seq_sum(v.ty, arr, ln))
            raise Unsupported(f'sum of {v.ty!r}')
        if name == 'print':
            return self.const(None)
        if name in ('str', 'repr'):
            return V(STR, fresh(STR, 'str'))
        raise Unsupported(f'builtin {name}')

    def to_set(self, v, st):
        if v.ty.kind == 'Set':
            return self.new_cell(st, v.ty, self.load(v, st))
        if v.ty.kind in ('List', 'Np1'):
            ln, arr = self.seq_parts(v, st)
            et = v.ty.args[0]
            x = z3.Const(fresh_name('e'), sort_of(et))
            i = z3.Int(fresh_name('i'))
            if self.in_spec or st.guards:
                return self.new_cell(st, SetT(et), z3.Lambda([x], z3.Exists([i], z3.And(0 <= i, i < ln, T.Sel(arr, i) == x))))
            # set(list): a fresh set constant characterised from both sides (instantiation-friendly): every element
            # of the list is a member, every member has a witness position
            S = z3.Const(fresh_name('setof'), sort_of(SetT(et)))
            w = z3.Function(fresh_name('pos'), sort_of(et), z3.IntSort())
            st.pc.append(z3.ForAll([i], z3.Implies(z3.And(0 <= i, i < ln), T.Sel(S, T.Sel(arr, i))), patterns=[T.Sel(arr, i)])
                         if not z3.is_quantifier(arr) else z3.ForAll([i], z3.Implies(z3.And(0 <= i, i < ln), T.Sel(S, T.Sel(arr, i)))))
            st.pc.append(z3.ForAll([x], z3.Implies(T.Sel(S, x), z3.And(0 <= w(x), w(x) < ln, T.Sel(arr, w(x)) == x)),
                                   patterns=[T.Sel(S, x)]))
            return self.new_cell(st, SetT(et), S)
        if v.ty == PY and isinstance(v.py, IterModel) and v.py.setlike is None:
            # set(d.keys()) and the like over an indexed view: the image of the positions
            i = z3.Int(fresh_name('i'))
            st.guards.append(z3.And(0 <= i, i < v.py.n))
            try:
                item = v.py.item(i, st)
            finally:
                st.guards.pop()
            x = z3.Const(fresh_name('e'), sort_of(item.ty))
            return self.new_cell(st, SetT(item.ty), z3.Lambda([x], z3.Exists([i], z3.And(0 <= i, i < v.py.n, self.as_term(item, st) == x))))
        raise Unsupported(f'set({v.ty!r})')

    def isinstance_(self, v, clsnode, st):
        names = [self.src(e) for e in clsnode.elts] if isinstance(clsnode, ast.Tuple) else [self.src(clsnode)]
        k = v.ty.kind
        res = []
        for n in names:
            if n in ('int',):
                res.append(k in ('Int', 'Bool'))
            elif n == 'float':
                res.append(k == 'Real')
            elif n == 'bool':
                res.append(k == 'Bool')
            elif n in ('list', 'tuple', 'dict', 'set', 'str'):
                res.append({'list': 'List', 'tuple': 'Tuple', 'dict': 'Dict', 'set': 'Set', 'str': 'Str'}[n] == k)
            elif n in self.db.enums:
                if k == 'Enum':
                    res.append(v.ty.cls == n)
                elif k == 'Optional' and v.ty.args[0].kind == 'Enum':
                    return V(BOOL, z3.Not(T.opt_is_none(v.ty, v.t)))
                else:
                    res.append(False)
            elif n in self.db.classes:
                if k == 'Optional':
                    inner = self.unbox(v.ty.args[0], T.opt_val(v.ty, v.t), st)
                    r = self.isinstance_(inner, clsnode, st)
                    return V(BOOL, z3.And(z3.Not(T.opt_is_none(v.ty, v.t)), r.t))
                if k != 'Ref':
                    res.append(False)
                    continue
                # class membership predicate; static class gives True when it is a subclass
                if v.ty.cls and self.is_subclass(v.ty.cls, n):
                    res.append(True)
                else:
                    res.append(self.db.isinst(n)(v.t))
            else:
                raise Unsupported(f'isinstance against {n}')
        if all(isinstance(r, bool) for r in res):
            return V(BOOL, z3.BoolVal(any(res)))
        return V(BOOL, z3.Or(*[z3.BoolVal(r) if isinstance(r, bool) else r for r in res]))

    def is_subclass(self, c, base):
        seen, todo = set(), [c]
        while todo:
            x = todo.pop()
            if x == base:
                return True
            if x in seen or x is None:
                continue
            seen.add(x)
            todo += list(self.class_info(x).get('__bases__', ()))
        return False

    def call_lib(self, name, node, st):
        vals = [self.eval(a, st) for a in node.args]
        kw = {k.arg: k.value for k in node.keywords}
        if name == 'np.array':
            v = vals[0]
            if v.ty.kind in ('List', 'Np1'):
                return self.to_list(v, st, kind='Np1')
            if v.ty.kind == 'Np2':
                return self.new_cell(st, v.ty, self.load(v, st))
            raise Unsupported(f'np.array({v.ty!r})')
        if name in ('np.zeros', 'np.ones'):
            fill = 0 if name == 'np.zeros' else 1
            et = INT
            if 'dtype' in kw:
                d = self.src(kw['dtype'])
                et = {'bool': BOOL, 'int': INT, 'float': REAL, 'np.int64': INT, 'np.bool_': BOOL}.get(d)
                if et is None:
                    raise Unsupported(f'dtype {d}')
            else:
                et = REAL
            fv = {BOOL: z3.BoolVal(bool(fill)), INT: zint(fill), REAL: z3.RealVal(fill)}[et]
            shp = vals[0]
            if shp.ty.kind == 'Tuple' and len(shp.ty.args) == 1:
                shp = self.tuple_get(shp, 0, st)
            if shp.ty.kind == 'Tuple' and len(shp.ty.args) == 2:
                n0 = self.coerce(self.tuple_get(shp, 0, st), INT, st).t
                n1 = self.coerce(self.tuple_get(shp, 1, st), INT, st).t
                self.total(st, z3.And(n0 >= 0, n1 >= 0), 'non-negative array shape', node)
                t = Ty('Np2', (et,))
                return self.new_cell(st, t, T.mat_mk(t, n0, n1, z3.K(z3.IntSort(), z3.K(z3.IntSort(), fv))))
            n = self.coerce(shp, INT, st).t
            self.total(st, n >= 0, 'non-negative array length', node)
            return self.mk_list(st, et, n, z3.K(z3.IntSort(), fv), kind='Np1')
        if name in ('np.any', 'np.all'):
            v = vals[0]
            if v.ty.kind == 'Np2':
                t = self.load(v, st)
                i, j = z3.Int(fresh_name('i')), z3.Int(fresh_name('j'))
                el = self.truth(V(v.ty.args[0], T.Sel(T.Sel(T.mat_arr(v.ty, t), i), j)), st)
                d = z3.And(0 <= i, i < T.mat_n0(v.ty, t), 0 <= j, j < T.mat_n1(v.ty, t))
                return V(BOOL, z3.Exists([i, j], z3.And(d, el)) if name == 'np.any' else
                         z3.ForAll([i, j], z3.Implies(d, el)))
            if v.ty.kind not in ('List', 'Np1'):
                raise Unsupported(f'{name} on {v.ty!r}')
            ln, arr = self.seq_parts(v, st)
            i = z3.Int(fresh_name('i'))
            el = self.truth(self.unbox(v.ty.args[0], T.Sel(arr, i), st), st)
            d = z3.And(0 <= i, i < ln)
            return V(BOOL, z3.Exists([i], z3.And(d, el)) if name == 'np.any' else z3.ForAll([i], z3.Implies(d, el)))
        if name == 'np.sum':
            return self.call_builtin_vals('sum', vals, st, node)
        if name == 'math.isnan':
            return V(BOOL, vals[0].t == self.db.nan_const())
        raise Unsupported(f'library call {name}')

    # ------------------------------------------------------------------ container methods
    def call_container_method(self, obj, name, node, st):
        vals = [self.eval(a, st) for a in node.args]
        k = obj.ty.kind
        if k in ('List', 'Np1'):
            if obj.ty.args[0].kind == 'Bottom' and name in ('append', 'extend', 'insert') and vals:
                # first use of an empty literal: fix the element type now, rebinding through the ast target
                raise Unsupported('append to untyped empty list: declare local type in contract `locals`')
            et = obj.ty.args[0]
            if name == 'append':
                ln, arr = self.seq_parts(obj, st)
                v = self.coerce(vals[0], et, st)
                narr = z3.Store(arr, ln, self.as_term(v, st))
                # membership in the appended list = membership in the old list or being the new element
                if not hasattr(self, 'concat_prov'):
                    self.concat_prov = {}
                self.concat_prov[narr.get_id()] = (narr, ln, arr, I1, z3.K(z3.IntSort(), self.as_term(v, st)))
                self.store(obj, T.seq_mk(obj.ty, ln + 1, narr), st)
                self.mark_escaped(vals[0], st)
                return self.const(None)
            if name == 'extend':
                ln, arr = self.seq_parts(obj, st)
                o = self.coerce(self.to_list(vals[0], st), ListT(et), st)
                ol, oa = self.seq_parts(o, st)
                i = z3.Int(fresh_name('i'))
                self.store(obj, T.seq_mk(obj.ty, ln + ol, z3.Lambda([i], z3.If(i < ln, T.Sel(arr, i), T.Sel(oa, i - ln)))), st)
                return self.const(None)
            if name == 'copy':
                ln, arr = self.seq_parts(obj, st)
                return self.mk_list(st, et, ln, arr, kind=k)
            if name == 'index':
                ln, arr = self.seq_parts(obj, st)
                x = self.coerce(vals[0], et, st)
                xt = self.as_term(x, st)
                j = z3.Int(fresh_name('j'))
                self.total(st, z3.Exists([j], z3.And(0 <= j, j < ln, T.Sel(arr, j) == xt)),
                           f'value present for {self.src(node)}', node)
                r = z3.Int(fresh_name('idx'))
                props = z3.And(0 <= r, r < ln, T.Sel(arr, r) == xt,
                               z3.ForAll([j], z3.Implies(z3.And(0 <= j, j < r), T.Sel(arr, j) != xt)))
                if self.in_spec:
                    # in a contract expression the element need not be present: the index is only characterised
                    # when it is (otherwise it is an arbitrary integer)
                    j2 = z3.Int(fresh_name('j'))
                    st.pc.append(z3.Implies(z3.Exists([j2], z3.And(0 <= j2, j2 < ln, T.Sel(arr, j2) == xt)), props))
                else:
                    st.assume(props)
                return V(INT, r)
            if name == 'astype' and k == 'Np1':
                tgt = self.src(node.args[0])
                ln, arr = self.seq_parts(obj, st)
                if tgt == 'int' and et.kind in ('Int', 'Bool'):
                    return self.coerce(V(obj.ty, self.load(obj, st)), Ty('Np1', (INT,)), st) if et.kind == 'Bool' \
                        else self.mk_list(st, INT, ln, arr, kind='Np1')
                raise Unsupported(f'astype({tgt}) on {obj.ty!r}')
            if name == 'tolist':
                ln, arr = self.seq_parts(obj, st)
                return self.mk_list(st, et, ln, arr)
        if k == 'Set':
            et = obj.ty.args[0]
            s = self.load(obj, st)
            if name == 'add':
                x = self.coerce(vals[0], et, st)
                self.store(obj, z3.Store(s, self.as_term(x, st), z3.BoolVal(True)), st)
                return self.const(None)
            if name in ('discard', 'remove'):
                x = self.coerce(vals[0], et, st)
                if name == 'remove':
                    self.total(st, T.Sel(s, self.as_term(x, st)), 'element present for set.remove', node)
                self.store(obj, z3.Store(s, self.as_term(x, st), z3.BoolVal(False)), st)
                return self.const(None)
            if name == 'copy':
                return self.new_cell(st, obj.ty, s)
            if name in ('update', 'union', 'difference', 'intersection', 'difference_update', 'intersection_update'):
                o = vals[0] if vals[0].ty.kind == 'Set' else self.to_set(vals[0], st)
                o = self.coerce(o, obj.ty, st) if o.ty != obj.ty else o
                ot = self.load(o, st)
                x = z3.Const(fresh_name('e'), sort_of(et))
                if name in ('update', 'union'):
                    r = z3.Lambda([x], z3.Or(T.Sel(s, x), T.Sel(ot, x)))
                elif name.startswith('difference'):
                    r = z3.Lambda([x], z3.And(T.Sel(s, x), z3.Not(T.Sel(ot, x))))
                else:
                    r = z3.Lambda([x], z3.And(T.Sel(s, x), T.Sel(ot, x)))
                if name in ('update', 'difference_update', 'intersection_update'):
                    self.store(obj, r, st)
                    return self.const(None)
                return self.new_cell(st, obj.ty, r)
        if k == 'ODict':
            lt = ListT(TupleT(*obj.ty.args))
            aslist = V(lt, self.load(obj, st))
            m = self.iter_model(aslist, st)
            if name == 'items':
                return V(PY, py=m)
            if name == 'keys':
                return V(PY, py=IterModel(m.n, lambda i, s: self.tuple_get(m.item(i, s), 0, s)))
            if name == 'values':
                return V(PY, py=IterModel(m.n, lambda i, s: self.tuple_get(m.item(i, s), 1, s)))
            if name == 'pop' and len(vals) == 1 and not self.in_spec:
                # d.pop(key): the key has to be present (KeyError otherwise); its item leaves the sequence
                kt, vt = obj.ty.args
                kterm = self.as_term(self.coerce(vals[0], kt, st), st)
                term = self.load(obj, st)
                ln, arr = T.seq_len(lt, term), T.seq_arr(lt, term)
                j = z3.Int(fresh_name('j'))
                present = z3.Exists([j], z3.And(0 <= j, j < ln, T.tup_get(lt.args[0], T.Sel(arr, j), 0) == kterm))
                self.total(st, present, f'key present: {self.src(node)}', node)
                r = z3.Int(fresh_name('oi'))
                st.assume(z3.And(0 <= r, r < ln, T.tup_get(lt.args[0], T.Sel(arr, r), 0) == kterm))
                i = z3.Int(fresh_name('i'))
                val = self.unbox(vt, T.tup_get(lt.args[0], T.Sel(arr, r), 1), st)
                self.store(obj, T.seq_mk(lt, ln - 1, z3.Lambda([i], z3.If(i < r, T.Sel(arr, i), T.Sel(arr, i + 1)))), st)
                return val
        if k == 'Dict':
            kt, vt = obj.ty.args
            d = self.load(obj, st)
            dom, val = T.dict_dom(obj.ty, d), T.dict_val(obj.ty, d)
            if name == 'get':
                key = self.coerce(vals[0], kt, st)
                kterm = self.as_term(key, st)
                present = T.Sel(dom, kterm)
                got = self.unbox(vt, T.Sel(val, kterm), st)
                dflt = vals[1] if len(vals) > 1 else self.const(None)
                a, b, t = self.unify(got, dflt, st)
                return self.ite(present, a, b, t, st)
            if name == 'copy':
                return self.new_cell(st, obj.ty, d)
            if name == 'pop' and vals:
                # d.pop(k): KeyError when absent (totality obligation); d.pop(k, default): the default when absent
                self.refuse_total_dict(obj, 'pop')
                key = self.coerce(vals[0], kt, st)
                kterm = self.as_term(key, st)
                present = T.Sel(dom, kterm)
                got = self.unbox(vt, T.Sel(val, kterm), st)
                if len(vals) == 1:
                    self.total(st, present, f'key present: {self.src(node)}', node)
                    res = got
                else:
                    a, b, t = self.unify(got, vals[1], st)
                    res = self.ite(present, a, b, t, st)
                self.store(obj, T.dict_mk(obj.ty, z3.Store(dom, kterm, z3.BoolVal(False)), val), st)
                return res
            if name == 'items':
                return V(PY, py=IterModel(None, None, setlike=('dictitems', obj)))
            if name == 'keys':
                return V(PY, py=IterModel(None, None, setlike=('dictkeys', obj)))
            if name == 'values':
                return V(PY, py=IterModel(None, None, setlike=('dictvalues', obj)))
        raise Unsupported(f'method {obj.ty!r}.{name}')

    # ------------------------------------------------------------------ callee contracts
    def call_contract_for_method(self, obj, name, args, kwargs, st, node):
        cls = obj.ty.cls
        spec = self.db.method_spec(cls, name, self)
        if spec is None:
            raise Unsupported(f'call to {cls}.{name}: no callee contract')
        return self.apply_spec(spec, [obj] + list(args), kwargs, st, node, f'{cls}.{name}')

    def call_spec(self, spec, node, st, label):
        if isinstance(spec, str):
            spec = self.db.callee_spec(spec)
        else:
            spec = dict(spec)
            spec['caller_scope'] = True   # inline specs are written in the caller's vocabulary
        if spec.get('ctor'):
            # object construction: a fresh reference, then the contract of the real __init__ applied to it.
            # (The reference is unconstrained: if it aliased an existing object that object's fields would be
            # overwritten -- a sound over-approximation of allocation.)
            cls = spec['cls']
            init = self.db.callee_spec(spec['ctor'])
            r = V(Ty('Ref', (), cls), fresh(REF, 'new_' + cls))
            self.allocate(r, st)
            args = [r] + [self.eval(a, st) for a in node.args]
            kwargs = {k.arg: self.eval(k.value, st) for k in node.keywords}
            self.apply_spec(init, args, kwargs, st, node, f'{cls}.__init__')
            return r
        args = []
        if spec.get('classmethod'):
            args.append(V(REF, fresh(REF, 'cls')))
        if spec.get('self'):
            # receiver expression is the value of the attribute's object
            if isinstance(node.func, ast.Attribute):
                args.append(self.eval(node.func.value, st))
        args += [self.eval(a, st) for a in node.args]
        kwargs = {k.arg: self.eval(k.value, st) for k in node.keywords}
        if spec.get('receiver') and isinstance(node.func, ast.Attribute):
            spec = dict(spec)
            spec['params'] = [spec['receiver']] + list(spec['params'])
            args = [self.eval(node.func.value, st)] + args
        return self.apply_spec(spec, args, kwargs, st, node, label)

    def apply_spec(self, spec, args, kwargs, st, node, label):
        """Modular call: check requires, havoc modifies, assume ensures. The callee body is not looked at."""
        params = list(spec.get('params', ()))
        types = spec.get('types', {})
        env = {}
        for p, a in zip(params, args):
            env[p] = a
        for k, v in kwargs.items():
            env[k] = v
        for p, d in spec.get('defaults', {}).items():
            if p not in env:
                env[p] = self.const(d)
        if spec.get('caller_scope'):
            for k, v in st.env.items():
                if k not in env and not k.startswith('!'):
                    env[k] = v
        for gname in spec.get('ghost', ()):
            # ghost parameters of the callee are instantiated with the caller's ghost of the same name
            if gname in st.env:
                env[gname] = st.env[gname]
        for p in params:
            if p not in env:
                raise Unsupported(f'call {label}: missing argument {p}')
            if p in types:
                want = parse_type(types[p])
                env[p] = self.materialize_empty(env[p], want, st) if want.is_container else env[p]
                cv = self.coerce(env[p], want, st)
                if env[p].loc is not None and cv.loc is None:
                    cv = V(cv.ty, cv.t, env[p].loc)
                env[p] = cv
        if spec.get('assumed') or not spec.get('verified_as'):
            # an inline spec of a callee that is not itself under contract here: part of the trusted base
            self.assumed.append(label)
        if spec.get('pure_expr'):
            # a side-effect free callee whose result is a function of its arguments (usable under quantifiers)
            return self.eval_spec_expr(spec['pure_expr'], env, st, st)
        guarded = bool(st.guards) and not self.in_spec
        if guarded:
            if getattr(self, 'quant_depth', 0) > 0:
                raise Unsupported(f'call to {label} inside a comprehension: its result must be a function of the '
                                  f'arguments (give the callee spec a `pure_expr`)')
            if spec.get('modifies') or spec.get('raises') or spec.get('allocates'):
                raise Unsupported(f'call to {label} with side effects in a short-circuit context')
        ordn = getattr(self, 'call_ord', {}).get(id(node), 0)
        saved_defs = self.contract.get('defs')
        if spec.get('defs'):
            merged = dict(saved_defs or {})
            merged.update(spec['defs'])
            self.contract = dict(self.contract)
            self.contract['defs'] = merged
        saved_callee_env = getattr(self, 'callee_env', None)
        self.callee_env = env
        for lab, r in self.norm_clauses(spec.get('requires', ())):
            g = self.eval_spec(r, env, st, pre=st)
            self.emit(st, 'call-pre', f'{label}#{ordn}:{lab}', g, node=node)
            if not st.guards:
                st.assume(g)
        pre = st.copy()
        rty = spec.get('returns')
        result = None
        if rty is not None and rty != 'None':
            t = parse_type(rty)
            term = fresh(t, f'ret_{label.split(".")[-1]}')
            result = self.new_cell(st, t, term) if t.is_container else V(t, term)
        else:
            result = self.const(None)
        env2 = dict(env)
        env2['result'] = result
        for lname, lty in spec.get('post_locals', ()):
            # final value of a callee local mentioned by its postconditions: an unknown witness for the caller
            if lty is None:
                raise Unsupported(f'callee {label}: post_local {lname} needs a declared type')
            t = parse_type(lty)
            env2['final_' + lname] = V(t, fresh(t, 'final_' + lname))
        if spec.get('allocates'):
            self.allocate(result, st)
        # havoc
        for m in spec.get('modifies', ()):
            self.havoc_target(m, env2, st)
        raises = spec.get('raises')
        if raises:
            # exceptional behaviours: {label: (ExcName, when)}; when holds -> raises; otherwise normal
            for lab, (exc, when) in raises.items():
                w = self.eval_spec(when, env, pre, pre=pre)
                if self.pending_raises is None:
                    raise Unsupported('raising callee in expression context')
                self.pending_raises.append((exc, w, pre))
                st.assume(z3.Not(w))
        for lab, e in self.norm_clauses(spec.get('ensures', ())):
            g = self.eval_spec(e, env2, st, pre=pre)
            # under a short-circuit guard the call only happens when the guard holds
            st.pc.append(z3.Implies(z3.And(*st.guards), g) if guarded else g) if not z3.is_true(g) else None
        if spec.get('defs'):
            self.contract = dict(self.contract)
            self.contract['defs'] = saved_defs or {}
        self.callee_env = saved_callee_env
        return result

    def alloc_map(self, st):
        return self.get_field_array(st, '!alloc', BOOL)

    def allocate(self, r, st):
        """Object allocation: the new reference differs from every object allocated so far."""
        if st.guards:
            raise Unsupported('allocation under a short-circuit guard')
        a = self.alloc_map(st)
        st.assume(z3.Not(T.Sel(a, r.t)))
        st.fields['!alloc'] = z3.Store(a, r.t, z3.BoolVal(True))

    def havoc_target(self, m, env, st):
        """`modifies` entry: a parameter name (container contents), 'p.field', or 'Class.field' (whole field map)."""
        if m in env:
            v = env[m]
            if v.ty.is_container:
                if v.loc is None:
                    return  # passed by value: caller cannot observe
                self.store(v, fresh(v.ty, f'hv_{m}'), st)
            return
        if '.' in m:
            head, fld = m.split('.', 1)
            if head in env and env[head].ty.kind == 'Ref':
                obj = env[head]
                key, decl = self.field_decl(obj.ty.cls, fld)
                if decl is None:
                    raise Unsupported(f'modifies: unknown field {m}')
                fty = parse_type(decl)
                arr = self.get_field_array(st, key, fty)
                st.fields[key] = z3.Store(arr, obj.t, fresh(fty, f'hv_{fld}'))
                return
            key, decl = self.field_decl(head, fld)
            if decl is not None:
                fty = parse_type(decl)
                st.fields[key] = z3.Const(fresh_name(f'hvfld_{key}'), z3.ArraySort(T.RefSort, sort_of(fty)))
                st.field_ty[key] = fty
                return
        raise Unsupported(f'modifies target {m}')

    def norm_clauses(self, cl):
        if isinstance(cl, dict):
            out = []
            for k, v in cl.items():
                out.append((k, v[1] if isinstance(v, tuple) else v))
            return out
        return [(str(i), c) for i, c in enumerate(cl)]

    def ordinal(self, key):
        n = self.ordinals.get(key, 0)
        self.ordinals[key] = n + 1
        return n
