"""pyvc: counter-model -> concrete inputs -> the real function, judged by the executable form of the same contract."""
import ast
import copy
import math
import os
from fractions import Fraction
import z3
from . import ty as T
from .ty import parse_type, sort_of
from .core import V, CellLoc


def _num(v):
    if z3.is_int_value(v):
        return v.as_long()
    if z3.is_rational_value(v):
        f = Fraction(v.numerator_as_long(), v.denominator_as_long())
        return int(f) if f.denominator == 1 else float(f)
    if z3.is_algebraic_value(v):
        return float(v.approx(10).as_fraction())
    return None


def concretize(model, ty, term, depth=0, cap=12):
    """Python value of `term` (sort_of(ty)) in `model`. Refs become their model names (strings)."""
    k = ty.kind
    ev = lambda t: model.eval(t, model_completion=True)
    if k in ('Int', 'Enum', 'Real'):
        return _num(ev(term))
    if k == 'Bool':
        return z3.is_true(ev(term))
    if k in ('Ref', 'Str'):
        return str(ev(term))
    if k == 'NoneT':
        return None
    if k == 'Optional':
        if z3.is_true(ev(T.opt_is_none(ty, term))):
            return None
        return concretize(model, ty.args[0], T.opt_val(ty, term), depth + 1)
    if k == 'Tuple':
        return tuple(concretize(model, a, T.tup_get(ty, term, i), depth + 1) for i, a in enumerate(ty.args))
    if k in ('List', 'Np1'):
        n = _num(ev(T.seq_len(ty, term)))
        n = max(0, min(n if n is not None else 0, cap))
        arr = T.seq_arr(ty, term)
        return [concretize(model, ty.args[0], z3.Select(arr, z3.IntVal(i)), depth + 1) for i in range(n)]
    if k == 'Np2':
        n0 = max(0, min(_num(ev(T.mat_n0(ty, term))) or 0, cap))
        n1 = max(0, min(_num(ev(T.mat_n1(ty, term))) or 0, cap))
        arr = T.mat_arr(ty, term)
        return [[concretize(model, ty.args[0], z3.Select(z3.Select(arr, z3.IntVal(i)), z3.IntVal(j)), depth + 1)
                 for j in range(n1)] for i in range(n0)]
    if k == 'Set':
        return ('set-term', str(ev(term))[:200])
    if k == 'Dict':
        return ('dict-term', str(ev(term))[:200])
    return str(ev(term))


def model_inputs(engine, model):
    """{param: value} plus, for Ref-typed parameters, {param.field: value} for every declared data field, and for
    elements of lists of Refs a table ref-name -> fields."""
    out = {}
    pre = engine.func_pre
    refs = {}

    def fields_of(cls, refterm, depth=0):
        d = {}
        seen, todo = set(), [cls]
        while todo:
            c = todo.pop(0)
            if c is None or c in seen:
                continue
            seen.add(c)
            info = engine.class_info(c)
            for f, decl in info.items():
                if f.startswith('__') or not isinstance(decl, str):
                    continue
                fty = parse_type(decl)
                key = f'{c}.{f}'
                arr = pre.fields.get(key)
                if arr is None:
                    arr = z3.Const(f'fld0!{key}', z3.ArraySort(T.RefSort, sort_of(fty)))
                val = concretize(model, fty, z3.Select(arr, refterm))
                d[f] = val
                if depth < 2:
                    note_refs(fty, z3.Select(arr, refterm), depth + 1)
            todo += list(info.get('__bases__', ()))
        return d

    def note_refs(ty, term, depth):
        if ty.kind == 'Ref' and ty.cls:
            name = str(model.eval(term, model_completion=True))
            if name not in refs:
                refs[name] = None
                refs[name] = dict(cls=ty.cls, fields=fields_of(ty.cls, term, depth))
        elif ty.kind == 'Optional':
            if not z3.is_true(model.eval(T.opt_is_none(ty, term), model_completion=True)):
                note_refs(ty.args[0], T.opt_val(ty, term), depth)
        elif ty.kind in ('List', 'Np1') and ty.args[0].kind in ('Ref', 'Tuple', 'Optional'):
            n = _num(model.eval(T.seq_len(ty, term), model_completion=True)) or 0
            for i in range(max(0, min(n, 12))):
                note_refs(ty.args[0], z3.Select(T.seq_arr(ty, term), z3.IntVal(i)), depth)
        elif ty.kind == 'Tuple':
            for i, a in enumerate(ty.args):
                note_refs(a, T.tup_get(ty, term, i), depth)

    for p, v in engine.param_vals.items():
        term = engine.load(v, pre) if v.ty.is_container else v.t
        out[p] = concretize(model, v.ty, term)
        note_refs(v.ty, term, 0)
    for g, v in engine.ghost_consts.items():
        if isinstance(g, str):
            out['ghost:' + g] = concretize(model, v.ty, v.t)
    out['__refs__'] = refs
    return out


# ---------------------------------------------------------------------------------- executable contracts

class _OldCollector(ast.NodeTransformer):
    def __init__(self):
        self.olds = []

    def visit_Call(self, node):
        self.generic_visit(node)
        if isinstance(node.func, ast.Name) and node.func.id == 'old':
            self.olds.append(node.args[0])
            return ast.Subscript(value=ast.Name(id='__old__', ctx=ast.Load()),
                                 slice=ast.Constant(value=len(self.olds) - 1), ctx=ast.Load())
        if isinstance(node.func, ast.Name) and node.func.id in ('forall', 'exists'):
            fn = 'all' if node.func.id == 'forall' else 'any'
            a = node.args
            if len(a) == 4 and isinstance(a[0], ast.Name):
                gen = ast.GeneratorExp(elt=a[3], generators=[ast.comprehension(
                    target=ast.Name(id=a[0].id, ctx=ast.Store()),
                    iter=ast.Call(func=ast.Name(id='range', ctx=ast.Load()), args=[a[1], a[2]], keywords=[]),
                    ifs=[], is_async=0)])
                return ast.Call(func=ast.Name(id=fn, ctx=ast.Load()), args=[gen], keywords=[])
            if len(a) == 3 and isinstance(a[0], ast.Name):
                gen = ast.GeneratorExp(elt=a[2], generators=[ast.comprehension(
                    target=ast.Name(id=a[0].id, ctx=ast.Store()), iter=a[1], ifs=[], is_async=0)])
                return ast.Call(func=ast.Name(id=fn, ctx=ast.Load()), args=[gen], keywords=[])
            if isinstance(a[0], ast.Constant):
                # typed quantifier: ranges over the finite universe supplied by the replay builder
                gens = []
                for d in a[:-1]:
                    name, tname = d.value.split(':')
                    gens.append(ast.comprehension(
                        target=ast.Name(id=name.strip(), ctx=ast.Store()),
                        iter=ast.Subscript(value=ast.Name(id='__universe__', ctx=ast.Load()),
                                           slice=ast.Constant(value=tname.strip()), ctx=ast.Load()),
                        ifs=[], is_async=0))
                gen = ast.GeneratorExp(elt=a[-1], generators=gens)
                return ast.Call(func=ast.Name(id=fn, ctx=ast.Load()), args=[gen], keywords=[])
        if isinstance(node.func, ast.Name) and node.func.id == 'implies':
            return ast.BoolOp(op=ast.Or(), values=[ast.UnaryOp(op=ast.Not(), operand=node.args[0]), node.args[1]])
        if isinstance(node.func, ast.Name) and node.func.id == 'ite':
            return ast.IfExp(test=node.args[0], body=node.args[1], orelse=node.args[2])
        return node


def _is_int(x):
    if x is None:
        return False
    try:
        return float(x) == int(x)
    except Exception:
        return False


def _count(seq, x, n=None):
    seq = list(seq)
    if n is not None:
        seq = seq[:n]
    return sum(1 for e in seq if e == x)


EXEC_HELPERS = {'is_int': _is_int, 'count': _count, 'iff': lambda a, b: bool(a) == bool(b),
                'subset': lambda a, b: set(a) <= set(b), 'math': math}


def _snap(x):
    """Value of `old(...)`: containers are copied (recursively), everything else is kept by reference -- the heap
    model of the verifier: containers are values, objects are identities (a deep copy of an object without __eq__
    would compare unequal to the very object it was copied from)."""
    try:
        import numpy as np
        if isinstance(x, np.ndarray):
            return x.copy()
    except ImportError:
        pass
    if isinstance(x, list):
        return [_snap(e) for e in x]
    if isinstance(x, tuple):
        return tuple(_snap(e) for e in x)
    if isinstance(x, (set, frozenset)):
        return type(x)(x)
    if isinstance(x, dict):
        return {k: _snap(v) for k, v in x.items()}
    return x


EXEC_STATS = {'clauses': 0, 'not_executable': set()}     # per process = per function (pyvc/runner.py)


class ExecClause:
    """One contract clause compiled to a Python predicate over the real objects."""

    def __init__(self, src):
        self.src = src
        tree = ast.parse(src.strip(), mode='eval')
        col = _OldCollector()
        tree = col.visit(tree)
        ast.fix_missing_locations(tree)
        self.code = compile(tree, '<contract>', 'eval')
        self.old_codes = []
        for o in col.olds:
            e = ast.Expression(body=o)
            ast.fix_missing_locations(e)
            self.old_codes.append(compile(e, '<contract-old>', 'eval'))

    def snapshot(self, env):
        return [_snap(eval(c, env)) for c in self.old_codes]

    def holds(self, env, olds):
        env['__old__'] = olds
        return bool(eval(self.code, env))


def run_exec_contract(contract, env, call, universe=None, extra_helpers=None):
    """Runs `call()` (the real function on real objects) under the executable contract.
    Returns list of (label, message) violations; empty = contract held. Preconditions not satisfied -> None."""
    base = dict(EXEC_HELPERS)
    base.update(env)
    base['__universe__'] = universe or {}
    if extra_helpers:
        base.update(extra_helpers)
    for name, (params, body) in (contract.get('defs') or {}).items():
        tree = _OldCollector().visit(ast.parse(body.strip(), mode='eval'))
        lam = ast.Expression(body=ast.Lambda(
            args=ast.arguments(posonlyargs=[], args=[ast.arg(arg=p) for p in params], kwonlyargs=[], kw_defaults=[],
                               defaults=[]), body=tree.body))
        ast.fix_missing_locations(lam)
        base[name] = eval(compile(lam, '<contract-def>', 'eval'), base)
    req = contract.get('requires', {})
    req = req.items() if isinstance(req, dict) else enumerate(req)
    for lab, r in req:
        r = r[1] if isinstance(r, tuple) else r
        try:
            c = ExecClause(r)
            if not c.holds(base, c.snapshot(base)):
                return None
        except Exception as e:
            return None
    ens = {}
    # `exec_ensures`: clauses of the statement that no obligation is generated for (beyond the solver); they are only
    # evaluated here, on the function's bounded domain (labelled bounded in the evidence, never counted as proved)
    for lab, item in list((contract.get('ensures') or {}).items()) + \
            [('bounded:' + k, v) for k, v in (contract.get('exec_ensures') or {}).items()]:
        src = item[1] if isinstance(item, tuple) else item
        try:
            c = ExecClause(src)
            ens[lab] = (c, c.snapshot(base))
        except Exception as e:
            ens[lab] = None
    raises = {}
    for lab, (exc, when) in (contract.get('raises') or {}).items():
        try:
            c = ExecClause(when)
            raises[lab] = (exc, c.holds(base, c.snapshot(base)))
        except Exception:
            raises[lab] = (exc, None)
    for lab, (exc, when) in (contract.get('must_raise') or {}).items():
        try:
            c = ExecClause(when)
            raises['must:' + lab] = (exc, c.holds(base, c.snapshot(base)))
        except Exception:
            pass
    viol = []
    try:
        result = call()
        raised = None
    except Exception as e:  # noqa
        raised = e
        result = None
    if raised is not None:
        name = type(raised).__name__
        expected = [lab for lab, (exc, w) in raises.items() if exc == name and w]
        declared = [lab for lab, (exc, w) in raises.items() if exc == name and not lab.startswith('must:')]
        # a declared exception class covers its subclasses (Python's `except` semantics)
        mro_names = {k.__name__ for k in type(raised).__mro__}
        if not expected and not (mro_names & set(contract.get('may_raise', ()))):
            viol.append((f'raises[{"/".join(declared) or "unexpected:" + name}]',
                         f'raised {name}: {raised} although no declared raising condition holds'))
        return viol
    for lab, (exc, w) in raises.items():
        if w:
            viol.append((f'raises[{lab}:must-raise]', f'returned {result!r} although {exc} is required'))
    post = base
    if isinstance(result, SegmentResult):
        # a segment run: its locals are visible to the clauses, under their own names and as final_<name>
        for k, v in result.locals.items():
            post[k] = v
            post['final_' + k] = v
        result = result.value
    post['result'] = result
    if base.get('__generator__'):
        post['Y'] = list(result)   # generator functions: the yielded sequence
    for lab, item in ens.items():
        if item is None:
            continue
        c, olds = item
        try:
            ok = c.holds(post, olds)
            EXEC_STATS['clauses'] += 1
        except Exception as e:
            # clause not executable on these objects (ghost-only, or its Python form raises): undecided, not a
            # violation -- but counted and named in the evidence (function_domains[].clauses_not_executable)
            EXEC_STATS['not_executable'].add(f'post[{lab}]')
            continue
        if not ok:
            viol.append((f'post[{lab}]', f'result {result!r} violates: {c.src}'))
    return viol


# ---------------------------------------------------------------------------------- segments, executed by CPython

class SegmentResult:
    """What running a contract segment on real objects produced: the returned value (None when the segment fell off
    its end at the `stop_before` statement) and the locals at that point."""

    def __init__(self, value, local_vars, stopped):
        self.value = value
        self.locals = local_vars
        self.stopped = stopped


class SegmentNotFound(LookupError):
    """The statement that bounds a segment is not in the (changed) source text any more."""


def segment_callable(key, contract, root='/repo'):
    """The statements of a segment contract (from the function's first statement, or `start_at`, up to `stop_before`),
    cut mechanically out of the real source and compiled into a function of the parameters (plus the `live`
    variables when the segment starts in the middle). It runs in a copy of the real module's namespace, so every name
    resolves to the real callee. Returns f(**bindings) -> SegmentResult."""
    import importlib
    relpath, qual = key.split(':', 1)
    qual = qual.split('@')[0]
    text = open(os.path.join(root, relpath)).read()
    tree = ast.parse(text)
    node = tree
    for part in qual.split('.'):
        if part == '<locals>':
            raise ValueError('segments of nested functions cannot be executed on their own')
        node = next(ch for ch in ast.iter_child_nodes(node) if isinstance(ch, (ast.FunctionDef, ast.ClassDef)) and ch.name == part)
    body = list(node.body)
    if contract.get('start_at'):
        idx = next((i for i, s in enumerate(body) if ast.unparse(s).startswith(contract['start_at'])), None)
        if idx is None:
            raise SegmentNotFound(f'start_at statement not found in {key}: {contract["start_at"]!r}')
        body = body[idx:]
    if contract.get('stop_before'):
        idx = next((i for i, s in enumerate(body) if ast.unparse(s).startswith(contract['stop_before'])), None)
        if idx is None:
            raise SegmentNotFound(f'stop_before statement not found in {key}: {contract["stop_before"]!r}')
        body = body[:idx]
    params = [a.arg for a in node.args.args] + list(contract.get('live', {}))
    src = 'def __segment__(' + ', '.join(params) + '):\n'
    src += ''.join('    ' + line + '\n' for s in body for line in ast.unparse(s).splitlines())
    src += '    return __SegmentStop__(locals())\n'
    mod = importlib.import_module(relpath[:-3].replace('/', '.'))
    ns = dict(vars(mod))

    class _Stop:
        def __init__(self, lv):
            self.lv = dict(lv)
    ns['__SegmentStop__'] = _Stop
    exec(compile(src, f'<segment of {key}>', 'exec'), ns)
    fn = ns['__segment__']
    defaults = {}
    nd = len(node.args.defaults)
    for a, d in zip(node.args.args[len(node.args.args) - nd:], node.args.defaults):
        try:
            defaults[a.arg] = ast.literal_eval(d)
        except Exception:
            pass

    def run(**bindings):
        kw = dict(defaults)
        kw.update(bindings)
        r = fn(**{p: kw[p] for p in params})
        if isinstance(r, _Stop):
            return SegmentResult(None, r.lv, True)
        return SegmentResult(r, {}, False)
    return run
