#!/usr/bin/env python3
"""Developer helper: applies behaviour-preserving refactorings (collected by sub-agents) to /repo one at a time, runs
the quick checks of every property anchored in a touched file, reverts, and reports any non-zero exit / VIOLATION line
(= false alarm). usage: refactor_eval.py <dir-with-refactor_k.diff> [...]"""
import glob, json, os, re, subprocess, sys
HERE = os.path.dirname(os.path.abspath(__file__))
props = [json.loads(l) for l in open(os.path.join(HERE, 'properties.jsonl'))]
claimed = {c['property_id'] for c in json.load(open(os.path.join(HERE, 'MANIFEST.json')))['checks']}
assert not subprocess.run(['git', '-C', '/repo', 'status', '--short'], capture_output=True, text=True).stdout.strip(), '/repo not clean'
rows = []
for d in sys.argv[1:]:
    for diff in sorted(glob.glob(os.path.join(d, 'refactor_*.diff'))):
        files = re.findall(r'^\+\+\+ b/(.*)$', open(diff).read(), re.M)
        todo = sorted(p['id'] for p in props if p['id'] in claimed and any(f in p['anchors']['files'] for f in files))
        if subprocess.run(['git', '-C', '/repo', 'apply', diff]).returncode != 0:
            rows.append((diff, 'does-not-apply', []))
            continue
        bad = []
        try:
            for pid in todo:
                p = subprocess.run([os.path.join(HERE, 'check'), pid], capture_output=True, text=True)
                viol = re.findall(r'^(?:FAILED|UNDECIDED|CHECKER-FAILURE): (.*)$', p.stdout, re.M)
                notes = len(re.findall(r'^NOTE:', p.stdout, re.M))
                if p.returncode != 0:
                    bad.append((pid, p.returncode, viol[:3]))
                print(os.path.basename(d), os.path.basename(diff), pid, 'rc', p.returncode, 'notes', notes, viol[:2], flush=True)
        finally:
            subprocess.run(['git', '-C', '/repo', 'checkout', '--', '.'], check=True)
        rows.append((diff, files, bad))
print('=== false alarms ===')
for diff, files, bad in rows:
    if bad:
        print(diff, files, bad)
print('refactorings:', len(rows), 'with alarms:', sum(1 for r in rows if r[2]))
