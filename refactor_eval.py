#!/usr/bin/env python3
"""Developer helper: applies behaviour-preserving refactorings (collected by sub-agents) to /repo one at a time, runs
the quick checks of every property anchored in a touched file, reverts, and reports any non-zero exit / VIOLATION line
(= false alarm). usage: refactor_eval.py <dir-with-refactor_k.diff> [...]"""
import glob, json, os, re, subprocess, sys
HERE = os.path.dirname(os.path.abspath(__file__))
props = [json.loads(l) for l in open(os.path.join(HERE, 'properties.jsonl'))]
claimed = {c['property_id'] for c in json.load(open(os.path.join(HERE, 'MANIFEST.json')))['checks']}
# with REFAC_WT=<dir> a scratch worktree of /repo's HEAD is patched instead of /repo (evidence / replays go to REFAC_OUT)
REPO = os.environ.get('REFAC_WT', '/repo')
if REPO != '/repo':
    subprocess.run(['git', '-C', '/repo', 'worktree', 'add', '--detach', REPO, 'HEAD'], check=True, capture_output=True)
    os.environ['VERIF_REPO'] = REPO
    os.environ['VERIF_OUT'] = os.environ.get('REFAC_OUT', '/tmp/refac_out')
    os.makedirs(os.environ['VERIF_OUT'], exist_ok=True)
assert not subprocess.run(['git', '-C', REPO, 'status', '--short'], capture_output=True, text=True).stdout.strip(), 'repo not clean'
rows = []
for d in sys.argv[1:]:
    for diff in sorted(glob.glob(os.path.join(d, 'refactor_*.diff'))):
        files = re.findall(r'^\+\+\+ b/(.*)$', open(diff).read(), re.M)
        todo = sorted(p['id'] for p in props if p['id'] in claimed and any(f in p['anchors']['files'] for f in files))
        if subprocess.run(['git', '-C', REPO, 'apply', diff]).returncode != 0:
            rows.append((diff, 'does-not-apply', []))
            continue
        bad = []
        try:
            for pid in todo:
                p = subprocess.run([os.path.join(HERE, 'check'), pid], capture_output=True, text=True)
                viol = re.findall(r'^(?:FAILED|UNDECIDED|CHECKER-FAILURE): (.*)$', p.stdout, re.M)
                notes = len(re.findall(r'^NOTE:', p.stdout, re.M))
                if p.returncode != 0:
                    bad.append((pid, p.returncode, viol[:3]))
                print(os.path.basename(d), os.path.basename(diff), pid, 'rc', p.returncode, 'notes', notes, viol[:2], flush=True)
        finally:
            subprocess.run(['git', '-C', REPO, 'checkout', '--', '.'], check=True)
            subprocess.run(['git', '-C', REPO, 'clean', '-fdq'], check=False)
        rows.append((diff, files, bad))
print('=== false alarms ===')
for diff, files, bad in rows:
    if bad:
        print(diff, files, bad)
print('refactorings:', len(rows), 'with alarms:', sum(1 for r in rows if r[2]))
if REPO != '/repo':
    subprocess.run(['git', '-C', '/repo', 'worktree', 'remove', '--force', REPO])
