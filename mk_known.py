#!/usr/bin/env python3
"""Maintenance helper (never run by the checks): proposes KNOWN_FINDINGS entries from the replay files of the last run.
usage: mk_known.py <PROP> '<what text>' [clause-filter] [label-substring]"""
import glob, json, sys
prop, what = sys.argv[1], sys.argv[2]
cf = sys.argv[3] if len(sys.argv) > 3 else ''
lf = sys.argv[4] if len(sys.argv) > 4 else ''
seen = {}
for f in sorted(glob.glob(f'/verif/replays/{prop}/*.json')):
    r = json.load(open(f))
    if 'witness_class' not in r or cf not in r['clause'] or lf not in r['witness_class']:
        continue
    seen.setdefault((r['clause'], r['witness_class']), r)
kf = json.load(open('/verif/KNOWN_FINDINGS.json'))
for (clause, wc), r in seen.items():
    e = dict(kind='known', property=prop, clause=clause, witness_class=wc, example_witness=r['witness'],
             what=what, observed=r['detail'][:200])
    if not any(x.get('property') == prop and x.get('clause') == clause and x.get('witness_class') == wc for x in kf['findings']):
        kf['findings'].append(e)
        print('added', prop, clause, wc)
json.dump(kf, open('/verif/KNOWN_FINDINGS.json', 'w'), indent=1)
