#!/usr/bin/env python3
"""Maintenance helper: prints the 'functions under contract' table of DESIGN.md section 11.1 from the sidecar files."""
import sys, os, json
sys.path.insert(0, os.path.dirname(os.path.abspath(__file__)))
from pyvc import runner
db = runner.load_db()
lock = json.load(open(os.path.join(os.path.dirname(os.path.abspath(__file__)), 'contracts/obligations.lock.json')))
rows = {}
for k, c in sorted(db.contracts.items()):
    props = c.get('properties') or [c.get('property')]
    f, fn = k.split(':')
    assumed = [n for n, s in (c.get('calls') or {}).items() if isinstance(s, dict) and not s.get('verified_as')]
    rows.setdefault(f, []).append((fn, props, len(c.get('ensures', {})), assumed, k in db.domain if hasattr(db, 'domain') else None))
print('| file | function (segment / variant after @) | properties | post clauses | assumed callee contracts |')
print('|---|---|---|---|---|')
for f in sorted(rows):
    for fn, props, n, assumed, dom in rows[f]:
        print(f'| `{f.replace("adsg_core/", "")}` | `{fn}` | {" ".join(sorted(props))} | {n} | {", ".join("`" + a + "`" for a in assumed) or "—"} |')
