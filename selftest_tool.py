"""Deliberate-breakage self test of the pyvc engine: applies textual rewrites to a scratch copy of one source file
and checks that `break` rewrites fail >=1 obligation while `keep` rewrites still verify."""
import os
import shutil
import sys
import tempfile

HERE = os.path.dirname(os.path.abspath(__file__))
sys.path.insert(0, HERE)


def verify_with_rewrite(key, old, new, repo=os.environ.get('VERIF_REPO', '/repo'), timeout_ms=10000, count=1, stop_at_first=False):
    from pyvc import runner
    from pyvc.verify import verify_function
    rel = key.split(':')[0]
    tmp = tempfile.mkdtemp(prefix='verif_selftest_')
    try:
        dst = os.path.join(tmp, rel)
        os.makedirs(os.path.dirname(dst), exist_ok=True)
        text = open(os.path.join(repo, rel)).read()
        if old not in text:
            return dict(error=f'rewrite source text not found: {old!r}')
        open(dst, 'w').write(text.replace(old, new, count))
        db = runner.load_db(tmp)
        r = verify_function(db, key, timeout_ms=timeout_ms, stop_at_first=stop_at_first)
        failed = [x.name for x in r['results'] if x.status == 'failed']
        unknown = [x.name for x in r['results'] if x.status == 'unknown']
        return dict(error=r['error'], failed=failed, unknown=unknown)
    finally:
        shutil.rmtree(tmp, ignore_errors=True)


if __name__ == '__main__':
    key, old, new = sys.argv[1:4]
    print(verify_with_rewrite(key, old, new))
